------------------------------- MODULE MC_Out -------------------------------
(***************************************************************************)
(* TLC model over Out.tla: every sequence of write-path commands up to a   *)
(* length; invariant WireOk; ExportSpec prints one replay line per explored *)
(* transition (token sequence).                                             *)
(***************************************************************************)
EXTENDS Out, Json

CONSTANTS Toks, MaxLen

VARIABLES st, hist, pred
vars == <<st, hist, pred>>
view == <<st, Len(hist)>>

Init == st = Init0 /\ hist = << >> /\ pred = << >>
Step(tok) == /\ Len(hist) < MaxLen
             /\ LET s == Do(st, tok) IN st' = Next0(s) /\ pred' = Evs(s)
             /\ hist' = Append(hist, tok)
Next == \E tok \in Toks : Step(tok)
Spec == Init /\ [][Next]_vars
TypeOk == WireOk(st)
ExportNext == Next /\ PrintT(<<"REPLAY", "none", ToJson(hist')>>)
ExportSpec == Init /\ [][ExportNext]_vars

TAll == {"q0", "q0id", "s0", "q1", "q2", "q1id1", "q1long", "q1big", "s1", "s1long", "c2", "c4", "c7", "sd", "ack"}
TResp == {"q0", "q1", "s0", "s1", "c2", "c4", "sd", "ack", "in1", "close", "ctl"}
TEmpty == {"s0", "s1", "c0", "c2", "c4", "sd", "q0", "ack"}
TNb == {"q1nb", "q1", "s1", "s0", "c2", "c4", "sd", "ack"}
TStream == {"q0", "q1", "s0", "s1", "s1long", "c2", "c4", "c7", "sd", "ack"}
=============================================================================
