----------------------------- MODULE Handshake -----------------------------
(***************************************************************************)
(* Implementation-shaped model of connection set-up on the server side:    *)
(* src/server.rs + src/version.rs (combined server: the protocol level is  *)
(* sniffed from the first bytes and the connection is handed to the v3 or  *)
(* the v5 service), src/v3/server.rs / src/v5/server.rs (handshake service:*)
(* first packet must be a well-formed CONNECT of the served version, the   *)
(* application accepts / refuses / fails / answers late) and the limits    *)
(* that result (src/v5/server.rs HandshakeService::call, src/v3/server.rs).*)
(*                                                                         *)
(* Written as a function from the parameters of one run to the events the  *)
(* harness records in its four phases:                                     *)
(*   A  the peer writes its first packet                                   *)
(*   B  the peer writes a QoS 0 PUBLISH right behind it                    *)
(*   C  the probe: a packet just beyond one negotiated limit               *)
(*   D  drain: a handshake service that answers late answers now           *)
(* HsConform.tla lets TLC compare this prediction with every recorded run. *)
(***************************************************************************)
EXTENDS Naturals, Integers, Sequences

E(e, k, s, id, q, r, n, x) == [e |-> e, k |-> k, s |-> s, id |-> id, q |-> q, r |-> r, n |-> n, x |-> x]

\* p: [ep (3 | 5 | 0 = combined), t, level, protoOk, flagsOk, ka, rm, outcome, probe,
\*     maxSend, ackSend, maxQos, ackQos, maxSize, ackSize, aliasMax, ackAlias, ackKa, ackRM, maxReceive]
\* (ack* = value the handshake service set on its acknowledgement, -1 = left alone)
Served(p) == IF p.ep = 0 THEN {4, 5} ELSE IF p.ep = 3 THEN {4} ELSE {5}
WellFormed(p) == p.t = "connect" /\ p.protoOk = 1 /\ p.flagsOk = 1 /\ p.level \in Served(p)
Ver(p) == IF p.level = 5 THEN 5 ELSE 3

\* limits in force once the handshake is accepted
EffQos(p) == IF Ver(p) = 5 /\ p.ackQos >= 0 THEN p.ackQos ELSE p.maxQos
EffAlias(p) == IF p.ackAlias >= 0 THEN p.ackAlias ELSE p.aliasMax
\* (MQTT 3.1.1: HandshakeAck::max_packet_size takes a non-zero value only - it can lower or raise the limit, not lift it)
EffSize(p) == IF Ver(p) = 5 /\ p.ackSize >= 0 THEN p.ackSize ELSE IF Ver(p) = 3 /\ p.ackSize > 0 THEN p.ackSize ELSE p.maxSize
EffRM(p) == IF p.ackRM > 0 THEN p.ackRM ELSE p.maxReceive
EffWindow(p) == LET base == IF p.ackSend > 0 THEN p.ackSend ELSE p.maxSend IN
                IF Ver(p) = 5 /\ p.rm > 0 /\ p.rm < base THEN p.rm ELSE base

\* CONNACK as the tokeniser reports it: id = Maximum QoS (-1 = absent = 2), q = Receive Maximum (0 = absent),
\* s = Topic Alias Maximum, n = Server Keep Alive (-1 = absent), x = Maximum Packet Size (as a string, by the caller)
ConnAck(p) ==
  IF Ver(p) = 3 THEN E("out", "CONNACK", 0, 0, 0, 0, 0, "")
  ELSE E("out", "CONNACK", EffAlias(p), IF EffQos(p) = 2 THEN -1 ELSE EffQos(p), IF EffRM(p) = 65535 THEN 0 ELSE EffRM(p),
         \* Server Keep Alive is announced only when the handshake service imposed a shorter one than the client asked for
         0, IF p.ackKa > 0 /\ p.ka > p.ackKa THEN p.ackKa ELSE -1, "size")

Route(p) == IF p.ep = 0 THEN << E("route", "", 0, 0, 0, 0, Ver(p), "") >> ELSE << >>
HsStart(p) == E("h_start", "hs", 1, 0, IF Ver(p) = 5 THEN p.rm ELSE 0, 0, p.ka, "c")
Done(k) == E("conn_done", k, 0, 0, 0, 0, 0, "")
Answer(p) ==
  CASE p.outcome = "ok" -> << E("h_end", "ok", 1, 0, 0, 0, 0, ""), ConnAck(p) >>
    [] p.outcome = "refuse" -> << E("h_end", "refuse", 1, 0, 0, 0, 0, ""), Done("err"),
                                 E("out", "CONNACK", 0, IF Ver(p) = 5 THEN -1 ELSE 0, 0, IF Ver(p) = 5 THEN 135 ELSE 5, 0, "") >>
    [] OTHER -> << E("h_end", "err", 1, 0, 0, 0, 0, ""), Done("err") >>

PhaseA(p) ==
  IF ~WellFormed(p) THEN << Done("err") >>
  ELSE Route(p) \o << HsStart(p) >> \o (IF p.outcome = "slow" THEN << >> ELSE Answer(p))

Pub0 == << E("h_start", "pub", 2, 0, 0, 0, 1, "t"), E("h_end", "ok", 2, 0, 0, 0, 0, "") >>
PhaseB(p) == IF WellFormed(p) /\ p.outcome = "ok" THEN Pub0 ELSE << >>

StopProto(p, rc) ==
  << E("ctl", "stop_proto", 3, 0, 0, 0, 0, ""), E("ctl_done", "ok", 3, 0, 0, 0, 0, ""), Done("ok") >>
  \o (IF Ver(p) = 5 THEN << E("out", "DISCONNECT", 0, 0, 0, rc, 0, "") >> ELSE << >>)
PhaseC(p) ==
  IF ~(WellFormed(p) /\ p.outcome = "ok") THEN << >>
  ELSE CASE p.probe = "qos" -> StopProto(p, 155)
         [] p.probe = "oversize" -> StopProto(p, 149)
         [] p.probe = "alias_over" -> StopProto(p, 130)
         [] p.probe = "alias_at" -> << E("h_start", "pub", 3, 77, 1, 0, 1, "t"), E("h_end", "ok", 3, 0, 0, 0, 0, ""),
                                      E("out", "PUBACK", 0, 77, 0, 0, 0, "") >>
         [] p.probe = "oversize_ok" -> << E("h_start", "pub", 3, 77, 1, 0, 100, "t"), E("h_end", "ok", 3, 0, 0, 0, 0, ""),
                                         E("out", "PUBACK", 0, 77, 0, 0, 0, "") >>
         [] OTHER -> << >>

\* a handshake service that answers only now: the answer, then the PUBLISH that waited behind the CONNECT
PhaseD(p) == IF WellFormed(p) /\ p.outcome = "slow"
               THEN << E("h_end", "ok", 1, 0, 0, 0, 0, "") >> \o Pub0 \o << ConnAck(p) >>
               ELSE << >>

Run(p) == << PhaseA(p), PhaseB(p), PhaseC(p), PhaseD(p) >>
=============================================================================
