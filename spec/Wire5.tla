-------------------------------- MODULE Wire5 --------------------------------
(***************************************************************************)
(* Reference semantics of the MQTT 5.0 control packet formats (OASIS MQTT  *)
(* Version 5.0, sections 2 and 3), written from the specification text:    *)
(* property identifiers, types, reason-code sets and layouts are spelled   *)
(* out here as literals and share nothing with the crate under test.       *)
(*                                                                         *)
(*   Enc(p)            canonical encoding of the abstract packet value p   *)
(*   Dec(b, maxSize)   three-valued decoder of one frame at the front of b *)
(*        [c |-> "OK", p, used] | [c |-> "MORE"] | [c |-> "ERR", why]      *)
(*        why names the violated rule; Must(why) says whether the property *)
(*        statement C02 pins the rejection down (otherwise: MAY).          *)
(*                                                                         *)
(* Abstract values are records of the fields an application sees (what the *)
(* library can represent): a property equal to its default is the same     *)
(* value as an absent property.  Byte strings are sequences of 0..255;     *)
(* optional strings are << >> or <<s>>; absent numbers are -1 or 0 as      *)
(* documented per field.                                                   *)
(***************************************************************************)
EXTENDS Bytes

CONSTANT Ord(_)   \* order in which an encoder writes a property list (any order is legal)
CONSTANT Extra    \* raw bytes appended to every property section the encoder writes (<< >> normally; hostile input: a
                  \* well-formed property that may not be allowed in that packet type, or repeats one)
CONSTANT CutAt    \* -1, or: every property section is cut after its first CutAt bytes and announces exactly that
                  \* length (hostile input: the last property loses its value or a part of it, all outer lengths agree)

\* ---------------------------------------------------------------- property table
PByte == {1, 23, 25, 36, 37, 40, 41, 42}
PU16 == {19, 33, 34, 35}
PU32 == {2, 17, 24, 39}
PVar == {11}
PStr == {3, 8, 18, 21, 26, 28, 31}
PBin == {9, 22}
PPair == {38}
PAll == PByte \cup PU16 \cup PU32 \cup PVar \cup PStr \cup PBin \cup PPair

EncProp(id, v) ==
  <<id>> \o (CASE id \in PByte -> U8(v) [] id \in PU16 -> U16(v) [] id \in PU32 -> U32(v)
               [] id \in PVar -> VarEnc(v) [] id \in PStr -> Str(v) [] id \in PBin -> Str(v)
               [] OTHER -> Str(v[1]) \o Str(v[2]))

RECURSIVE EncPropList(_)
EncPropList(ps) == IF ps = << >> THEN << >> ELSE EncProp(Head(ps)[1], Head(ps)[2]) \o EncPropList(Tail(ps))
EncProps(ps) == LET full == EncPropList(Ord(ps)) \o Extra
                    body == IF CutAt >= 0 /\ CutAt < Len(full) THEN SubSeq(full, 1, CutAt) ELSE full
                IN VarEnc(Len(body)) \o body

\* read one property value
RdPropVal(b, i, lim, id) ==
  CASE id \in PByte -> RdU8(b, i, lim)
    [] id \in PU16 -> RdU16(b, i, lim)
    [] id \in PU32 -> RdU32(b, i, lim)
    [] id \in PVar -> RdVar(b, i, lim)
    [] id \in PStr -> RdStr(b, i, lim)
    [] id \in PBin -> RdBin(b, i, lim)
    [] OTHER -> LET k == RdStr(b, i, lim) IN
                IF ~k.ok THEN k
                ELSE LET v == RdStr(b, k.i, lim) IN
                     IF ~v.ok THEN v ELSE Okv(<<k.v, v.v>>, v.i)

\* property list between i and lim (exclusive): allowed ids, ids that may repeat
RECURSIVE RdPropList(_, _, _, _, _, _)
RdPropList(b, i, lim, allowed, multi, acc) ==
  IF i = lim THEN Okv(acc, i)
  ELSE LET id == b[i] IN
       IF id \notin allowed THEN Err("unknown-property")
       ELSE IF id \notin multi /\ \E k \in 1..Len(acc) : acc[k][1] = id THEN Err("repeated-property")
       ELSE LET v == RdPropVal(b, i + 1, lim, id) IN
            IF ~v.ok THEN v ELSE RdPropList(b, v.i, lim, allowed, multi, Append(acc, <<id, v.v>>))

\* property block: length varint + list; must fit before lim
RdProps(b, i, lim, allowed, multi) ==
  LET n == RdVar(b, i, lim) IN
  IF ~n.ok THEN n
  ELSE IF n.i + n.v > lim THEN Err("length")
  ELSE LET r == RdPropList(b, n.i, n.i + n.v, allowed, multi, << >>) IN
       IF ~r.ok THEN r ELSE Okv(r.v, n.i + n.v)

Has(ps, id) == \E k \in 1..Len(ps) : ps[k][1] = id
Get(ps, id, dflt) == IF Has(ps, id) THEN ps[CHOOSE k \in 1..Len(ps) : ps[k][1] = id][2] ELSE dflt
GetOpt(ps, id) == IF Has(ps, id) THEN <<Get(ps, id, 0)>> ELSE << >>
GetAll(ps, id) == [k \in 1..Len(SelectSeq(ps, LAMBDA e : e[1] = id)) |-> SelectSeq(ps, LAMBDA e : e[1] = id)[k][2]]

\* builders for canonical property lists (ascending id; repeated ids in value order)
POpt(id, o) == IF o = << >> THEN << >> ELSE << <<id, o[1]>> >>
PNum(id, v, absent) == IF v = absent THEN << >> ELSE << <<id, v>> >>
PMany(id, vs) == [k \in 1..Len(vs) |-> <<id, vs[k]>>]

\* ---------------------------------------------------------------- reason codes
RcConnack == {0, 128, 129, 130, 131, 132, 133, 134, 135, 136, 137, 138, 140, 144, 149, 151, 153, 154, 155, 156, 157, 159}
RcPubAck == {0, 16, 128, 131, 135, 144, 145, 151, 153}
RcPubRel == {0, 146}
RcSubAck == {0, 1, 2, 128, 131, 135, 143, 145, 151, 158, 161, 162}
RcUnsubAck == {0, 17, 128, 131, 135, 143, 145}
RcDisconnect == {0, 4, 128, 129, 130, 131, 135, 137, 139, 141, 142, 143, 144, 147, 148, 149, 150, 151, 152,
                 153, 154, 155, 156, 157, 158, 159, 160, 161, 162}
RcAuth == {0, 24, 25}

Frame(b0, body) == <<b0>> \o VarEnc(Len(body)) \o body
MQTTName == <<0, 4, 77, 81, 84, 84>>

\* ---------------------------------------------------------------- encoders
AckType(t) == CASE t = "PUBACK" -> 64 [] t = "PUBREC" -> 80 [] t = "PUBREL" -> 98 [] OTHER -> 112

EncAck(p) ==
  LET ps == POpt(31, p.rs) \o PMany(38, p.up) IN
  Frame(AckType(p.t),
        U16(p.id) \o (IF ps = << >> /\ p.rc = 0 THEN << >>
                      ELSE IF ps = << >> THEN U8(p.rc)
                      ELSE U8(p.rc) \o EncProps(ps)))

EncPublishHeader(p) ==
  LET ps == PNum(1, p.utf8, 0) \o PNum(2, p.mei, 0) \o POpt(3, p.ct) \o POpt(8, p.rt) \o POpt(9, p.cd)
            \o PMany(11, p.sids) \o PNum(35, p.alias, 0) \o PMany(38, p.up)
      vh == Str(p.topic) \o (IF p.q > 0 THEN U16(p.id) ELSE << >>) \o EncProps(ps)
  IN <<48 + p.dup * 8 + p.q * 2 + p.retain>> \o VarEnc(Len(vh) + p.psize) \o vh
\* (the payload, p.psize bytes, follows the header)

EncWill(w) ==
  LET ps == PNum(1, w.utf8, -1) \o PNum(2, w.mei, 0) \o POpt(3, w.ct) \o POpt(8, w.rt) \o POpt(9, w.cd)
            \o POpt(24, w.delay) \o PMany(38, w.up)
  IN EncProps(ps) \o Str(w.topic) \o Str(w.msg)

EncConnect(p) ==
  LET flags == (IF p.user # << >> THEN 128 ELSE 0) + (IF p.pass # << >> THEN 64 ELSE 0)
               + (IF p.will # << >> THEN 4 + p.will[1].q * 8 + p.will[1].retain * 32 ELSE 0)
               + p.clean * 2
      ps == PNum(17, p.sei, 0) \o POpt(21, p.am) \o POpt(22, p.ad) \o PNum(23, p.rpi, 1) \o PNum(25, p.rri, 0)
            \o PNum(33, p.rm, 0) \o PNum(34, p.tam, 0) \o PMany(38, p.up) \o PNum(39, p.mps, 0)
  IN Frame(16, MQTTName \o <<5, flags>> \o U16(p.ka) \o EncProps(ps) \o Str(p.cid)
               \o (IF p.will # << >> THEN EncWill(p.will[1]) ELSE << >>)
               \o (IF p.user # << >> THEN Str(p.user[1]) ELSE << >>)
               \o (IF p.pass # << >> THEN Str(p.pass[1]) ELSE << >>))

EncConnack(p) ==
  LET ps == POpt(17, p.sei) \o POpt(18, p.acid) \o POpt(19, p.ska) \o POpt(21, p.am) \o POpt(22, p.ad)
            \o POpt(26, p.ri) \o POpt(28, p.sr) \o POpt(31, p.rs) \o PNum(33, p.rm, 65535) \o PNum(34, p.tam, 0)
            \o PNum(36, p.mq, 2) \o PNum(37, p.ra, 1) \o PMany(38, p.up) \o POpt(39, p.mps)
            \o PNum(40, p.wsa, 1) \o PNum(41, p.sia, 1) \o PNum(42, p.ssa, 1)
  IN Frame(32, <<p.sp, p.rc>> \o EncProps(ps))

RECURSIVE EncSubFilters(_)
EncSubFilters(fs) ==
  IF fs = << >> THEN << >>
  ELSE LET f == Head(fs) IN
       Str(f[1]) \o <<f[2] + f[3] * 4 + f[4] * 8 + f[5] * 16>> \o EncSubFilters(Tail(fs))
RECURSIVE EncStrs(_)
EncStrs(fs) == IF fs = << >> THEN << >> ELSE Str(Head(fs)) \o EncStrs(Tail(fs))

EncSubscribe(p) == Frame(130, U16(p.id) \o EncProps(PNum(11, p.sid, 0) \o PMany(38, p.up)) \o EncSubFilters(p.filters))
EncUnsubscribe(p) == Frame(162, U16(p.id) \o EncProps(PMany(38, p.up)) \o EncStrs(p.filters))
EncSubAck(p) == Frame(IF p.t = "SUBACK" THEN 144 ELSE 176,
                      U16(p.id) \o EncProps(POpt(31, p.rs) \o PMany(38, p.up)) \o p.codes)

EncDisconnect(p) ==
  LET ps == POpt(17, p.sei) \o POpt(28, p.sr) \o POpt(31, p.rs) \o PMany(38, p.up) IN
  Frame(224, IF ps = << >> /\ p.rc = 0 THEN << >> ELSE IF ps = << >> THEN U8(p.rc) ELSE U8(p.rc) \o EncProps(ps))

EncAuth(p) ==
  LET ps == POpt(21, p.am) \o POpt(22, p.ad) \o POpt(31, p.rs) \o PMany(38, p.up) IN
  Frame(240, IF ps = << >> /\ p.rc = 0 THEN << >> ELSE U8(p.rc) \o EncProps(ps))

Enc(p) ==
  CASE p.t = "CONNECT" -> EncConnect(p)
    [] p.t = "CONNACK" -> EncConnack(p)
    [] p.t = "PUBLISH" -> EncPublishHeader(p)
    [] p.t \in {"PUBACK", "PUBREC", "PUBREL", "PUBCOMP"} -> EncAck(p)
    [] p.t = "SUBSCRIBE" -> EncSubscribe(p)
    [] p.t \in {"SUBACK", "UNSUBACK"} -> EncSubAck(p)
    [] p.t = "UNSUBSCRIBE" -> EncUnsubscribe(p)
    [] p.t = "PINGREQ" -> <<192, 0>>
    [] p.t = "PINGRESP" -> <<208, 0>>
    [] p.t = "DISCONNECT" -> EncDisconnect(p)
    [] OTHER -> EncAuth(p)

\* ---------------------------------------------------------------- decoders (body between i and lim)
E(why) == [c |-> "ERR", why |-> why]
Fin(p, r) == IF ~r.ok THEN E(r.why) ELSE p

DecAck(t, b, i, lim, rcs) ==
  LET id == RdU16(b, i, lim) IN
  IF ~id.ok THEN E(id.why)
  ELSE IF id.v = 0 THEN E("zero-id")
  ELSE IF id.i = lim THEN [c |-> "OK", p |-> [t |-> t, id |-> id.v, rc |-> 0, rs |-> << >>, up |-> << >>]]
  ELSE LET rc == b[id.i] IN
       IF rc \notin rcs THEN E("reason")
       ELSE IF id.i + 1 = lim THEN [c |-> "OK", p |-> [t |-> t, id |-> id.v, rc |-> rc, rs |-> << >>, up |-> << >>]]
       ELSE LET ps == RdProps(b, id.i + 1, lim, {31, 38}, {38}) IN
            IF ~ps.ok THEN E(ps.why)
            ELSE IF ps.i # lim THEN E("length")
            ELSE [c |-> "OK", p |-> [t |-> t, id |-> id.v, rc |-> rc, rs |-> GetOpt(ps.v, 31), up |-> GetAll(ps.v, 38)]]

\* bound = first index that may not be read (at most lim): a decoder that is handed only the header
\* of a large PUBLISH passes bound = Len(b) + 1 < lim
DecPublishB(b0, b, i, bound, flim) ==
  LET lim == bound
      q == (b0 \div 2) % 4 IN
  IF q = 3 THEN E("qos3")
  ELSE LET tp == RdStr(b, i, lim) IN
  IF ~tp.ok THEN E(tp.why)
  ELSE LET id == IF q > 0 THEN RdU16(b, tp.i, lim) ELSE Okv(0, tp.i) IN
  IF ~id.ok THEN E(id.why)
  ELSE IF q > 0 /\ id.v = 0 THEN E("zero-id")
  ELSE LET ps == RdProps(b, id.i, lim, {1, 2, 3, 8, 9, 11, 35, 38}, {11, 38}) IN
  IF ~ps.ok THEN E(ps.why)
  ELSE IF Has(ps.v, 35) /\ Get(ps.v, 35, 0) = 0 THEN E("value")
  ELSE IF \E k \in 1..Len(ps.v) : ps.v[k][1] = 11 /\ ps.v[k][2] = 0 THEN E("value")
  ELSE IF Has(ps.v, 1) /\ Get(ps.v, 1, 0) > 1 THEN E("value")
  ELSE [c |-> "OK",
        p |-> [t |-> "PUBLISH", dup |-> (b0 \div 8) % 2, retain |-> b0 % 2, q |-> q, topic |-> tp.v, id |-> id.v,
               utf8 |-> Get(ps.v, 1, 0), mei |-> Get(ps.v, 2, 0), ct |-> GetOpt(ps.v, 3), rt |-> GetOpt(ps.v, 8),
               cd |-> GetOpt(ps.v, 9), sids |-> GetAll(ps.v, 11), alias |-> Get(ps.v, 35, 0), up |-> GetAll(ps.v, 38),
               psize |-> flim - ps.i],
        payloadAt |-> ps.i]
DecPublish(b0, b, i, lim) == DecPublishB(b0, b, i, lim, lim)

DecWill(b, i, lim, flags) ==
  LET ps == RdProps(b, i, lim, {1, 2, 3, 8, 9, 24, 38}, {38}) IN
  IF ~ps.ok THEN ps
  ELSE LET tp == RdStr(b, ps.i, lim) IN
  IF ~tp.ok THEN tp
  ELSE LET msg == RdBin(b, tp.i, lim) IN
  IF ~msg.ok THEN msg
  ELSE IF (flags \div 8) % 4 = 3 THEN Err("qos3")
  ELSE IF Has(ps.v, 1) /\ Get(ps.v, 1, 0) > 1 THEN Err("value")
  ELSE Okv([q |-> (flags \div 8) % 4, retain |-> (flags \div 32) % 2, topic |-> tp.v, msg |-> msg.v,
            utf8 |-> Get(ps.v, 1, -1), mei |-> Get(ps.v, 2, 0), ct |-> GetOpt(ps.v, 3), rt |-> GetOpt(ps.v, 8),
            cd |-> GetOpt(ps.v, 9), delay |-> GetOpt(ps.v, 24), up |-> GetAll(ps.v, 38)], msg.i)

DecConnect(b, i, lim) ==
  IF i + 10 > lim THEN E("length")
  ELSE IF SubSeq(b, i, i + 5) # MQTTName THEN E("protocol-name")
  ELSE IF b[i + 6] # 5 THEN E("protocol-level")
  ELSE LET flags == b[i + 7]
           ka == b[i + 8] * 256 + b[i + 9]
           ps == RdProps(b, i + 10, lim, {17, 21, 22, 23, 25, 33, 34, 38, 39}, {38}) IN
  IF flags % 2 = 1 THEN E("reserved-flag")
  ELSE IF ~ps.ok THEN E(ps.why)
  ELSE IF (Has(ps.v, 33) /\ Get(ps.v, 33, 1) = 0) \/ (Has(ps.v, 39) /\ Get(ps.v, 39, 1) = 0)
          \/ (Has(ps.v, 23) /\ Get(ps.v, 23, 0) > 1) \/ (Has(ps.v, 25) /\ Get(ps.v, 25, 0) > 1) THEN E("value")
  ELSE LET cid == RdStr(b, ps.i, lim) IN
  IF ~cid.ok THEN E(cid.why)
  ELSE LET hasWill == (flags \div 4) % 2 = 1
           w == IF hasWill THEN DecWill(b, cid.i, lim, flags) ELSE Okv(0, cid.i) IN
  IF ~w.ok THEN E(w.why)
  ELSE IF ~hasWill /\ (flags \div 8) % 8 # 0 THEN E("will-flags-without-will")
  ELSE LET u == IF flags >= 128 THEN RdStr(b, w.i, lim) ELSE Okv(0, w.i) IN
  IF ~u.ok THEN E(u.why)
  ELSE LET pw == IF (flags \div 64) % 2 = 1 THEN RdBin(b, u.i, lim) ELSE Okv(0, u.i) IN
  IF ~pw.ok THEN E(pw.why)
  ELSE IF pw.i # lim THEN E("length")
  ELSE [c |-> "OK",
        p |-> [t |-> "CONNECT", clean |-> (flags \div 2) % 2, ka |-> ka, sei |-> Get(ps.v, 17, 0), am |-> GetOpt(ps.v, 21),
               ad |-> GetOpt(ps.v, 22), rpi |-> Get(ps.v, 23, 1), rri |-> Get(ps.v, 25, 0), rm |-> Get(ps.v, 33, 0),
               tam |-> Get(ps.v, 34, 0), up |-> GetAll(ps.v, 38), mps |-> Get(ps.v, 39, 0),
               will |-> IF hasWill THEN <<w.v>> ELSE << >>, cid |-> cid.v,
               user |-> IF flags >= 128 THEN <<u.v>> ELSE << >>,
               pass |-> IF (flags \div 64) % 2 = 1 THEN <<pw.v>> ELSE << >>]]

DecConnack(b, i, lim) ==
  IF i + 2 > lim THEN E("length")
  ELSE IF b[i] > 1 THEN E("reserved-flag")
  ELSE IF b[i + 1] \notin RcConnack THEN E("reason")
  ELSE LET ps == RdProps(b, i + 2, lim, {17, 18, 19, 21, 22, 26, 28, 31, 33, 34, 36, 37, 38, 39, 40, 41, 42}, {38}) IN
  IF ~ps.ok THEN E(ps.why)
  ELSE IF ps.i # lim THEN E("length")
  ELSE IF (Has(ps.v, 33) /\ Get(ps.v, 33, 1) = 0) \/ (Has(ps.v, 36) /\ Get(ps.v, 36, 0) > 1)
          \/ (Has(ps.v, 39) /\ Get(ps.v, 39, 1) = 0)
          \/ \E id \in {37, 40, 41, 42} : Has(ps.v, id) /\ Get(ps.v, id, 0) > 1 THEN E("value")
  ELSE [c |-> "OK",
        p |-> [t |-> "CONNACK", sp |-> b[i], rc |-> b[i + 1], sei |-> GetOpt(ps.v, 17), acid |-> GetOpt(ps.v, 18),
               ska |-> GetOpt(ps.v, 19), am |-> GetOpt(ps.v, 21), ad |-> GetOpt(ps.v, 22), ri |-> GetOpt(ps.v, 26),
               sr |-> GetOpt(ps.v, 28), rs |-> GetOpt(ps.v, 31), rm |-> Get(ps.v, 33, 65535), tam |-> Get(ps.v, 34, 0),
               mq |-> Get(ps.v, 36, 2), ra |-> Get(ps.v, 37, 1), up |-> GetAll(ps.v, 38), mps |-> GetOpt(ps.v, 39),
               wsa |-> Get(ps.v, 40, 1), sia |-> Get(ps.v, 41, 1), ssa |-> Get(ps.v, 42, 1)]]

RECURSIVE RdSubFilters(_, _, _, _)
RdSubFilters(b, i, lim, acc) ==
  IF i = lim THEN Okv(acc, i)
  ELSE LET f == RdStr(b, i, lim) IN
       IF ~f.ok THEN f
       ELSE IF f.i + 1 > lim THEN Err("length")
       ELSE LET o == b[f.i] IN
            IF o % 4 = 3 THEN Err("qos3")
            ELSE IF o >= 64 \/ (o \div 16) % 4 = 3 THEN Err("reserved-flag")
            ELSE RdSubFilters(b, f.i + 1, lim, Append(acc, <<f.v, o % 4, (o \div 4) % 2, (o \div 8) % 2, (o \div 16) % 4>>))

RECURSIVE RdStrs(_, _, _, _)
RdStrs(b, i, lim, acc) ==
  IF i = lim THEN Okv(acc, i)
  ELSE LET f == RdStr(b, i, lim) IN IF ~f.ok THEN f ELSE RdStrs(b, f.i, lim, Append(acc, f.v))

DecSubscribe(b, i, lim) ==
  LET id == RdU16(b, i, lim) IN
  IF ~id.ok THEN E(id.why) ELSE IF id.v = 0 THEN E("zero-id")
  ELSE LET ps == RdProps(b, id.i, lim, {11, 38}, {38}) IN
  IF ~ps.ok THEN E(ps.why)
  ELSE IF Has(ps.v, 11) /\ Get(ps.v, 11, 1) = 0 THEN E("value")
  ELSE LET fs == RdSubFilters(b, ps.i, lim, << >>) IN
  IF ~fs.ok THEN E(fs.why)
  ELSE IF fs.v = << >> THEN E("no-filters")
  ELSE [c |-> "OK", p |-> [t |-> "SUBSCRIBE", id |-> id.v, sid |-> Get(ps.v, 11, 0), up |-> GetAll(ps.v, 38), filters |-> fs.v]]

DecUnsubscribe(b, i, lim) ==
  LET id == RdU16(b, i, lim) IN
  IF ~id.ok THEN E(id.why) ELSE IF id.v = 0 THEN E("zero-id")
  ELSE LET ps == RdProps(b, id.i, lim, {38}, {38}) IN
  IF ~ps.ok THEN E(ps.why)
  ELSE LET fs == RdStrs(b, ps.i, lim, << >>) IN
  IF ~fs.ok THEN E(fs.why)
  ELSE IF fs.v = << >> THEN E("no-filters")
  ELSE [c |-> "OK", p |-> [t |-> "UNSUBSCRIBE", id |-> id.v, up |-> GetAll(ps.v, 38), filters |-> fs.v]]

DecSubAck(t, b, i, lim, rcs) ==
  LET id == RdU16(b, i, lim) IN
  IF ~id.ok THEN E(id.why) ELSE IF id.v = 0 THEN E("zero-id")
  ELSE LET ps == RdProps(b, id.i, lim, {31, 38}, {38}) IN
  IF ~ps.ok THEN E(ps.why)
  ELSE LET codes == SubSeq(b, ps.i, lim - 1) IN
  IF \E k \in 1..Len(codes) : codes[k] \notin rcs THEN E("reason")
  ELSE [c |-> "OK", p |-> [t |-> t, id |-> id.v, rs |-> GetOpt(ps.v, 31), up |-> GetAll(ps.v, 38), codes |-> codes]]

DecDisconnect(b, i, lim) ==
  IF i = lim THEN [c |-> "OK", p |-> [t |-> "DISCONNECT", rc |-> 0, sei |-> << >>, sr |-> << >>, rs |-> << >>, up |-> << >>]]
  ELSE IF b[i] \notin RcDisconnect THEN E("reason")
  ELSE IF i + 1 = lim THEN [c |-> "OK", p |-> [t |-> "DISCONNECT", rc |-> b[i], sei |-> << >>, sr |-> << >>, rs |-> << >>, up |-> << >>]]
  ELSE LET ps == RdProps(b, i + 1, lim, {17, 28, 31, 38}, {38}) IN
  IF ~ps.ok THEN E(ps.why) ELSE IF ps.i # lim THEN E("length")
  ELSE [c |-> "OK", p |-> [t |-> "DISCONNECT", rc |-> b[i], sei |-> GetOpt(ps.v, 17), sr |-> GetOpt(ps.v, 28),
                           rs |-> GetOpt(ps.v, 31), up |-> GetAll(ps.v, 38)]]

DecAuth(b, i, lim) ==
  IF i = lim THEN [c |-> "OK", p |-> [t |-> "AUTH", rc |-> 0, am |-> << >>, ad |-> << >>, rs |-> << >>, up |-> << >>]]
  ELSE IF b[i] \notin RcAuth THEN E("reason")
  ELSE IF i + 1 = lim THEN [c |-> "OK", p |-> [t |-> "AUTH", rc |-> b[i], am |-> << >>, ad |-> << >>, rs |-> << >>, up |-> << >>]]
         \* (a lone reason code: the text only describes Remaining Length 0, decoders read it like DISCONNECT)
  ELSE LET ps == RdProps(b, i + 1, lim, {21, 22, 31, 38}, {38}) IN
  IF ~ps.ok THEN E(ps.why) ELSE IF ps.i # lim THEN E("length")
  ELSE [c |-> "OK", p |-> [t |-> "AUTH", rc |-> b[i], am |-> GetOpt(ps.v, 21), ad |-> GetOpt(ps.v, 22),
                           rs |-> GetOpt(ps.v, 31), up |-> GetAll(ps.v, 38)]]

\* ---------------------------------------------------------------- one frame
\* `virt` bytes of payload follow b without being materialised (large PUBLISH payloads)
DecV(b, maxSize, virt) ==
  IF Len(b) < 2 THEN [c |-> "MORE"]
  ELSE LET rl == RdVar(b, 2, Len(b) + 1) IN
  IF ~rl.ok /\ rl.why = "varint" THEN E("varint")
  ELSE IF ~rl.ok THEN [c |-> "MORE"]
  ELSE IF maxSize > 0 /\ rl.v > maxSize THEN E("oversize")
  ELSE LET i == rl.i
           lim == rl.i + rl.v
           b0 == b[1]
           t == b0 \div 16 IN
  IF Len(b) + virt + 1 < lim THEN [c |-> "MORE", need |-> lim - 1]
  ELSE LET r ==
         CASE t = 3 -> DecPublishB(b0, b, i, IF lim > Len(b) + 1 THEN Len(b) + 1 ELSE lim, lim)
           [] b0 = 16 -> DecConnect(b, i, lim)
           [] b0 = 32 -> DecConnack(b, i, lim)
           [] b0 = 64 -> DecAck("PUBACK", b, i, lim, RcPubAck)
           [] b0 = 80 -> DecAck("PUBREC", b, i, lim, RcPubAck)
           [] b0 = 98 -> DecAck("PUBREL", b, i, lim, RcPubRel)
           [] b0 = 112 -> DecAck("PUBCOMP", b, i, lim, RcPubRel)
           [] b0 = 130 -> DecSubscribe(b, i, lim)
           [] b0 = 144 -> DecSubAck("SUBACK", b, i, lim, RcSubAck)
           [] b0 = 162 -> DecUnsubscribe(b, i, lim)
           [] b0 = 176 -> DecSubAck("UNSUBACK", b, i, lim, RcUnsubAck)
           [] b0 = 192 -> IF rl.v = 0 THEN [c |-> "OK", p |-> [t |-> "PINGREQ"]] ELSE E("ping-length")
           [] b0 = 208 -> IF rl.v = 0 THEN [c |-> "OK", p |-> [t |-> "PINGRESP"]] ELSE E("ping-length")
           [] b0 = 224 -> DecDisconnect(b, i, lim)
           [] b0 = 240 -> DecAuth(b, i, lim)
           [] OTHER -> E("packet-type-or-flags")
       IN IF r.c = "OK" THEN r @@ [used |-> lim - 1, rl |-> rl.v] ELSE r


Dec(b, maxSize) == DecV(b, maxSize, 0)
\* the rejection is demanded by the statement of C02 (otherwise the outcome is not pinned down)
\* ("varint": a variable byte integer of more than four bytes denotes no length at all)
Must(why) == why \in {"length", "varint", "unknown-property", "repeated-property", "reason", "zero-id", "qos3", "utf8", "oversize"}
=============================================================================
