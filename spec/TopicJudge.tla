----------------------------- MODULE TopicJudge -----------------------------
(***************************************************************************)
(* impl -> spec direction of C18: every recorded line is an answer of the  *)
(* real crate: [f, t, m, vf, vn] with f, t sequences of character codes;   *)
(* TLC re-evaluates the reference semantics on it.                         *)
(***************************************************************************)
EXTENDS Topic, Json, IOUtils, Integers

Rec == ndJsonDeserialize(IOEnv.TRACE)

VARIABLE done
Init == done = FALSE

BadLines ==
  {i \in 1..Len(Rec) :
     LET r == Rec[i] IN
     \/ (r.vf = 1) # ValidFilter(r.f)
     \/ (r.vf = 1 /\ r.vn = 1 /\ (r.m = 1) # Matches(r.f, r.t))}

Next == /\ ~done /\ done' = TRUE
        /\ PrintT(<<"JUDGE", ToJson([runs |-> Len(Rec), events |-> Len(Rec),
                                      viol |-> [i \in 1..Cardinality(BadLines) |-> [run |-> 0, why |-> "C18:real-answer-differs-from-reference", at |-> 0, cmd |-> ""]]])>>)

Spec == Init /\ [][Next]_done
=============================================================================
