------------------------------ MODULE SinkMon ------------------------------
(***************************************************************************)
(* Monitor for the outbound (sink) properties of ntex-mqtt:                *)
(*   C05  in-flight window never exceeds the negotiated limit              *)
(*   C06  acknowledgements reach the right sender, or the connection fails *)
(*        cleanly                                                          *)
(*   C13  blocked senders are always released (checked at `settled`)       *)
(*   C14  concurrent QoS 2 sends complete independently                    *)
(*                                                                         *)
(* The monitor is a TOTAL, purely functional state machine over the        *)
(* observable event vocabulary of the harness (DESIGN.md 2.2): any event   *)
(* sequence is consumable; a violation sets m.bad to a reason string that  *)
(* starts with the property id.  The same text is instantiated by the      *)
(* model-checking configuration (events emitted by Sink.tla) and by the    *)
(* trace judge (events recorded from the real code).                       *)
(*                                                                         *)
(* Event record: [e, k, s, id, q, r, n, x]  (strings e,k,x; integers rest) *)
(***************************************************************************)
EXTENDS Naturals, Integers, Sequences, FiniteSets, TLC

Min(a, b) == IF a < b THEN a ELSE b

\* first index of seq satisfying P, 0 if none
IdxOf(seq, P(_)) ==
  IF \E i \in 1..Len(seq) : P(seq[i])
  THEN CHOOSE i \in 1..Len(seq) : P(seq[i]) /\ \A j \in 1..(i-1) : ~P(seq[j])
  ELSE 0
RemoveAt(seq, i) == SubSeq(seq, 1, i-1) \o SubSeq(seq, i+1, Len(seq))

FinalAck == {"PUBACK", "PUBCOMP", "SUBACK", "UNSUBACK"}
AckKinds == FinalAck \cup {"PUBREC"}

Init ==
  [ bad     |-> "none",
    ver     |-> 5,
    role    |-> "server",
    maxSend |-> 16,        \* configured max-send
    ackSend |-> -1,        \* handshake override (server), -1 = none
    peerRM  |-> 0,         \* peer's Receive Maximum (0 = not given)
    est     |-> FALSE,     \* connection established
    noblock |-> FALSE,     \* a *_no_block send was used: C05 not asserted (statement)
    owed    |-> << >>,     \* answers the peer owes, wire order: [id, a]
    win     |-> << >>,     \* ids of QoS>0 PUBLISH awaiting their final ack (lower bound)
    q2wait  |-> {},        \* QoS 2 ids: PUBREC arrived, PUBREL not yet written
    inuse   |-> {},        \* ids of exchanges in progress on the wire
    acks    |-> << >>,     \* good acks not yet claimed by a send_done: [id, a, r]
    misack  |-> FALSE,     \* an ack did not answer the oldest owed packet
    needProto |-> FALSE,   \* a bad ack arrived on a healthy connection: protocol stop is due
    term    |-> FALSE,     \* a termination cause was injected / the connection is ending
    wrbReal |-> FALSE,     \* the back-pressure in force was signalled by the transport (not injected)
    stall   |-> FALSE,     \* the peer does not read (the transport is capped)
    allOk   |-> FALSE,     \* the scenario guarantees that no send can fail locally from here on (marker expect_all_ok)
    stops   |-> 0,
    stopProto |-> FALSE,
    wrb     |-> FALSE,
    snd     |-> << >>,     \* sender table: sequence of [s, kind, st, id]  st: live|done|dropped
    relOwed |-> 0,         \* releases/drops of receipts whose PUBREL is still due
    relIds  |-> {},        \* v5: ids whose PUBREL is due
    pubrels |-> {},        \* ids for which a PUBREL was written
    suspects |-> {},       \* identifiers refused as "in use" although the monitor has not seen them in use: judged at the
                           \* next quiescence (what is written during a command is observed at its end)
    orphans |-> 0          \* QoS 2 send futures dropped before they produced a receipt: the
                           \* library releases those publishes on its own
  ]

Healthy(m) == m.est /\ ~m.term /\ ~m.misack

Limit(m) ==
  LET base == IF m.role = "server" /\ m.ackSend > 0 THEN m.ackSend ELSE m.maxSend
  IN IF m.ver = 5
       THEN (IF m.role = "client"
               THEN Min(base, IF m.peerRM > 0 THEN m.peerRM ELSE 65535)
               ELSE (IF m.peerRM > 0 THEN Min(base, m.peerRM) ELSE base))
       ELSE base

Fail(m, why) == IF m.bad = "none" THEN [m EXCEPT !.bad = why] ELSE m

SndIdx(m, s) == IdxOf(m.snd, LAMBDA r : r.s = s)

\* which acknowledgement completes a sender of this kind
WantAck(kind) ==
  CASE kind = "q1" -> "PUBACK"
    [] kind = "stream1" -> "PUBACK"
    [] kind = "q2" -> "PUBREC"
    [] kind = "rel" -> "PUBCOMP"
    [] kind = "sub" -> "SUBACK"
    [] kind = "unsub" -> "UNSUBACK"
    [] OTHER -> "NONE"

LocalFailure(k) == k \in {"PacketIdInUse", "StreamingCancelled", "Encode", "ExpectPayload"}
\* a streamed PUBLISH may still owe payload: a streamed QoS 1 send whose future is alive, or a streamed QoS 0 send
\* that returned ok and has not been given all its bytes (an over-approximation: never a false alarm)
MayOwePayload(m) == \E k \in 1..Len(m.snd) :
                       \/ (m.snd[k].kind = "stream1" /\ m.snd[k].st = "live")
                       \/ (m.snd[k].kind = "stream0" /\ m.snd[k].owed > 0)

----------------------------------------------------------------------------
OnCfg(m, ev) ==
  CASE ev.k = "max_send" -> [m EXCEPT !.maxSend = ev.n]
    [] ev.k = "ack_max_send" -> [m EXCEPT !.ackSend = ev.n]
    [] OTHER -> m

OnIn(m, ev) ==
  CASE ev.k = "CONNECT" -> [m EXCEPT !.peerRM = ev.q]
    [] ev.k = "CONNACK" -> [m EXCEPT !.peerRM = ev.q]
    [] ev.k \in AckKinds ->
         IF ~m.est THEN m ELSE
         LET good == Len(m.owed) > 0 /\ m.owed[1].id = ev.id /\ m.owed[1].a = ev.k IN
         IF good
         THEN LET m1 == [m EXCEPT !.owed = Tail(@),
                                  !.acks = Append(@, [id |-> ev.id, a |-> ev.k, r |-> ev.r])]
                  wi == IdxOf(m.win, LAMBDA w : w = ev.id)
                  m2 == IF ev.k \in {"PUBACK", "PUBCOMP"} /\ wi > 0
                          THEN [m1 EXCEPT !.win = RemoveAt(@, wi)] ELSE m1
                  m3 == IF ev.k \in FinalAck THEN [m2 EXCEPT !.inuse = @ \ {ev.id}] ELSE m2
              IN IF ev.k = "PUBREC" THEN [m3 EXCEPT !.q2wait = @ \cup {ev.id}] ELSE m3
         ELSE \* does not answer the oldest outstanding packet
              [m EXCEPT !.misack = TRUE, !.needProto = Healthy(m)]
    [] ev.k = "DISCONNECT" -> [m EXCEPT !.term = TRUE]
    [] (ev.k \in {"PINGREQ", "SUBSCRIBE", "UNSUBSCRIBE", "PUBREL"} \/ (ev.k = "PUBLISH" /\ ev.q > 0)) /\ MayOwePayload(m) ->
         \* the peer sent something that has to be answered while a streamed PUBLISH still owes payload: the answer
         \* cannot be written inside the payload, the library ends the connection (C08 allows the abort) - the peer
         \* did more than acknowledge, the end of the connection has a cause
         [m EXCEPT !.term = TRUE]
    [] OTHER -> m

MarkBusy(m, id) == [m EXCEPT !.suspects = @ \ {id}, !.snd = [k \in 1..Len(@) |-> IF @[k].st = "live" THEN [@[k] EXCEPT !.busy = @ \cup {id}] ELSE @[k]]]
OnOut(m0, ev) ==
  LET m == IF ev.k \in {"PUBLISH", "SUBSCRIBE", "UNSUBSCRIBE"} THEN MarkBusy(m0, ev.id) ELSE m0 IN
  CASE ev.k = "CONNACK" -> [m EXCEPT !.est = (ev.r = 0)]
    [] ev.k = "PUBLISH" /\ ev.q > 0 ->
         LET m1 == [m EXCEPT !.owed = Append(@, [id |-> ev.id,
                                                  a |-> IF ev.q = 1 THEN "PUBACK" ELSE "PUBREC"]),
                             !.win = Append(@, ev.id),
                             !.inuse = @ \cup {ev.id}]
         IN IF ~Healthy(m) THEN m1
            ELSE IF ev.id = 0 THEN Fail(m1, "C06:zero-packet-id")
            ELSE IF ev.id \in m.inuse THEN Fail(m1, "C06:packet-id-reused-while-in-use")
            ELSE IF ~m.noblock /\ Len(m1.win) > Limit(m) THEN Fail(m1, "C05:window-exceeded")
            ELSE m1
    [] ev.k \in {"SUBSCRIBE", "UNSUBSCRIBE"} ->
         LET m1 == [m EXCEPT !.owed = Append(@, [id |-> ev.id,
                                  a |-> IF ev.k = "SUBSCRIBE" THEN "SUBACK" ELSE "UNSUBACK"]),
                             !.inuse = @ \cup {ev.id}]
         IN IF ~Healthy(m) THEN m1
            ELSE IF ev.id = 0 THEN Fail(m1, "C06:zero-packet-id")
            ELSE IF ev.id \in m.inuse THEN Fail(m1, "C06:packet-id-reused-while-in-use")
            ELSE m1
    [] ev.k = "PUBREL" ->
         LET m1 == [m EXCEPT !.owed = Append(@, [id |-> ev.id, a |-> "PUBCOMP"]),
                             !.q2wait = @ \ {ev.id},
                             !.pubrels = @ \cup {ev.id},
                             !.relOwed = IF @ > 0 /\ (m.ver # 5 \/ ev.id \in m.relIds) THEN @ - 1 ELSE @,
                             !.orphans = IF (m.relOwed = 0 \/ (m.ver = 5 /\ ev.id \notin m.relIds)) /\ @ > 0
                                           THEN @ - 1 ELSE @,
                             !.relIds = @ \ {ev.id}]
         IN IF ~Healthy(m) THEN m1
            ELSE IF ev.id \notin m.q2wait THEN Fail(m1, "C14:pubrel-without-pubrec-or-duplicate")
            ELSE IF m.relOwed = 0 /\ m.orphans = 0 THEN Fail(m1, "C14:pubrel-nobody-released")
            ELSE IF m.ver = 5 /\ ev.id \notin m.relIds /\ m.orphans = 0
              THEN Fail(m1, "C14:pubrel-for-wrong-id")
            ELSE m1
    [] ev.k = "DISCONNECT" -> [m EXCEPT !.term = TRUE]
    [] OTHER -> m

OnSendCall(m, ev) ==
  LET kind == IF ev.k = "chunk" THEN "chunk" ELSE ev.k
      i == SndIdx(m, ev.s)
      \* cid: identifier chosen by the caller (0 = automatic); busy: the identifiers that were in use on the wire at
      \* some moment since the call (the library may decide "in use" at the call or at a later poll, and an
      \* automatic identifier may collide with one the caller of another send chose)
      rec == [s |-> ev.s, kind |-> kind, st |-> "live", id |-> 0, cid |-> IF kind = "chunk" THEN 0 ELSE ev.id, busy |-> m.inuse,
              plen |-> ev.n, owed |-> IF kind = "stream1" THEN ev.n ELSE 0, of |-> IF kind = "chunk" THEN ev.id ELSE 0,
              cbad |-> FALSE]
      m1 == IF i = 0 THEN [m EXCEPT !.snd = Append(@, rec)] ELSE [m EXCEPT !.snd[i] = rec]
  IN IF ev.k = "q1nb" THEN [m1 EXCEPT !.noblock = TRUE] ELSE m1

\* release(s -> t): the receipt held by sender s is released through future t
OnRelease(m, ev) ==
  LET i == SndIdx(m, ev.s)
      rid == IF i > 0 THEN m.snd[i].id ELSE 0
      rec == [s |-> ev.n, kind |-> "rel", st |-> "live", id |-> rid, cid |-> 0, busy |-> {}, plen |-> 0, owed |-> 0, of |-> 0, cbad |-> FALSE]
      j == SndIdx(m, ev.n)
      m1 == IF j = 0 THEN [m EXCEPT !.snd = Append(@, rec)] ELSE [m EXCEPT !.snd[j] = rec]
  IN [m1 EXCEPT !.relOwed = @ + 1, !.relIds = IF rid > 0 THEN @ \cup {rid} ELSE @]

OnReceiptDrop(m, ev) ==
  LET i == SndIdx(m, ev.s)
      rid == IF i > 0 THEN m.snd[i].id ELSE 0
  IN [m EXCEPT !.relOwed = @ + 1, !.relIds = IF rid > 0 THEN @ \cup {rid} ELSE @]

OnSendDone(mm, ev) ==
  LET i == SndIdx(mm, ev.s) IN
  IF i = 0 THEN mm ELSE
  LET kind == mm.snd[i].kind
      want == WantAck(kind)
      \* payload accounting of streamed QoS 0 sends
      j == IF kind = "chunk" THEN SndIdx(mm, mm.snd[i].of) ELSE 0
      m == IF kind = "stream0" /\ ev.k = "ok" THEN [mm EXCEPT !.snd[i].owed = mm.snd[i].plen]
           ELSE IF kind \in {"stream0", "stream1"} /\ LocalFailure(ev.k) THEN [mm EXCEPT !.snd[i].cbad = TRUE, !.snd[i].owed = 0]
           ELSE IF kind = "chunk" /\ j > 0 /\ mm.snd[j].kind \in {"stream0", "stream1"}
             THEN [mm EXCEPT !.snd[j].owed = IF ev.k = "ok" /\ @ > mm.snd[i].plen THEN @ - mm.snd[i].plen ELSE 0,
                             !.snd[j].cbad = @ \/ ev.k # "ok"]
           ELSE mm
      \* a piece that fits what its PUBLISH still owes is refused by the encoder although nothing went wrong on that
      \* stream before (e.g. an empty piece made the handle believe the payload was complete)
      pieceRefused == kind = "chunk" /\ ev.k = "Encode" /\ j > 0 /\ mm.snd[j].kind \in {"stream0", "stream1"}
                      /\ ~mm.snd[j].cbad /\ mm.snd[j].owed > 0 /\ mm.snd[i].plen <= mm.snd[j].owed /\ Healthy(mm)
      \* a chunk beyond the declared size aborts the connection (C08 wants exactly that): a cause of its end
      m0 == [m EXCEPT !.snd[i].st = "done", !.term = @ \/ (kind = "chunk" /\ ev.k = "Encode")]
  IN
  IF pieceRefused THEN Fail(m0, "C08:payload-piece-refused-although-it-fits-the-declared-size")
  ELSE IF ev.k \in {"ok", "receipt"} THEN
     IF want = "NONE" THEN m0
     ELSE
       \* v5 results carry the packet id; a release future is bound to its receipt's id
       LET needId == IF m.ver # 5 THEN 0
                     ELSE IF kind = "rel" THEN m.snd[i].id ELSE ev.id
           ai == IdxOf(m.acks, LAMBDA a : a.a = want /\ (needId = 0 \/ a.id = needId))
       IN IF ai = 0
            THEN Fail(m0, IF kind \in {"q2", "rel"}
                           THEN "C14:completed-without-its-own-acknowledgement"
                           ELSE "C06:completed-without-matching-acknowledgement")
            ELSE LET a == m.acks[ai]
                     m1 == [m0 EXCEPT !.acks = RemoveAt(@, ai), !.snd[i].id = a.id]
                 IN IF m.ver = 5 /\ kind \in {"q1", "stream1", "q2", "sub", "unsub"} /\ ev.r # a.r
                      THEN Fail(m1, "C06:returned-contents-differ-from-acknowledgement")
                      ELSE m1
  ELSE IF m.allOk /\ Healthy(m) /\ LocalFailure(ev.k)
     THEN \* automatic identifiers, window not exceeded, nothing streamed, orderly peer: the send must go through (e.g. the
          \* identifier counter handed out an identifier twice after its wrap-around at 65535)
          Fail(m0, "C06:send-failed-locally-although-nothing-was-wrong")
  ELSE IF ev.k = "PacketIdInUse" /\ Healthy(m) /\ ev.id > 0 /\ ev.id \notin m.inuse /\ ev.id \notin m.snd[i].busy
     THEN [m0 EXCEPT !.suspects = @ \cup {ev.id}]
  ELSE IF ev.k = "ExpectPayload" /\ Healthy(m) /\ kind # "chunk" /\ ~MayOwePayload(mm)
     THEN \* refused "a streamed PUBLISH still owes payload" although no streamed send is in progress (e.g. an
          \* earlier streamed send failed locally and left the sink in streaming mode): a local failure must not
          \* make later sends fail
          Fail(m0, "C06:send-refused-although-no-payload-is-owed")
  ELSE IF ev.k = "UnexpectedRelease" /\ Healthy(m)
     THEN Fail(m0, "C14:release-refused")
  ELSE IF ev.k = "Disconnected" /\ Healthy(m) /\ kind # "chunk"
     THEN Fail(m0, "C06:send-failed-on-healthy-connection")
  ELSE m0

OnCtl(m, ev) ==
  \* (s >= 0: told by the connection's control service, i.e. real transport back-pressure; s = -1: injected through the hook)
  CASE ev.k = "wrb_on" -> [m EXCEPT !.wrb = TRUE, !.wrbReal = (ev.s >= 0)]
    [] ev.k = "wrb_off" -> [m EXCEPT !.wrb = FALSE, !.wrbReal = FALSE]
    [] ev.k \in {"stop_proto", "stop_error", "stop_peer"} ->
         LET m1 == [m EXCEPT !.stops = @ + 1, !.term = TRUE,
                             !.stopProto = @ \/ ev.k = "stop_proto",
                             !.needProto = IF ev.k = "stop_proto" THEN FALSE ELSE @]
         IN IF Healthy(m) THEN Fail(m1, "C06:connection-ended-although-peer-was-orderly") ELSE m1
    [] OTHER -> m

OnQuiet(m, ev) ==
  IF m.suspects # {} /\ Healthy(m)
    THEN \* refused as "in use" although no exchange with that identifier was outstanding on the wire at any moment
         \* between the call and the refusal (e.g. an earlier send with the same identifier failed locally and left
         \* it reserved)
         Fail([m EXCEPT !.suspects = {}], "C06:free-identifier-refused-as-in-use")
  ELSE IF m.needProto /\ ~m.stopProto
    THEN Fail(m, "C06:bad-acknowledgement-not-answered-with-protocol-error")
  ELSE IF Healthy(m) /\ m.relOwed > 0
    THEN Fail(m, "C14:release-or-drop-wrote-no-pubrel")
  ELSE m

\* settled: every runnable sender was polled and the orderly peer answered everything, to a
\* fixpoint.  ev.s = bit mask of sender futures still pending, ev.r = receipts still held
OnSettled(m, ev) ==
  IF Healthy(m) /\ ~m.wrb /\ Len(m.owed) = 0 /\ ev.s # 0
    THEN Fail(m, "C13:sender-still-blocked-at-quiescence")
  ELSE IF Healthy(m) /\ m.wrb /\ m.wrbReal /\ ~m.stall
    THEN \* the transport takes everything again, every handler of the scenario has finished and everything runnable
         \* has run, yet the sink was never told that write back-pressure is over: whoever waits on it waits for ever
         Fail(m, "C13:write-back-pressure-still-signalled-after-the-transport-drained")
  ELSE m

OnPanic(m, ev) == Fail(m, "C06:panic")

Step(m, ev) ==
  CASE ev.e = "reset"   -> [Init EXCEPT !.ver = ev.q, !.role = ev.x]
    [] ev.e = "cfg"     -> OnCfg(m, ev)
    [] ev.e = "in"      -> OnIn(m, ev)
    [] ev.e = "out"     -> OnOut(m, ev)
    [] ev.e = "connected" -> [m EXCEPT !.est = TRUE]
    [] ev.e = "send_call" -> OnSendCall(m, ev)
    [] ev.e = "send_done" -> OnSendDone(m, ev)
    [] ev.e = "send_drop" ->
         LET i == SndIdx(m, ev.s) IN
         IF i = 0 THEN m
         ELSE [m EXCEPT !.snd[i].st = "dropped",
                        !.orphans = IF m.snd[i].kind = "q2" /\ m.snd[i].st = "live" THEN @ + 1 ELSE @]
    [] ev.e = "release" -> OnRelease(m, ev)
    [] ev.e = "receipt_drop" -> OnReceiptDrop(m, ev)
    [] ev.e = "ctl"     -> OnCtl(m, ev)
    [] ev.e = "quiet"   -> OnQuiet(m, ev)
    [] ev.e = "settled" -> OnSettled(m, ev)
    [] ev.e = "cap"     -> [m EXCEPT !.stall = (ev.n >= 0)]
    [] ev.e = "mark" /\ ev.k = "expect_all_ok" -> [m EXCEPT !.allOk = TRUE]
    [] ev.e = "panic"   -> OnPanic(m, ev)
    [] ev.e \in {"peer_close", "io_err", "close", "conn_done", "stream_drop", "end"} ->
         [m EXCEPT !.term = TRUE]
    [] OTHER -> m

RECURSIVE StepAll(_, _)
StepAll(m, evs) == IF evs = << >> THEN m ELSE StepAll(Step(m, Head(evs)), Tail(evs))

Ok(m) == m.bad = "none"
=============================================================================
