------------------------------ MODULE TimerMon ------------------------------
(***************************************************************************)
(* Monitor for C20 over real (coarse) time.  The expectation for an        *)
(* arrival pattern is derived from the property statement by the scenario  *)
(* generator (bin/groups.py) and handed over as a marker, with a window    *)
(* that tolerates +-1 s of timer granularity; patterns whose verdict is    *)
(* not robust to that tolerance carry no expectation (only "no panic").    *)
(*   expect_alive          no timer may end the connection during the run  *)
(*   expect_ka  [n, r] ms  keep-alive timeout (v5: DISCONNECT 0x8D) within *)
(*   expect_read [n, r] ms read timeout within                             *)
(*   expect_drop [n, r] ms connection dropped (no CONNECT in time)         *)
(*   expect_pings n        the client wrote at least n PINGREQ             *)
(* Time is measured on the run's own clock: the number of 1 s sleeps of the *)
(* scenario that have completed (`tick` events) when the endpoint acts, not *)
(* wall-clock milliseconds - a loaded machine stretches sleeps and timers   *)
(* alike (a wall-clock window raised a false alarm on a busy machine).      *)
(* [n, r] ms windows are rounded down to whole ticks (stop at tick count k = in the interval [k s, k+1 s) of the run).                   *)
(***************************************************************************)
EXTENDS Naturals, Integers, Sequences, TLC

Init == [ bad |-> "none", ver |-> 5, expect |-> "none", lo |-> 0, hi |-> 0, cnt |-> 0,
          stopCode |-> -1, stopAt |-> -1, disc |-> -1, doneAt |-> -1, pings |-> 0, now |-> 0, ticks |-> 0,
          ended |-> FALSE ]

Fail(m, why) == IF m.bad = "none" THEN [m EXCEPT !.bad = why] ELSE m

AtEnd(m) ==
  CASE m.expect = "expect_alive" ->
         IF m.stopCode \in {1, 2} THEN Fail(m, "C20:live-connection-ended-by-a-timer") ELSE m
    [] m.expect = "expect_ka" ->
         IF m.stopCode = -1 THEN Fail(m, "C20:idle-connection-was-not-timed-out")
         ELSE IF m.stopCode # 1 THEN Fail(m, "C20:idle-connection-ended-with-another-reason-than-keep-alive-timeout")
         ELSE IF m.stopAt < m.lo \/ m.stopAt > m.hi THEN Fail(m, "C20:keep-alive-timeout-outside-the-negotiated-period")
         ELSE IF m.ver = 5 /\ m.disc # 141 THEN Fail(m, "C20:keep-alive-timeout-without-disconnect-0x8D")
         ELSE m
    [] m.expect = "expect_read" ->
         IF m.stopCode = -1 THEN Fail(m, "C20:slow-frame-was-not-timed-out")
         ELSE IF m.stopCode # 2 THEN Fail(m, "C20:slow-frame-ended-with-another-reason-than-read-timeout")
         ELSE IF m.stopAt < m.lo \/ m.stopAt > m.hi THEN Fail(m, "C20:read-timeout-outside-the-configured-period")
         ELSE m
    [] m.expect = "expect_drop" ->
         IF m.doneAt = -1 THEN Fail(m, "C20:connection-without-connect-was-not-dropped")
         ELSE IF m.doneAt < m.lo \/ m.doneAt > m.hi THEN Fail(m, "C20:connect-timeout-outside-the-configured-period")
         ELSE m
    [] m.expect = "expect_pings" ->
         IF m.pings < m.cnt THEN Fail(m, "C20:client-did-not-ping-once-per-keep-alive-period") ELSE m
    [] OTHER -> m

Step(m, ev) ==
  CASE ev.e = "reset" -> [Init EXCEPT !.ver = ev.q]
    [] m.ended -> m
    [] ev.e = "mark" /\ ev.k = "expect_pings" -> [m EXCEPT !.expect = ev.k, !.cnt = ev.n]
    [] ev.e = "mark" -> [m EXCEPT !.expect = ev.k, !.lo = ev.n \div 1000, !.hi = ev.r \div 1000]
    [] ev.e = "tick" -> [m EXCEPT !.now = ev.n, !.ticks = @ + 1]
    [] ev.e = "ctl" /\ ev.k \in {"stop_proto", "stop_error", "stop_peer"} ->
         IF m.stopCode = -1 THEN [m EXCEPT !.stopCode = ev.r, !.stopAt = m.ticks] ELSE m
    [] ev.e = "out" /\ ev.k = "DISCONNECT" -> [m EXCEPT !.disc = ev.r]
    [] ev.e = "out" /\ ev.k = "PINGREQ" -> [m EXCEPT !.pings = @ + 1]
    [] ev.e = "conn_done" -> IF m.doneAt = -1 THEN [m EXCEPT !.doneAt = m.ticks] ELSE m
    [] ev.e = "panic" -> Fail(m, "C20:panic")
    [] ev.e = "end" -> AtEnd([m EXCEPT !.ended = TRUE])
    [] OTHER -> m

Ok(m) == m.bad = "none"
=============================================================================
