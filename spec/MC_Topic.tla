------------------------------- MODULE MC_Topic -------------------------------
(***************************************************************************)
(* Table generation for C18: every string over {a, b, $, /, +, #} up to    *)
(* length L; per string its validity as filter / name; per valid filter    *)
(* the set of matching valid names.  Also checks spec-internal lemmas.     *)
(***************************************************************************)
EXTENDS Topic, Json

CONSTANT L

Alphabet == {97, 98, 36, 47, 43, 35}
Strs(n) == UNION {[1..k -> Alphabet] : k \in 1..n}
All == Strs(L)
Names == {s \in All : ValidName(s)}
Filters == {s \in All : ValidFilter(s)}

Ch(c) == CASE c = 97 -> "a" [] c = 98 -> "b" [] c = 36 -> "$" [] c = 47 -> "/" [] c = 43 -> "+" [] OTHER -> "#"
RECURSIVE Str(_)
Str(s) == IF s = << >> THEN "" ELSE Ch(Head(s)) \o Str(Tail(s))

VARIABLE done
Init == done = FALSE

Lemmas ==
  \* '#' matches every name not starting with '$'; names are matched by themselves
  /\ \A t \in Names : Matches(<<Hash>>, t) = ~Sys(t)
  /\ \A t \in Names : Matches(t, t)
  \* "x/#" matches the parent level "x"
  /\ \A t \in Names : ~Sys(t) => Matches(t \o <<Slash, Hash>>, t)

Next ==
  /\ ~done /\ done' = TRUE
  /\ Assert(Lemmas, "spec-internal lemma failed")
  /\ \A s \in All : PrintT(<<"S", Str(s), ValidFilter(s), ValidName(s)>>)
  /\ \A f \in Filters : PrintT(<<"F", Str(f), ToJson({Str(t) : t \in {t \in Names : Matches(f, t)}})>>)

Spec == Init /\ [][Next]_done
=============================================================================
