------------------------------- MODULE HsMon -------------------------------
(***************************************************************************)
(* Monitor for C19: handshake gate, version routing, and that the limits   *)
(* in force after the handshake are exactly the negotiated ones.           *)
(*                                                                         *)
(* Effective limits are computed here, from the configuration events, the  *)
(* CONNECT the peer wrote and the overrides the handshake service applied  *)
(* (all visible as cfg events), with the rules of the property statement - *)
(* never read back from the crate.                                         *)
(***************************************************************************)
EXTENDS Naturals, Integers, Sequences, FiniteSets, TLC

Min(a, b) == IF a < b THEN a ELSE b

Init ==
  [ bad |-> "none", ver |-> 5, role |-> "server",
    \* configuration (defaults of MqttServiceConfig)
    maxSend |-> 16, maxQos |-> 1, aliasMax |-> 32, maxSize |-> 0, maxReceive |-> 16,
    \* handshake overrides (-1 = none)
    ackSend |-> -1, ackQos |-> -1, ackAlias |-> -1, ackSize |-> -1, ackRM |-> -1, ackKa |-> -1,
    \* what the peer's first packet was
    first |-> "none",       \* kind of the first packet written by the peer
    level |-> 0, ka |-> 0, peerRM |-> 0, cidOk |-> TRUE,
    wellFormedConnect |-> FALSE,   \* CONNECT with a known protocol name / level / clean reserved bits
    hsStarted |-> FALSE, hsOutcome |-> "none",
    accepted |-> FALSE,     \* CONNACK with reason 0 written
    connack |-> FALSE, connackRc |-> 0,
    routed |-> 0,
    creditSeen |-> FALSE,
    probe |-> "none", probeDone |-> FALSE,
    handlersAfterRefusal |-> FALSE,
    stopProto |-> FALSE, discCode |-> -1, connDone |-> FALSE, ended |-> FALSE ]

Fail(m, why) == IF m.bad = "none" THEN [m EXCEPT !.bad = why] ELSE m

EffWindow(m) ==
  LET base == IF m.ackSend > 0 THEN m.ackSend ELSE m.maxSend IN
  IF m.ver = 5 /\ m.peerRM > 0 THEN Min(base, m.peerRM) ELSE base
EffQos(m) == IF m.ver = 5 /\ m.ackQos >= 0 THEN m.ackQos ELSE m.maxQos
EffAlias(m) == IF m.ackAlias >= 0 THEN m.ackAlias ELSE m.aliasMax
EffSize(m) == IF m.ver = 5 /\ m.ackSize >= 0 THEN m.ackSize ELSE IF m.ver = 3 /\ m.ackSize > 0 THEN m.ackSize ELSE m.maxSize
EffRM(m) == IF m.ackRM > 0 THEN m.ackRM ELSE m.maxReceive

OnCfg(m, ev) ==
  CASE ev.k = "max_send" -> [m EXCEPT !.maxSend = ev.n]
    [] ev.k = "max_qos" -> [m EXCEPT !.maxQos = ev.n]
    [] ev.k = "max_topic_alias" -> [m EXCEPT !.aliasMax = ev.n]
    [] ev.k = "max_size" -> [m EXCEPT !.maxSize = ev.n]
    [] ev.k = "max_receive" -> [m EXCEPT !.maxReceive = ev.n]
    [] ev.k = "ack_max_send" -> [m EXCEPT !.ackSend = ev.n]
    [] ev.k = "ack_max_qos" -> [m EXCEPT !.ackQos = ev.n]
    [] ev.k = "ack_topic_alias_max" -> [m EXCEPT !.ackAlias = ev.n]
    [] ev.k = "ack_max_packet_size" -> [m EXCEPT !.ackSize = ev.n]
    [] ev.k = "ack_receive_max" -> [m EXCEPT !.ackRM = ev.n]
    [] ev.k = "ack_keep_alive" -> [m EXCEPT !.ackKa = ev.n]
    [] OTHER -> m

OnIn(m, ev) ==
  IF m.first # "none" THEN m
  ELSE [m EXCEPT !.first = ev.k,
                 !.level = IF ev.k = "CONNECT" THEN ev.id ELSE 0,
                 !.ka = IF ev.k = "CONNECT" THEN ev.n ELSE 0,
                 !.peerRM = IF ev.k \in {"CONNECT", "CONNACK"} THEN ev.q ELSE 0]

OnHStart(m, ev) ==
  IF ev.k = "hs" THEN
     LET m1 == [m EXCEPT !.hsStarted = TRUE] IN
     IF m.first # "CONNECT" THEN Fail(m1, "C19:handshake-service-invoked-without-connect")
     ELSE IF ~m.wellFormedConnect THEN Fail(m1, "C19:handshake-service-invoked-for-unknown-protocol-name-or-level")
     ELSE IF ev.n # m.ka THEN Fail(m1, "C19:connect-keep-alive-not-delivered-intact")
     ELSE IF ev.x # "c" THEN Fail(m1, "C19:connect-client-id-not-delivered-intact")
     ELSE m1
  ELSE IF ~m.accepted THEN Fail(m, "C19:handler-invoked-before-handshake-was-accepted")
  ELSE IF m.probe \in {"qos", "oversize", "alias_over"} /\ ev.k = "pub" /\ ev.id = 77
    THEN Fail(m, "C19:packet-beyond-negotiated-limit-reached-a-handler")
  ELSE IF m.probe \in {"alias_at", "oversize_ok"} /\ ev.k = "pub" /\ ev.id = 77 THEN [m EXCEPT !.probeDone = TRUE]
  ELSE m

OnOut(m, ev) ==
  CASE ev.k = "CONNACK" ->
         LET m1 == [m EXCEPT !.connack = TRUE, !.connackRc = ev.r] IN
         IF m.connack THEN Fail(m1, "C19:second-connack")
         ELSE IF ~m.hsStarted THEN Fail(m1, "C19:connack-without-handshake-service")
         ELSE IF ev.r = 0 /\ m.hsOutcome # "ok" THEN Fail(m1, "C19:accepting-connack-although-handshake-did-not-accept")
         ELSE IF ev.r # 0 /\ m.hsOutcome = "ok" THEN Fail(m1, "C19:refusing-connack-although-handshake-accepted")
         ELSE IF ev.r = 0 /\ m.ver = 5 THEN
           \* announced limits (MQTT 5): q = Receive Maximum (0 = absent = 65535), id = Maximum QoS
           \* (-1 = absent = 2), s = Topic Alias Maximum, x = Maximum Packet Size (0 absent),
           \* n = Server Keep Alive (-1 absent)
           (IF (IF ev.id < 0 THEN 2 ELSE ev.id) # EffQos(m) THEN Fail(m1, "C19:connack-announces-wrong-maximum-qos")
            ELSE IF ev.s # EffAlias(m) THEN Fail(m1, "C19:connack-announces-wrong-topic-alias-maximum")
            ELSE IF (IF ev.q = 0 THEN 65535 ELSE ev.q) # EffRM(m) THEN Fail(m1, "C19:connack-announces-wrong-receive-maximum")
            ELSE IF m.ackKa > 0 /\ m.ka > m.ackKa /\ ev.n # m.ackKa THEN Fail(m1, "C19:imposed-keep-alive-not-announced")
            ELSE IF m.ackKa <= 0 /\ ev.n >= 0 THEN Fail(m1, "C19:server-keep-alive-announced-although-nothing-was-imposed")
            ELSE m1)
         ELSE m1
    [] ev.k = "DISCONNECT" -> [m EXCEPT !.discCode = ev.r]
    [] ev.k = "CONNECT" /\ m.role = "client" -> m
    [] OTHER ->
         IF ~m.accepted THEN Fail(m, "C19:packet-written-before-handshake-was-accepted") ELSE m

OnQuiet(m, ev) ==
  IF m.accepted /\ ~m.creditSeen /\ m.probe = "none" /\ ev.k = "alive"
    THEN LET m1 == [m EXCEPT !.creditSeen = TRUE] IN
         IF ev.n # EffWindow(m) THEN Fail(m1, "C19:send-window-differs-from-min-of-configured-and-peer-receive-maximum") ELSE m1
  ELSE m

OnFinal(m, ev) ==
  IF m.first = "none" \/ m.probe = "slowhs" THEN m
  ELSE IF ~m.accepted /\ ~m.connDone
    THEN Fail(m, "C19:connection-not-ended-after-failed-handshake")
  ELSE IF m.accepted /\ ~m.connack
    THEN Fail(m, "C19:accepted-handshake-without-connack")
  ELSE IF m.accepted /\ m.probe \in {"qos", "oversize", "alias_over"} /\ ~m.stopProto
    THEN Fail(m, "C19:limit-not-enforced")
  ELSE IF m.accepted /\ m.ver = 5 /\ m.probe = "qos" /\ m.discCode # 155
    THEN Fail(m, "C19:qos-above-maximum-not-refused-with-0x9B")
  ELSE IF m.accepted /\ m.ver = 5 /\ m.probe = "oversize" /\ m.discCode # 149
    THEN Fail(m, "C19:oversize-frame-not-refused-with-0x95")
  ELSE IF m.accepted /\ m.probe = "alias_at" /\ ~m.probeDone
    THEN Fail(m, "C19:alias-within-negotiated-maximum-refused")
  ELSE IF m.accepted /\ m.probe = "oversize_ok" /\ ~m.probeDone
    THEN Fail(m, "C19:packet-within-the-negotiated-size-limit-refused")
  ELSE m

Step(m, ev) ==
  CASE ev.e = "reset" -> [Init EXCEPT !.ver = ev.q, !.role = ev.x]
    [] m.ended -> m
    [] ev.e = "cfg" -> OnCfg(m, ev)
    [] ev.e = "mark" /\ ev.k = "wellformed" -> [m EXCEPT !.wellFormedConnect = (ev.n = 1)]
    [] ev.e = "mark" /\ ev.k = "level" -> [m EXCEPT !.ver = ev.n]      \* combined server: version follows CONNECT
    [] ev.e = "mark" -> [m EXCEPT !.probe = ev.k]
    [] ev.e = "in" -> OnIn(m, ev)
    [] ev.e = "route" ->
         LET m1 == [m EXCEPT !.routed = ev.n] IN
         IF (m.level = 4 /\ ev.n # 3) \/ (m.level = 5 /\ ev.n # 5) \/ m.level \notin {4, 5}
           THEN Fail(m1, "C19:connect-routed-to-the-wrong-protocol-service") ELSE m1
    [] ev.e = "h_start" -> OnHStart(m, ev)
    [] ev.e = "h_end" -> IF ~m.accepted /\ m.hsStarted /\ m.hsOutcome = "none"
                           THEN [m EXCEPT !.hsOutcome = ev.k, !.accepted = (ev.k = "ok")] ELSE m
    [] ev.e = "out" -> OnOut(m, ev)
    [] ev.e = "quiet" -> OnQuiet(m, ev)
    [] ev.e = "ctl" -> IF ev.k = "stop_proto" THEN [m EXCEPT !.stopProto = TRUE] ELSE m
    [] ev.e = "conn_done" -> [m EXCEPT !.connDone = TRUE]
    [] ev.e = "connected" -> [m EXCEPT !.accepted = TRUE, !.connack = TRUE, !.hsOutcome = "ok"]
    [] ev.e = "final" -> OnFinal(m, ev)
    [] ev.e = "panic" -> Fail(m, "C19:panic")
    [] ev.e = "end" -> [m EXCEPT !.ended = TRUE]
    [] OTHER -> m

Ok(m) == m.bad = "none"
=============================================================================
