SPECIFICATION Spec
CONSTANTS
  Ver = 5
  Cap = 1
  Kinds <- K_q1q1q1
  IdMax = 3
  MaxUses = 1
  MaxBad = 0
  UseWrb = FALSE
  UseCancel = FALSE
  CallerIds <- Ids0
  Fixed = FALSE
VIEW view
INVARIANT MonOk
INVARIANT NoLostWakeup
INVARIANT TypeOk
CHECK_DEADLOCK FALSE
