---------------------------- MODULE MC_Framing ----------------------------
(* bounded universe for Framing.tla: streams of up to 3 frames, small header and payload sizes.    *)
(* HP = variable header length of the PUBLISH frames (3 = MQTT 3.1.1 topic "a", 4 = MQTT 5 with an *)
(* empty property list), so that the abstract streams have concrete counterparts for the replay.   *)
EXTENDS Framing
CONSTANTS HP, Deep

Pk(h) == [pub |-> FALSE, h |-> h, p |-> 0]           \* h = 0: PINGREQ, h = 2: PUBACK
Pb(p) == [pub |-> TRUE, h |-> HP, p |-> p]
Pays == IF Deep THEN {0, 1, 2, 5, 8} ELSE {0, 1, 2, 5}
One == {Pk(0), Pk(2)} \cup {Pb(p) : p \in Pays}
MCFrameSeqs2 == {<<a, b>> : a \in One, b \in One}
MCFrameSeqs3 == {<<a, b, c>> : a \in {Pb(0), Pb(2), Pb(5)}, b \in {Pk(0), Pb(1), Pb(5)}, c \in {Pk(0), Pb(2)}}
MCFrameSeqs == MCFrameSeqs2 \cup MCFrameSeqs3
MCMinChunks == IF Deep THEN {0, 1, 2, 4, 8} ELSE {0, 1, 2, 4}
=============================================================================
