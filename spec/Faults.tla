------------------------------- MODULE Faults -------------------------------
(***************************************************************************)
(* Environment generator for C07 (fault enumeration): every triple         *)
(*   <<scenario, cut, cause>>  with  scenario in 1..NS, cut in 0..Len(s),  *)
(*   cause in 1..NC.  bin/groups.py maps a triple to: the first `cut`      *)
(* commands of the base scenario, then the termination cause, then the     *)
(* epilogue (release the transport, poll every send future, open every     *)
(* gate, final).  The expectation is the teardown part of ProtoMon.        *)
(***************************************************************************)
EXTENDS Naturals, Sequences, TLC, Json

CONSTANTS NS, NC, MaxCut    \* cuts beyond the length of a scenario are skipped by the decoder

VARIABLE done

Init == done = FALSE

Next == /\ ~done /\ done' = TRUE
        /\ \A s \in 1..NS : \A i \in 0..MaxCut : \A c \in 1..NC :
              PrintT(<<"REPLAY", "none", ToJson(<<s, i, c>>)>>)

ExportSpec == Init /\ [][Next]_done
=============================================================================
