------------------------------ MODULE OutConform ------------------------------
(***************************************************************************)
(* Trace validation of the recorded write-path runs against Out.tla: each   *)
(* token is executed as Do(st, token); the step is enabled only if the      *)
(* events the model emits (wire output as complete frames, the result of    *)
(* every poll, how each send ended) equal the recorded ones.                *)
(***************************************************************************)
EXTENDS MC_Out, IOUtils

Runs == ndJsonDeserialize(IOEnv.CONF)
VARIABLES l, ti
cvars == <<vars, l, ti>>
Cmp == {"out", "send_poll", "send_done", "ctl"}
P(ev) == [e |-> ev.e, k |-> ev.k, s |-> IF ev.e = "ctl" THEN 0 ELSE ev.s, id |-> ev.id, q |-> ev.q]
Map(sel) == [i \in 1..Len(sel) |-> P(sel[i])]
Proj(evs) == Map(SelectSeq(evs, LAMBDA ev : ev.e \in Cmp /\ ev.e # "out")) \o Map(SelectSeq(evs, LAMBDA ev : ev.e = "out"))
CInit == Init /\ l = 1 /\ ti = 1
Reset == st' = Init0 /\ hist' = << >> /\ pred' = << >>
StepTok == /\ l <= Len(Runs) /\ ti <= Len(Runs[l].toks)
           /\ Step(Runs[l].toks[ti].t)
           /\ Proj(pred') = Runs[l].evs[ti]
           /\ ti' = ti + 1 /\ l' = l
EndRun == /\ l <= Len(Runs) /\ ti = Len(Runs[l].toks) + 1
          /\ PrintT(<<"CONF", Runs[l].run, "ok", ti - 1>>)
          /\ Reset /\ l' = l + 1 /\ ti' = 1
Stuck == /\ l <= Len(Runs) /\ ti <= Len(Runs[l].toks)
         /\ ~ENABLED StepTok
         /\ PrintT(<<"CONF", Runs[l].run, "stuck", ti>>)
         /\ Reset /\ l' = l + 1 /\ ti' = 1
StepDbg == /\ l <= Len(Runs) /\ ti <= Len(Runs[l].toks)
           /\ Step(Runs[l].toks[ti].t)
           /\ IF Proj(pred') = Runs[l].evs[ti] THEN TRUE
              ELSE PrintT(<<"DIFF", Runs[l].run, ti, ToJson(Proj(pred')), ToJson(Runs[l].evs[ti])>>)
           /\ ti' = ti + 1 /\ l' = l
DebugSpec == CInit /\ [][StepDbg \/ EndRun]_cvars
CNext == StepTok \/ EndRun \/ Stuck
ConformSpec == CInit /\ [][CNext]_cvars
=============================================================================
