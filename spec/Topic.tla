-------------------------------- MODULE Topic --------------------------------
(***************************************************************************)
(* Reference semantics of MQTT topic filters and topic names (section 4.7  *)
(* of both MQTT 3.1.1 and MQTT 5), written from the OASIS text.  Strings   *)
(* are sequences of character codes.                                        *)
(***************************************************************************)
EXTENDS Naturals, Sequences, FiniteSets, TLC

Slash == 47   Plus == 43   Hash == 35   Dollar == 36

\* split at '/': sequence of levels (each a sequence of codes); "a//b" has an empty level
RECURSIVE SplitAcc(_, _, _)
SplitAcc(s, cur, acc) ==
  IF s = << >> THEN Append(acc, cur)
  ELSE IF Head(s) = Slash THEN SplitAcc(Tail(s), << >>, Append(acc, cur))
  ELSE SplitAcc(Tail(s), Append(cur, Head(s)), acc)
Levels(s) == SplitAcc(s, << >>, << >>)

Has(level, c) == \E i \in 1..Len(level) : level[i] = c

\* [MQTT-4.7.1-2] '#' alone in the last level; [MQTT-4.7.1-3] '+' alone in its level;
\* [MQTT-4.7.3-1] at least one character
ValidFilter(s) ==
  /\ Len(s) >= 1
  /\ LET ls == Levels(s) IN
     \A i \in 1..Len(ls) :
        /\ (Has(ls[i], Hash) => ls[i] = <<Hash>> /\ i = Len(ls))
        /\ (Has(ls[i], Plus) => ls[i] = <<Plus>>)

\* topic names must not contain wildcard characters [MQTT-4.7.1-1]
ValidName(s) == Len(s) >= 1 /\ ~Has(s, Hash) /\ ~Has(s, Plus)

Sys(level) == Len(level) >= 1 /\ level[1] = Dollar

\* level-wise matching; `first` = we are at the first level ([MQTT-4.7.2-1]: a filter starting with
\* a wildcard does not match topic names beginning with '$')
RECURSIVE M(_, _, _)
M(fl, tl, first) ==
  IF fl = << >> THEN tl = << >>
  ELSE IF Head(fl) = <<Hash>> THEN ~(first /\ tl # << >> /\ Sys(Head(tl)))
  ELSE IF tl = << >> THEN FALSE
  ELSE IF Head(fl) = <<Plus>> THEN ~(first /\ Sys(Head(tl))) /\ M(Tail(fl), Tail(tl), FALSE)
  ELSE Head(fl) = Head(tl) /\ M(Tail(fl), Tail(tl), FALSE)

Matches(f, t) == M(Levels(f), Levels(t), TRUE)

\* f covers g iff every topic name matched by g is matched by f (semantic definition, over a universe)
Covers(f, g, names) == \A t \in names : Matches(g, t) => Matches(f, t)
=============================================================================
