----------------------------- MODULE PayJudge ------------------------------
(***************************************************************************)
(* Trace judge: drives the PayMon monitor with an ndjson trace recorded   *)
(* from the real code (env TRACE).  Runs are separated by `reset` events;  *)
(* the verdict of every run is collected and printed as one JSON line      *)
(* ("JUDGE", json) when the trace is exhausted.  A violation is never a    *)
(* TLC error: the driver script reads the JSON.                            *)
(***************************************************************************)
EXTENDS Naturals, Integers, Sequences, TLC, Json, IOUtils

Rec == ndJsonDeserialize(IOEnv.TRACE)
Mon == INSTANCE PayMon

VARIABLES l, m, run, viol, nruns, badAt, fin, cmd, badCmd
vars == <<l, m, run, viol, nruns, badAt, fin, cmd, badCmd>>

Init == l = 1 /\ m = Mon!Init /\ run = -1 /\ viol = << >> /\ nruns = 0 /\ badAt = 0 /\ fin = FALSE /\ cmd = "" /\ badCmd = ""

Flush(v) == IF m.bad # "none" THEN Append(v, [run |-> run, why |-> m.bad, at |-> badAt, cmd |-> badCmd]) ELSE v

Next ==
  \/ /\ l <= Len(Rec)
     /\ LET ev == Rec[l] IN
        /\ m' = Mon!Step(m, ev)
        /\ IF ev.e = "reset"
             THEN /\ viol' = Flush(viol) /\ run' = ev.n /\ nruns' = nruns + 1 /\ badAt' = 0
                  /\ cmd' = "" /\ badCmd' = ""
             ELSE /\ UNCHANGED <<viol, run, nruns>>
                  /\ cmd' = IF ev.e = "cmd" THEN ev.k ELSE cmd
                  /\ badAt' = IF m.bad = "none" /\ m'.bad # "none" THEN l ELSE badAt
                  /\ badCmd' = IF m.bad = "none" /\ m'.bad # "none" THEN cmd' ELSE badCmd
     /\ l' = l + 1 /\ UNCHANGED fin
  \/ /\ l = Len(Rec) + 1 /\ ~fin
     /\ fin' = TRUE
     /\ PrintT(<<"JUDGE", ToJson([runs |-> nruns, events |-> Len(Rec), viol |-> Flush(viol)])>>)
     /\ UNCHANGED <<l, m, run, viol, nruns, badAt, cmd, badCmd>>

Spec == Init /\ [][Next]_vars
=============================================================================
