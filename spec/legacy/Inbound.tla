------------------------------- MODULE Inbound -------------------------------
(***************************************************************************)
(* Implementation-shaped model of the inbound side of an ntex-mqtt         *)
(* connection: the io dispatcher's response queue (src/io.rs: call_service,*)
(* handle_result, inline future + spawned tasks), the four protocol        *)
(* dispatchers (src/v3/dispatcher.rs, src/v5/dispatcher.rs,                *)
(* src/v3/client/dispatcher.rs, src/v5/client/dispatcher.rs: in-flight id  *)
(* set, duplicate handling, PUBREL, SUBSCRIBE/UNSUBSCRIBE/PINGREQ routing) *)
(* and the sequential control pipeline (BufferService + InFlightService(1))*)
(* DESIGN.md appendices C and D are the step structure transcribed here.   *)
(*                                                                         *)
(* One action per harness command; each runs the connection to quiescence. *)
(* Every action emits the events the real harness records; the monitor     *)
(* ProtoMon consumes them.                                                 *)
(***************************************************************************)
EXTENDS Naturals, Integers, Sequences, FiniteSets, TLC, Json

CONSTANTS
  Ver,        \* 3 | 5
  Role,       \* "server" | "client"
  Ids,        \* packet ids the peer uses
  MaxPkts,    \* number of packets the peer sends
  Kinds,      \* packet kinds offered: subset of {"pub0","pub1","pub2","pubrel","sub","unsub","ping"}
  Outcomes,   \* handler outcomes offered: subset of {"ok","err","nack"}
  Imm,        \* BOOLEAN: handlers may also complete inside the call (pre-armed)
  GateProto   \* BOOLEAN: protocol-control handlers are gated too

Mon == INSTANCE ProtoMon

VARIABLES
  alive,      \* the dispatcher is still processing
  ioq,        \* response queue of io.rs: Seq of [n, r]; r = Pend or a response record
  inline,     \* n of the request whose future is polled inline by the dispatcher (0 = none)
  ids,        \* in-flight id set of the protocol dispatcher
  q2rec,      \* ids of QoS 2 publishes whose PUBREC went out (exchange waits for PUBREL)
  gates,      \* open handler gates: Seq of [h, n, kind, id, q]
  ctlRun,     \* n of the control request whose handler runs (0 = none)
  ctlBuf,     \* control requests parked in the BufferService: Seq of [n, kind, id]
  nextH, narr,
  mon, hist,
  pred        \* events emitted by the last action (conformance: compared with the recorded ones); not in the VIEW

vars == <<alive, ioq, inline, ids, q2rec, gates, ctlRun, ctlBuf, nextH, narr, mon, hist, pred>>
view == <<alive, ioq, inline, ids, q2rec, gates, ctlRun, ctlBuf, nextH, narr, mon>>

E(e, k, s, id, q, r, n, x) == [e |-> e, k |-> k, s |-> s, id |-> id, q |-> q, r |-> r, n |-> n, x |-> x]
Quiet == E("quiet", "alive", 0, 0, 0, 0, 0, "")
Emit(evs) == mon' = Mon!StepAll(mon, evs) /\ pred' = evs

InitMon == Mon!StepAll(Mon!Init,
            << E("reset", Role, 0, 0, Ver, 0, 0, Role),
               IF Role = "server" THEN E("out", "CONNACK", 0, 0, 0, 0, 0, "")
                                  ELSE E("connected", "", 0, 0, 0, 0, 0, "") >>)
InitH == IF Role = "server" THEN 2 ELSE 1       \* the handshake handler was h = 1

Init ==
  /\ alive = TRUE /\ ioq = << >> /\ inline = 0 /\ ids = {} /\ q2rec = {} /\ gates = << >>
  /\ ctlRun = 0 /\ ctlBuf = << >> /\ narr = 0
  /\ nextH = InitH
  /\ mon = InitMon
  /\ hist = << >> /\ pred = << >>

\* the same as an action (trace validation starts every recorded run from here)
Reset ==
  /\ alive' = TRUE /\ ioq' = << >> /\ inline' = 0 /\ ids' = {} /\ q2rec' = {} /\ gates' = << >>
  /\ ctlRun' = 0 /\ ctlBuf' = << >> /\ narr' = 0
  /\ nextH' = InitH
  /\ mon' = InitMon
  /\ hist' = << >> /\ pred' = << >>

None == [k |-> "NONE", id |-> 0, rc |-> 0]        \* Ok(None)
Pend == [k |-> "PEND", id |-> 0, rc |-> 0]        \* ServiceResult::Pending
Resp(k, id, rc) == [k |-> k, id |-> id, rc |-> rc]
OutEv(r) == E("out", r.k, 0, r.id, 0, r.rc, 0, "")
WriteEvs(r) == IF r.k = "NONE" THEN << >> ELSE << OutEv(r) >>

ErrRec(kind) == [k |-> "ERR", id |-> IF kind = "stop_proto" THEN 1 ELSE 2, rc |-> 0]
ErrKind(r) == IF r.id = 1 THEN "stop_proto" ELSE "stop_error"

\* drain Ready entries at the front of the queue: returns <<queue', events, error kind>>
\* (an error result sets state.error; the entries behind it are still written)
RECURSIVE Drain(_, _, _)
Drain(q, evs, err) ==
  IF q = << >> \/ Head(q).r = Pend THEN <<q, evs, err>>
  ELSE IF Head(q).r.k = "ERR"
    THEN Drain(Tail(q), evs, IF err = "none" THEN ErrKind(Head(q).r) ELSE err)
  ELSE Drain(Tail(q), evs \o WriteEvs(Head(q).r), err)

\* handle_result(Ok(resp), idx of request n): returns <<queue', events, error kind>>
HandleOk(q, n, r) ==
  IF q # << >> /\ Head(q).n = n
    THEN Drain(Tail(q), WriteEvs(r), "none")
    ELSE <<[i \in 1..Len(q) |-> IF q[i].n = n THEN [n |-> n, r |-> r] ELSE q[i]], << >>, "none">>

InQ(n) == \E i \in 1..Len(ioq) : ioq[i].n = n

\* the dispatcher stops with a protocol error / application error: Control::Stop, shutdown
StopEvsAt(kind, h) == << E("ctl", kind, h, 0, 0, 0, 0, ""), E("ctl_done", "ok", h, 0, 0, 0, 0, ""),
                         E("conn_done", "ok", 0, 0, 0, 0, 0, "") >>
StopEvs(kind) == StopEvsAt(kind, nextH)
AfterErrAt(err, h) == IF err = "none" THEN << >>
                      ELSE StopEvsAt(err, h) \o (IF Ver = 5 THEN << E("out", "DISCONNECT", 0, 0, 0, IF err = "stop_proto" THEN 130 ELSE 131, 0, "") >> ELSE << >>)
DiscEv(rc) == IF Ver = 5 THEN << E("out", "DISCONNECT", 0, 0, 0, rc, 0, "") >> ELSE << >>

Stop(pre, kind, rc) ==
  /\ alive' = FALSE
  /\ Emit(pre \o StopEvs(kind) \o DiscEv(rc) \o <<Quiet>>)
  /\ UNCHANGED <<ioq, inline, ids, q2rec, gates, ctlRun, ctlBuf>>
  /\ nextH' = nextH + 1

\* events of a stop caused by an error result that surfaced while draining the queue
AfterErr(err) == IF err = "none" THEN << >>
                 ELSE StopEvs(err) \o DiscEv(IF err = "stop_proto" THEN 130 ELSE 131)

----------------------------------------------------------------------------
\* response of a completed publish handler
PubResp(q, id, outcome, code) ==
  IF q = 0 THEN None
  ELSE IF Role = "client"
    THEN Resp(IF q = 2 THEN "PUBREC" ELSE "PUBACK", id, IF outcome = "nack" THEN code ELSE 0)
  ELSE Resp(IF q = 2 THEN "PUBREC" ELSE "PUBACK", id, IF outcome = "nack" THEN code ELSE 0)

CtlRespOf(kind, id) ==
  CASE kind = "pubrel" -> Resp("PUBCOMP", id, 0)
    [] kind = "sub" -> Resp("SUBACK", id, IF Ver = 5 THEN 1 ELSE 1)
    [] kind = "unsub" -> Resp("UNSUBACK", id, 0)
    [] OTHER -> Resp("PINGRESP", 0, 0)

HName(kind) == CASE kind \in {"pub0", "pub1", "pub2"} -> "pub" [] OTHER -> kind

\* a request whose future is pending enters the queue (inline if nothing else is inline)
Enqueue(n) ==
  /\ ioq' = Append(ioq, [n |-> n, r |-> Pend])
  /\ inline' = IF inline = 0 THEN n ELSE inline

\* a request whose result is ready inside the call (alive' and nextH' are set here)
Immediate(n, r, pre, hUsed) ==
  IF inline # 0
    THEN \* spawned task: pushed as pending, completes right away through handle_result
         LET h == HandleOk(Append(ioq, [n |-> n, r |-> Pend]), n, r) IN
         /\ ioq' = h[1] /\ UNCHANGED inline
         /\ alive' = (h[3] = "none")
         /\ nextH' = nextH + hUsed + (IF h[3] = "none" THEN 0 ELSE 1)
         /\ Emit(pre \o h[2] \o AfterErrAt(h[3], nextH + hUsed) \o <<Quiet>>)
    ELSE IF ioq = << >>
      THEN /\ UNCHANGED <<ioq, inline>> /\ alive' = TRUE /\ nextH' = nextH + hUsed
           /\ Emit(pre \o WriteEvs(r) \o <<Quiet>>)
      ELSE /\ ioq' = Append(ioq, [n |-> n, r |-> r]) /\ UNCHANGED inline
           /\ alive' = TRUE /\ nextH' = nextH + hUsed
           /\ Emit(pre \o <<Quiet>>)

\* a request whose result is an error inside the call: protocol violation or handler failure
ImmediateErr(n, kind, rc, pre, hUsed) ==
  IF inline # 0 \/ ioq = << >>
    THEN \* state.error is set at once: the dispatcher stops
         /\ alive' = FALSE /\ nextH' = nextH + hUsed + 1
         /\ UNCHANGED <<ioq, inline>>
         /\ Emit(pre \o StopEvsAt(kind, nextH + hUsed) \o DiscEv(rc) \o <<Quiet>>)
    ELSE \* the error waits in the ordered queue behind the pending responses
         /\ ioq' = Append(ioq, [n |-> n, r |-> ErrRec(kind)]) /\ UNCHANGED inline
         /\ alive' = TRUE /\ nextH' = nextH + hUsed
         /\ Emit(pre \o <<Quiet>>)

----------------------------------------------------------------------------
\* In(kind, id, imm, outcome): the peer writes one packet.  Every branch defines
\* alive', nextH', ioq', inline', ids', q2rec', gates', ctlRun', ctlBuf', mon'.
InPub(q, id, imm, outcome) ==
  LET n == narr + 1
      inEv == E("in", "PUBLISH", 0, id, q, 0, 1, "t")
      h == nextH
      hs == E("h_start", "pub", h, id, q, 0, 1, "t")
      code == 135
      he == E("h_end", outcome, h, 0, 0, code, 0, "")
      fails == outcome = "err" \/ (outcome = "nack" /\ (Ver = 3 \/ q = 0 \/ Role = "client"))
  IN
  /\ narr' = n
  /\ IF q > 0 /\ id \in ids
       THEN \* duplicate identifier
            IF Ver = 3
              THEN /\ ImmediateErr(n, "stop_proto", 130, <<inEv>>, 0)
                   /\ UNCHANGED <<ids, q2rec, gates, ctlRun, ctlBuf>>
              ELSE \* v5: PUBACK 0x91 written at once through the sink; the request yields None
                   /\ Immediate(n, None, <<inEv, E("out", "PUBACK", 0, id, 0, 145, 0, "")>>, 0)
                   /\ UNCHANGED <<ids, q2rec, gates, ctlRun, ctlBuf>>
       ELSE
         IF imm
           THEN \* the handler completes inside the call
                IF fails
                  THEN /\ ImmediateErr(n, "stop_error", 131, <<inEv, hs, he>>, 1)
                       /\ ids' = IF q > 0 THEN ids \cup {id} ELSE ids
                       /\ UNCHANGED <<q2rec, gates, ctlRun, ctlBuf>>
                  ELSE /\ Immediate(n, PubResp(q, id, outcome, code), <<inEv, hs, he>>, 1)
                       /\ ids' = IF q = 2 /\ outcome = "ok" THEN ids \cup {id} ELSE ids
                       /\ q2rec' = IF q = 2 /\ outcome = "ok" THEN q2rec \cup {id} ELSE q2rec
                       /\ UNCHANGED <<gates, ctlRun, ctlBuf>>
           ELSE /\ nextH' = h + 1 /\ alive' = TRUE
                /\ gates' = Append(gates, [h |-> h, n |-> n, kind |-> "pub", id |-> id, q |-> q])
                /\ ids' = IF q > 0 THEN ids \cup {id} ELSE ids
                /\ Enqueue(n)
                /\ Emit(<<inEv, hs, Quiet>>)
                /\ UNCHANGED <<q2rec, ctlRun, ctlBuf>>

\* a protocol-control request (pubrel / sub / unsub / ping) reaches the control pipeline
CtlArrive(n, kind, id, inEv) ==
  IF ~GateProto
    THEN \* the handler answers inside the call
         LET h == nextH
             hs == E("h_start", kind, h, IF Ver = 5 /\ kind # "ping" THEN id ELSE 0, 0, 0, 0, "")
             he == E("h_end", "ok", h, 0, 0, 128, 0, "")
         IN /\ Immediate(n, CtlRespOf(kind, id), <<inEv, hs, he>>, 1)
            /\ ids' = IF kind = "pubrel" THEN ids \ {id} ELSE ids
            /\ q2rec' = IF kind = "pubrel" THEN q2rec \ {id} ELSE q2rec
            /\ UNCHANGED <<gates, ctlRun, ctlBuf>>
    ELSE IF ctlRun = 0 \/ Role = "client"      \* (the client's control service is not sequential)
      THEN LET h == nextH IN
           /\ nextH' = h + 1 /\ ctlRun' = n /\ alive' = TRUE
           /\ gates' = Append(gates, [h |-> h, n |-> n, kind |-> kind, id |-> id, q |-> 0])
           /\ Enqueue(n)
           /\ ids' = IF kind \in {"sub", "unsub"} THEN ids \cup {id} ELSE ids
           /\ q2rec' = IF kind = "pubrel" THEN q2rec \ {id} ELSE q2rec
           /\ Emit(<<inEv, E("h_start", kind, h, IF Ver = 5 /\ kind # "ping" THEN id ELSE 0, 0, 0, 0, ""), Quiet>>)
           /\ UNCHANGED ctlBuf
      ELSE /\ ctlBuf' = Append(ctlBuf, [n |-> n, kind |-> kind, id |-> id])
           /\ Enqueue(n) /\ alive' = TRUE
           /\ ids' = IF kind \in {"sub", "unsub"} THEN ids \cup {id} ELSE ids
           /\ q2rec' = IF kind = "pubrel" THEN q2rec \ {id} ELSE q2rec
           /\ Emit(<<inEv, Quiet>>)
           /\ UNCHANGED <<gates, ctlRun, nextH>>

InOther(kind, id) ==
  LET n == narr + 1
      name == CASE kind = "pubrel" -> "PUBREL" [] kind = "sub" -> "SUBSCRIBE"
                [] kind = "unsub" -> "UNSUBSCRIBE" [] OTHER -> "PINGREQ"
      pid == IF kind = "ping" THEN 0 ELSE id
      inEv == E("in", name, 0, pid, 0, 0, 0, "")
      Viol == /\ ImmediateErr(n, "stop_proto", 130, <<inEv>>, 0)
              /\ UNCHANGED <<ids, q2rec, gates, ctlRun, ctlBuf>>
  IN
  /\ narr' = n
  /\ CASE kind = "pubrel" ->
            IF id \in q2rec
              THEN CtlArrive(n, kind, id, inEv)
              ELSE IF Ver = 3 THEN Viol
                ELSE /\ Immediate(n, Resp("PUBCOMP", id, 146), <<inEv>>, 0)
                     /\ UNCHANGED <<ids, q2rec, gates, ctlRun, ctlBuf>>
       [] kind \in {"sub", "unsub"} ->
            IF Role = "client" THEN Viol
            ELSE IF id \in ids
              THEN IF Ver = 3 THEN Viol
                   ELSE /\ Immediate(n, None, <<inEv, E("out", IF kind = "sub" THEN "SUBACK" ELSE "UNSUBACK", 0, id, 0, 145, 0, "")>>, 0)
                        /\ UNCHANGED <<ids, q2rec, gates, ctlRun, ctlBuf>>
              ELSE CtlArrive(n, kind, id, inEv)
       [] OTHER ->
            IF Role = "client" THEN Viol ELSE CtlArrive(n, kind, id, inEv)

In(kind, id, imm, outcome) ==
  /\ alive /\ narr < MaxPkts /\ kind \in Kinds
  /\ CASE kind = "pub0" -> InPub(0, 0, imm, outcome) /\ id = CHOOSE i \in Ids : TRUE
       [] kind = "pub1" -> InPub(1, id, imm, outcome)
       [] kind = "pub2" -> InPub(2, id, imm, outcome)
       [] OTHER -> InOther(kind, id) /\ imm = FALSE /\ outcome = "ok"
  /\ hist' = Append(hist, "i" \o kind \o ":" \o ToString(id) \o ":" \o (IF imm THEN outcome ELSE "g"))

----------------------------------------------------------------------------
\* Complete(gi, outcome): the application's handler behind gate gi finishes
Complete(gi, outcome) ==
  /\ alive /\ gi \in 1..Len(gates)
  /\ LET g == gates[gi]
         rest == SubSeq(gates, 1, gi - 1) \o SubSeq(gates, gi + 1, Len(gates))
         code == 135
         he == E("h_end", outcome, g.h, 0, 0, code, 0, "")
         fails == IF g.kind = "pub"
                    THEN outcome = "err" \/ (outcome = "nack" /\ (Ver = 3 \/ g.q = 0 \/ Role = "client"))
                    ELSE outcome # "ok"
     IN
     IF fails
       THEN \* handler failure: handle_result(Err) sets state.error -> Control::Stop(Error); when the failed
            \* request is the oldest one, the responses that were ready behind it are still written
            LET h == IF ioq # << >> /\ Head(ioq).n = g.n THEN Drain(Tail(ioq), << >>, "stop_error")
                                                          ELSE <<ioq, << >>, "stop_error">> IN
            /\ alive' = FALSE /\ gates' = rest /\ nextH' = nextH + 1 /\ ioq' = h[1]
            /\ Emit(<<he>> \o h[2] \o StopEvs(h[3]) \o DiscEv(IF h[3] = "stop_proto" THEN 130 ELSE 131) \o <<Quiet>>)
            /\ UNCHANGED <<inline, ids, q2rec, ctlRun, ctlBuf>>
     ELSE IF g.kind = "pub"
       THEN LET r == PubResp(g.q, g.id, outcome, code)
                h == HandleOk(ioq, g.n, r) IN
            /\ gates' = rest /\ ioq' = h[1]
            /\ inline' = IF inline = g.n THEN 0 ELSE inline
            /\ ids' = IF g.q = 1 \/ (g.q = 2 /\ outcome = "nack") THEN ids \ {g.id} ELSE ids
            /\ q2rec' = IF g.q = 2 /\ outcome = "ok" THEN q2rec \cup {g.id} ELSE q2rec
            /\ alive' = (h[3] = "none")
            /\ nextH' = IF h[3] = "none" THEN nextH ELSE nextH + 1
            /\ Emit(<<he>> \o h[2] \o AfterErrAt(h[3], nextH) \o <<Quiet>>)
            /\ UNCHANGED <<ctlRun, ctlBuf>>
     ELSE \* protocol-control handler (sequential pipeline on the server)
            LET r == CtlRespOf(g.kind, g.id)
                h == HandleOk(ioq, g.n, r)
                stop == h[3] # "none"
            IN
            /\ ioq' = h[1]
            /\ inline' = IF inline = g.n THEN 0 ELSE inline
            /\ ids' = IF g.kind \in {"sub", "unsub", "pubrel"} THEN ids \ {g.id} ELSE ids
            /\ UNCHANGED q2rec
            /\ alive' = ~stop
            /\ IF stop \/ ctlBuf = << >> \/ ctlRun # g.n
                 THEN /\ ctlRun' = (IF ctlRun = g.n THEN 0 ELSE ctlRun) /\ gates' = rest
                      /\ UNCHANGED ctlBuf
                      /\ nextH' = IF stop THEN nextH + 1 ELSE nextH
                      /\ Emit(<<he>> \o h[2] \o AfterErrAt(h[3], nextH) \o <<Quiet>>)
                 ELSE \* the next parked control request is released and its handler starts
                      LET nx == Head(ctlBuf) IN
                      /\ ctlRun' = nx.n /\ ctlBuf' = Tail(ctlBuf) /\ nextH' = nextH + 1
                      /\ gates' = Append(rest, [h |-> nextH, n |-> nx.n, kind |-> nx.kind, id |-> nx.id, q |-> 0])
                      /\ Emit(<<he>> \o h[2] \o
                                  <<E("h_start", nx.kind, nextH, IF Ver = 5 /\ nx.kind # "ping" THEN nx.id ELSE 0, 0, 0, 0, ""), Quiet>>)
  /\ UNCHANGED narr
  /\ hist' = Append(hist, "c" \o ToString(gates[gi].h) \o ":" \o outcome)

Next ==
  \/ \E kind \in Kinds, id \in Ids, imm \in (IF Imm THEN BOOLEAN ELSE {FALSE}), o \in Outcomes :
        In(kind, id, imm, o)
  \/ \E gi \in 1..Len(gates), o \in Outcomes : Complete(gi, o)

Spec == Init /\ [][Next]_vars

MonOk == Mon!Ok(mon)
TypeOk == /\ inline = 0 \/ InQ(inline)
          /\ \A i \in 1..Len(gates) : InQ(gates[i].n)

ExportNext == mon.bad = "none" /\ Next /\ PrintT(<<"REPLAY", mon'.bad, ToJson(hist')>>)
ExportSpec == Init /\ [][ExportNext]_vars
=============================================================================
