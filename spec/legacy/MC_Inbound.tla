----------------------------- MODULE MC_Inbound -----------------------------
EXTENDS Inbound
Ids12 == {1, 2}
Ids1 == {1}
KPub == {"pub0", "pub1", "pub2", "pubrel"}
KPub12 == {"pub1", "pub2", "pubrel"}
KAll == {"pub1", "pub2", "pubrel", "sub", "unsub", "ping"}
KCtl == {"pub1", "sub", "unsub", "ping"}
KPub01 == {"pub0", "pub1"}
KPub1 == {"pub1"}
KPub2 == {"pub2"}
KIds == {"pub1", "pub2", "pubrel", "sub"}
OOk == {"ok"}
OAll == {"ok", "err", "nack"}
ONack == {"ok", "nack"}
=============================================================================
