------------------------------- MODULE PktSeq -------------------------------
(***************************************************************************)
(* Environment generator for C16: every sequence of at most MaxLen packet  *)
(* templates out of NT, each template an index into the table that         *)
(* bin/groups.py maps to well-formed packet descriptors per version and    *)
(* role.  The expectation for every sequence is the monitor ProtoMon       *)
(* (no panic, no hang: each packet processed or the connection ends with a *)
(* protocol error); this module only enumerates the peer's choices.        *)
(***************************************************************************)
EXTENDS Naturals, Sequences, TLC, Json

CONSTANTS NT, MaxLen, MinLen

VARIABLE seq

Init == seq = << >>

Next == /\ Len(seq) < MaxLen
        /\ \E t \in 1..NT : seq' = Append(seq, t)
        /\ (Len(seq') >= MinLen => PrintT(<<"REPLAY", "none", ToJson(seq')>>))

ExportSpec == Init /\ [][Next]_seq
=============================================================================
