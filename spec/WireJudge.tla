------------------------------ MODULE WireJudge ------------------------------
(***************************************************************************)
(* impl -> spec direction of the wire group (C01, C02, C09, C10): every    *)
(* line is one vector together with what the real codec did with it;       *)
(* TLC re-evaluates the reference semantics (Wire5 / Wire3) on the vector  *)
(* and decides whether the real outcome is one the reference allows.       *)
(*                                                                         *)
(*   enc    abstract packet -> bytes (optionally under an outbound limit / *)
(*          after a CONNECT declining problem information)                 *)
(*   dec    byte stream (segments: header bytes + virtual payload) under a *)
(*          given fragmentation -> items (packet / publish / chunk) + end  *)
(*   sniff  first bytes of a connection -> protocol version                *)
(***************************************************************************)
EXTENDS Bytes, Json, IOUtils

IdOrd(ps) == ps
W5 == INSTANCE Wire5 WITH Ord <- IdOrd, CutAt <- -1, Extra <- << >>
W3 == INSTANCE Wire3

Rec == ndJsonDeserialize(IOEnv.TRACE)

EncOf(ver, p) == IF ver = 5 THEN W5!Enc(p) ELSE W3!Enc(p)
DecV(ver, b, max, virt) == IF ver = 5 THEN W5!DecV(b, max, virt) ELSE W3!DecV(b, max, virt)
Must(ver, why) == IF ver = 5 THEN W5!Must(why) ELSE W3!Must(why)

\* ---------------------------------------------------------------- enc
HasDiag(p) == "rs" \in DOMAIN p
NoDiag(p) == IF HasDiag(p) THEN [p EXCEPT !.rs = << >>, !.up = << >>] ELSE p
RECURSIVE IsSubSeqOf(_, _)
IsSubSeqOf(a, b) ==
  IF a = << >> THEN TRUE
  ELSE IF b = << >> THEN FALSE
  ELSE IF Head(a) = Head(b) THEN IsSubSeqOf(Tail(a), Tail(b)) ELSE IsSubSeqOf(a, Tail(b))
\* The statement does not say how tight the fit has to be: the library may reserve worst-case room for
\* the two length fields it has not written yet (Remaining Length and property length, up to 4 bytes
\* each) and it never uses the short forms of the acknowledgements.  A packet whose reference
\* encoding is at least Slack bytes below the limit has to go out whole (16: twice the worst case).
Slack == 16
AckSix == {"PUBACK", "PUBREC", "PUBREL", "PUBCOMP", "SUBACK", "UNSUBACK"}

JudgeEnc(v, r) ==
  LET pr == IF v.lim > 0 \/ v.rpi = 0 THEN "C09" ELSE "C01"
      p == v.p IN
  IF r.panic # "" THEN pr \o ":encoder-panicked"
  ELSE IF r.echo # p THEN "TOOL:harness-echo-differs"
  ELSE IF v.bad = 1 THEN
    \* a value the protocol cannot express (QoS 0 with a packet identifier): the encoder may refuse it,
    \* but a refusal leaves the buffer as it was
    (IF r.ok = 0 /\ r.grew # 0 THEN "C09:failed-encode-left-bytes-behind"
     ELSE IF r.ok = 1 /\ r.pre_ok = 0 THEN "C09:encode-disturbed-bytes-already-in-the-buffer" ELSE "ok")
  ELSE IF r.ok = 0 THEN
    (IF r.grew # 0 THEN pr \o ":failed-encode-left-bytes-behind"
     ELSE IF v.lim = 0 THEN "C01:representable-packet-not-encoded"
     ELSE IF Len(EncOf(v.ver, NoDiag(p))) + v.pay + Slack <= v.lim THEN "C09:encode-failed-although-the-packet-fits-the-limit"
     ELSE IF r.err # "OverMaxPacketSize" THEN "C09:oversize-packet-failed-with-another-error"
     ELSE "ok")
  ELSE
    LET D == DecV(v.ver, r.b, 0, v.pay) IN
    IF r.pre_ok = 0 THEN pr \o ":encode-disturbed-bytes-already-in-the-buffer"
    ELSE IF D.c # "OK" THEN pr \o ":encoded-bytes-rejected-by-the-reference-decoder"
    ELSE IF D.used # r.len THEN pr \o ":remaining-length-differs-from-the-bytes-that-follow"
    ELSE IF r.pay_ok = 0 THEN pr \o ":payload-bytes-altered"
    ELSE IF v.lim > 0 /\ r.len > v.lim THEN "C09:frame-exceeds-the-outbound-limit"
    ELSE LET q == D.p IN
      IF v.lim = 0 /\ v.rpi = 1 THEN
        (IF q # p THEN "C01:encoded-bytes-decode-to-different-fields"
         ELSE IF r.rt # p \/ r.rt_left # 0 \/ r.rt_err # "" THEN "C01:library-round-trip-differs"
         ELSE IF p.t = "PUBLISH" /\ (r.rt_n # v.pay \/ r.rt_eof # 1) THEN "C01:round-trip-payload-size-differs"
         ELSE "ok")
      ELSE
        (IF NoDiag(q) # NoDiag(p) THEN "C09:shortening-changed-a-field-other-than-reason-string-and-user-properties"
         ELSE IF HasDiag(p) /\ ~(q.rs = p.rs \/ q.rs = << >>) THEN "C09:reason-string-truncated"
         ELSE IF HasDiag(p) /\ ~IsSubSeqOf(q.up, p.up) THEN "C09:user-property-truncated"
         ELSE IF v.rpi = 0 /\ p.t \in AckSix /\ (q.rs # << >> \/ q.up # << >>)
           THEN "C09:acknowledgement-carries-diagnostics-although-problem-information-was-declined"
         ELSE IF v.rpi = 1 /\ Len(EncOf(v.ver, p)) + v.pay + Slack <= v.lim /\ q # p
           THEN "C09:diagnostics-dropped-although-the-packet-fits-the-limit"
         ELSE "ok")

\* ---------------------------------------------------------------- dec
\* expected byte of segment s at 1-based index idx (header bytes, then the virtual payload pattern)
ExpByte(s, idx) == IF idx <= Len(s.b) THEN s.b[idx] ELSE (idx - Len(s.b) - 1) % 251
PieceOk(s, it, start) ==      \* piece `it` carries the bytes of s at start .. start + n - 1
  IF it.has_bytes = 1 THEN Len(it.bytes) = it.n /\ \A j \in 1..it.n : it.bytes[j] = ExpByte(s, start + j - 1)
  ELSE IF start > Len(s.b) THEN it.h = PatSum(start - Len(s.b) - 1, it.n)
  ELSE TRUE

FrameLen(rest) ==  \* extent of the frame at the front of rest from its fixed header; 0 = unknown
  IF Len(rest) < 2 THEN 0
  ELSE LET rl == RdVar(rest, 2, Len(rest) + 1) IN IF rl.ok THEN rl.i - 1 + rl.v ELSE 0

\* what the library re-encodes from an accepted value must mean the same to the reference decoder
\* (values the reference rejects for a reason the statement leaves open are not judged)
ReOk(ver, it) ==
  it.has_re = 0 \/ LET D == DecV(ver, it.re, 0, IF it.k = "pub" THEN it.p.psize ELSE 0) IN
                    IF D.c = "OK" THEN D.p = it.p ELSE D.c = "ERR" /\ ~Must(ver, D.why)

\* payload pieces of one PUBLISH: returns [why, it, got]; avail = payload bytes present in the input.
\* A left fold over the items that follow (evaluated iteratively), which stops changing at the first
\* item that is not a chunk or once the payload is complete.
Pieces(v, r, s, pstart, psize, avail, it, got) ==
  LET Step(st, x) ==
        IF st.done THEN st
        ELSE IF st.got = psize \/ x.k # "chunk" THEN [st EXCEPT !.done = TRUE]
        ELSE IF st.got + x.n > psize \/ st.got + x.n > avail THEN [st EXCEPT !.done = TRUE, !.why = ":payload-piece-runs-past-the-declared-size"]
        ELSE IF (x.eof = 1) # (st.got + x.n = psize) THEN [st EXCEPT !.done = TRUE, !.why = ":final-piece-flag-wrong"]
        ELSE IF x.eof = 0 /\ x.n > 0 /\ x.n < v.minc THEN [st EXCEPT !.done = TRUE, !.why = ":non-final-piece-smaller-than-the-minimum-chunk-size"]
        ELSE IF ~PieceOk(s, x, pstart + st.got) THEN [st EXCEPT !.done = TRUE, !.why = ":payload-bytes-differ"]
        ELSE [st EXCEPT !.it = @ + 1, !.got = @ + x.n]
  IN FoldLeft(Step, [why |-> "ok", it |-> it, got |-> got, done |-> FALSE], SubSeq(r.items, it, Len(r.items)))

RECURSIVE Walk(_, _, _, _, _, _)
Walk(v, r, k, off, base, it) ==
  LET pr == v.prop
      N == Len(r.items) IN
  IF k > Len(v.segs) THEN
    (IF it <= N THEN pr \o ":item-reported-beyond-the-input"
     ELSE IF r.end # "MORE" THEN (IF v.legal = 1 THEN pr \o ":error-after-valid-input" ELSE "C02:error-after-all-frames-were-consumed")
     ELSE IF r.left # 0 THEN pr \o ":bytes-left-unconsumed" ELSE "ok")
  ELSE LET s == v.segs[k]
           rest == SubSeq(s.b, off + 1, Len(s.b)) IN
  IF rest = << >> THEN Walk(v, r, k + 1, 0, base + Len(s.b) + s.pay, it)
  ELSE LET D == DecV(v.ver, rest, v.max, s.pay)
           start == base + off IN
  CASE D.c = "OK" ->
        LET nk == IF off + D.used >= Len(s.b) + s.pay THEN k + 1 ELSE k
            noff == IF nk = k THEN off + D.used ELSE 0
            nbase == IF nk = k THEN base ELSE base + Len(s.b) + s.pay IN
        IF it > N THEN
          (IF r.end = "ERR" THEN (IF v.legal = 1 THEN pr \o ":valid-packet-rejected" ELSE "ok")
           ELSE pr \o ":complete-frame-not-reported")
        ELSE LET x == r.items[it] IN
        IF D.p.t # "PUBLISH" THEN
          (IF x.k # "pkt" THEN pr \o ":wrong-kind-of-item-for-frame"
           ELSE IF x.p # D.p THEN pr \o ":decoded-fields-differ-from-the-reference"
           ELSE IF x.pos # start + D.used THEN pr \o ":consumed-bytes-differ-from-the-frame-length"
           ELSE IF x.size # D.rl THEN pr \o ":reported-size-differs-from-remaining-length"
           ELSE IF x.st # "ok" THEN "C02:accepted-packet-is-not-stable-under-re-encoding"
           ELSE IF ~ReOk(v.ver, x) THEN "C01:re-encoded-bytes-decode-to-different-fields"
           ELSE Walk(v, r, nk, noff, nbase, it + 1))
        ELSE
          (IF x.k # "pub" THEN pr \o ":wrong-kind-of-item-for-frame"
           ELSE IF x.p # D.p THEN pr \o ":decoded-fields-differ-from-the-reference"
           ELSE IF x.size # D.rl THEN pr \o ":reported-size-differs-from-remaining-length"
           ELSE IF x.n > D.p.psize THEN pr \o ":payload-piece-runs-past-the-declared-size"
           ELSE IF x.pos # start + D.payloadAt - 1 + x.n THEN pr \o ":consumed-bytes-differ-from-header-plus-piece"
           ELSE IF x.n < D.p.psize /\ x.n > 0 /\ x.n < v.minc THEN "C10:non-final-piece-smaller-than-the-minimum-chunk-size"
           ELSE IF ~PieceOk(s, x, off + D.payloadAt) THEN pr \o ":payload-bytes-differ"
           ELSE IF x.st # "ok" THEN "C02:accepted-packet-is-not-stable-under-re-encoding"
           ELSE IF ~ReOk(v.ver, x) THEN "C01:re-encoded-bytes-decode-to-different-fields"
           ELSE LET P == Pieces(v, r, s, off + D.payloadAt, D.p.psize, D.p.psize, it + 1, x.n) IN
                IF P.why # "ok" THEN "C10" \o P.why
                ELSE IF P.got # D.p.psize THEN
                  (IF P.it <= N THEN pr \o ":packet-reported-inside-a-payload"
                   ELSE IF r.end = "MORE" THEN "C10:payload-pieces-missing-although-all-bytes-were-delivered"
                   ELSE pr \o ":error-inside-a-payload")
                ELSE Walk(v, r, nk, noff, nbase, P.it))
    [] D.c = "ERR" ->
        IF Must(v.ver, D.why) THEN
          (IF it <= N THEN "C02:malformed-frame-accepted:" \o D.why
           ELSE IF r.end # "ERR" THEN "C02:malformed-frame-not-rejected:" \o D.why
           ELSE "ok")
        ELSE IF it > N THEN
          (IF r.end = "ERR" THEN "ok" ELSE "C02:complete-frame-left-unclassified")
        ELSE LET x == r.items[it] IN
          IF x.k = "pkt" /\ FrameLen(rest) > 0 /\ x.pos # start + FrameLen(rest) THEN "C02:consumed-bytes-differ-from-the-frame-length"
          ELSE IF x.k # "chunk" /\ x.st # "ok" THEN "C02:accepted-packet-is-not-stable-under-re-encoding"
          ELSE IF x.k # "chunk" /\ ~ReOk(v.ver, x) THEN "C01:re-encoded-bytes-decode-to-different-fields"
          ELSE "ok"
    [] OTHER ->   \* MORE: the input ends inside this frame
        LET isPub == rest[1] \div 16 = 3 /\ "need" \in DOMAIN D
            DH == IF isPub THEN DecV(v.ver, rest, v.max, D.need - Len(rest)) ELSE D IN
        IF isPub /\ DH.c = "OK" /\ DH.payloadAt <= Len(rest) + 1 THEN
          \* header complete: pieces of the part of the payload that arrived may be reported
          (IF it > N THEN (IF r.end = "MORE" THEN "ok" ELSE IF v.legal = 1 THEN pr \o ":valid-prefix-rejected" ELSE "ok")
           ELSE LET x == r.items[it]
                    avail == Len(rest) + s.pay - (DH.payloadAt - 1) IN
             IF x.k # "pub" THEN pr \o ":wrong-kind-of-item-for-frame"
             ELSE IF x.p # DH.p THEN pr \o ":decoded-fields-differ-from-the-reference"
             ELSE IF x.n > avail THEN pr \o ":payload-piece-runs-past-the-input"
             ELSE IF x.n > 0 /\ x.n < v.minc THEN "C10:non-final-piece-smaller-than-the-minimum-chunk-size"
             ELSE IF ~PieceOk(s, x, off + DH.payloadAt) THEN pr \o ":payload-bytes-differ"
             ELSE LET P == Pieces(v, r, s, off + DH.payloadAt, DH.p.psize, avail, it + 1, x.n) IN
                  IF P.why # "ok" THEN "C10" \o P.why
                  ELSE IF P.it <= N THEN pr \o ":packet-reported-inside-a-payload"
                  ELSE IF r.end # "MORE" THEN pr \o ":error-inside-a-payload"
                  ELSE IF r.left # avail - P.got THEN pr \o ":payload-bytes-lost-or-duplicated"
                  ELSE "ok")
        ELSE IF it <= N THEN pr \o ":item-reported-for-an-incomplete-frame"
        ELSE IF r.end = "MORE" THEN "ok"
        ELSE IF v.legal = 1 THEN pr \o ":valid-prefix-rejected"
        ELSE "ok"

\* what the delivery produced, without how it was cut into pieces: the packets in order, each with
\* the number of payload bytes delivered for it
SigStep(acc, x) ==
  IF x.k = "chunk" THEN (IF acc = << >> THEN acc ELSE [acc EXCEPT ![Len(acc)].n = @ + x.n])
  ELSE IF x.k = "pub" THEN Append(acc, [p |-> x.p, n |-> x.n])
  ELSE Append(acc, [p |-> x.p, n |-> 0])
\* the bytes delivered for a PUBLISH that is still incomplete when the input ends may legitimately
\* sit in the buffer, so only complete payloads are compared
SigOf(items) == LET acc == FoldLeft(SigStep, << >>, items) IN
                [k \in 1..Len(acc) |-> IF "psize" \in DOMAIN acc[k].p /\ acc[k].n # acc[k].p.psize
                                        THEN [acc[k] EXCEPT !.n = -1] ELSE acc[k]]

\* conformance with the implementation-shaped model Framing.tla: for a delivery that TLC explored
\* there, the real decoder returns exactly the items of the model (kind, size, final flag)
ModelItems(r) == [i \in 1..Len(r.items) |->
                    <<r.items[i].k, IF r.items[i].k = "pkt" THEN 0 ELSE r.items[i].n,
                      IF r.items[i].k = "pkt" THEN 1 ELSE IF r.items[i].k = "chunk" THEN r.items[i].eof
                      ELSE IF r.items[i].n = r.items[i].p.psize THEN 1 ELSE 0>>]

JudgeDec(v, r) ==
  IF r.panic # "" THEN "C02:decoder-panicked"
  ELSE IF r.end = "LOOP" THEN "C02:decoder-makes-no-progress"
  ELSE LET w == Walk(v, r, 1, 0, 0, 1) IN
       IF w = "ok" /\ v.has_model = 1 /\ ModelItems(r) # v.model THEN "DRIFT:items-differ-from-the-framing-model" ELSE w

\* ---------------------------------------------------------------- sniff
Sniff(b) ==
  IF Len(b) < 2 THEN "MORE"
  ELSE LET rl == RdVar(b, 2, Len(b) + 1) IN
  IF ~rl.ok THEN (IF rl.why = "varint" THEN "ERR" ELSE "MORE")
  ELSE IF b[1] # 16 THEN "ERR"
  ELSE IF Len(b) < rl.i + 6 THEN "MORE"
  ELSE IF SubSeq(b, rl.i, rl.i + 5) # <<0, 4, 77, 81, 84, 84>> THEN "ERR"
  ELSE IF b[rl.i + 6] = 4 THEN "3" ELSE IF b[rl.i + 6] = 5 THEN "5" ELSE "ERR"

JudgeSniff(v, r) ==
  IF r.panic # "" THEN "C02:version-sniffer-panicked"
  ELSE IF r.res # Sniff(v.b) THEN "C02:version-sniffer-answer-differs:" \o Sniff(v.b)
  ELSE IF r.left # r.fed THEN "C02:version-sniffer-consumed-bytes"
  ELSE "ok"

\* ---------------------------------------------------------------- fold
Verdict(x) ==
  CASE x.v.op = "enc" -> JudgeEnc(x.v, x.r)
    [] x.v.op = "dec" -> JudgeDec(x.v, x.r)
    [] OTHER -> JudgeSniff(x.v, x.r)

DecSig(x) == IF x.v.op = "dec" /\ x.r.panic = "" THEN <<SigOf(x.r.items), x.r.end>> ELSE << >>

FoldStep(st, x) ==
  LET w == Verdict(x)
      g == IF x.v.op = "dec" THEN x.v.grp ELSE -1
      sg == DecSig(x)
      w2 == IF w = "ok" /\ g >= 0 /\ g = st.grp /\ sg # st.sig THEN "C10:result-depends-on-how-the-stream-was-cut" ELSE w
  IN [grp |-> g, sig |-> IF g = st.grp /\ g >= 0 THEN st.sig ELSE sg, n |-> st.n + 1,
      acc |-> IF w2 = "ok" THEN st.acc ELSE Append(st.acc, [run |-> x.v.i, why |-> w2, at |-> st.n + 1, cmd |-> x.v.op])]
Viols == FoldLeft(FoldStep, [grp |-> -1, sig |-> << >>, n |-> 0, acc |-> << >>], Rec).acc

VARIABLE done
Init == done = FALSE
Next == /\ ~done /\ done' = TRUE
        /\ PrintT(<<"JUDGE", ToJson([runs |-> Len(Rec), events |-> Len(Rec), viol |-> Viols])>>)
Spec == Init /\ [][Next]_done
=============================================================================
