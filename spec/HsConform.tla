----------------------------- MODULE HsConform -----------------------------
(***************************************************************************)
(* Trace validation for connection set-up: every recorded handshake run is *)
(* compared by TLC with the prediction of Handshake.tla, phase by phase.    *)
(* Input (env CONF): one line per run [run, p: parameters, evs: the four    *)
(* phases as recorded (projection e, k, s, id, q, r, n)].  Prints           *)
(* ("CONF", run, "ok", 4) or ("CONF", run, "stuck", first differing phase). *)
(***************************************************************************)
EXTENDS Handshake, TLC, Json, IOUtils

Runs == ndJsonDeserialize(IOEnv.CONF)
VARIABLE l
P(ev) == [e |-> ev.e, k |-> ev.k, s |-> ev.s, id |-> ev.id, q |-> ev.q, r |-> ev.r, n |-> ev.n]
Map(sel) == [i \in 1..Len(sel) |-> P(sel[i])]
Late == {"out", "conn_done", "h_drop"}
Proj(evs) == Map(SelectSeq(evs, LAMBDA ev : ev.e \notin Late)) \o Map(SelectSeq(evs, LAMBDA ev : ev.e = "conn_done"))
             \o Map(SelectSeq(evs, LAMBDA ev : ev.e = "out"))
FirstDiff(a, b) == IF \E i \in 1..4 : Proj(a[i]) # b[i] THEN CHOOSE i \in 1..4 : Proj(a[i]) # b[i] /\ \A j \in 1..(i - 1) : Proj(a[j]) = b[j] ELSE 0
Init == l = 1
Next == /\ l <= Len(Runs)
        /\ LET d == FirstDiff(Run(Runs[l].p), Runs[l].evs) IN
           IF d = 0 THEN PrintT(<<"CONF", Runs[l].run, "ok", 4>>)
           ELSE /\ PrintT(<<"CONF", Runs[l].run, "stuck", d>>)
                /\ (IOEnv.CONFDBG # "1" \/ PrintT(<<"DIFF", Runs[l].run, d, ToJson(Proj(Run(Runs[l].p)[d])), ToJson(Runs[l].evs[d])>>))
        /\ l' = l + 1
ConformSpec == Init /\ [][Next]_l
=============================================================================
