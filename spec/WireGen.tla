------------------------------- MODULE WireGen -------------------------------
(***************************************************************************)
(* Generator for the wire group (C01, C02, C09, C10): TLC enumerates the   *)
(* universe of abstract packet values (presence masks over every optional  *)
(* field, every reason code, boundary lengths), their reference encodings  *)
(* in canonical and in reversed property order, byte-level mutations of    *)
(* those encodings, outbound limits, and packet streams with cut sets.     *)
(* Every vector is printed as one JSON line; the harness runs the real     *)
(* codec on it and WireJudge decides the outcome with the reference        *)
(* semantics of Wire5 / Wire3.                                             *)
(***************************************************************************)
EXTENDS Bytes, Json

CONSTANTS Part, Deep     \* which sub-universe to print; Deep = TRUE for the thorough tier

IdOrd(ps) == ps
RECURSIVE Rev(_)
Rev(s) == IF s = << >> THEN << >> ELSE Append(Rev(Tail(s)), Head(s))
W5 == INSTANCE Wire5 WITH Ord <- IdOrd, CutAt <- -1, Extra <- << >>
W5R == INSTANCE Wire5 WITH Ord <- Rev, CutAt <- -1, Extra <- << >>
\* property sections cut after k bytes, in both property orders
W5C(k) == INSTANCE Wire5 WITH Ord <- IdOrd, CutAt <- k, Extra <- << >>
W5RC(k) == INSTANCE Wire5 WITH Ord <- Rev, CutAt <- k, Extra <- << >>
W5X(x) == INSTANCE Wire5 WITH Ord <- IdOrd, CutAt <- -1, Extra <- x
W3 == INSTANCE Wire3

S0 == << >>
Sa == <<97>>
Sab == <<97, 47, 98>>
Su == <<195, 169, 47, 240, 159, 152, 128>>     \* "e-acute / U+1F600"
L(n) == [k \in 1..n |-> 97 + (k % 3)]
UP1 == << <<Sa, Sab>> >>
UP2 == << <<Sa, Sab>>, <<Sa, S0>>, <<Su, Su>> >>
UPn(n) == [k \in 1..n |-> <<Sa, <<48 + (k % 10)>> >>]

Over(base, F, alt) == [f \in DOMAIN base |-> IF f \in F THEN alt[f] ELSE base[f]]
Masks(Fs, lo, hi) == {F \in SUBSET Fs : Cardinality(F) <= lo \/ Cardinality(F) >= hi}
MaskPolicy(Fs) ==
  LET n == Cardinality(Fs) IN
  IF ~Deep THEN Masks(Fs, 1, n - 1)
  ELSE SUBSET Fs      \* thorough: every presence mask (2^18 for CONNACK)

\* ---------------------------------------------------------------- MQTT 5 universe
AckKinds == {"PUBACK", "PUBREC", "PUBREL", "PUBCOMP"}
AckRc(t) == IF t \in {"PUBACK", "PUBREC"} THEN W5!RcPubAck ELSE W5!RcPubRel
Acks(zz) == {[t |-> t, id |-> id, rc |-> rc, rs |-> rs, up |-> up] :
           t \in AckKinds, id \in (IF Deep THEN {1, 256, 65535} ELSE {1, 65535}), rc \in W5!RcPubAck \cup W5!RcPubRel,
           rs \in {<< >>, <<S0>>, <<Sab>>}, up \in {<< >>, UP1, UP2}}
AckU(zz) == {p \in Acks(0) : p.rc \in AckRc(p.t)}

PubBase(q) == [t |-> "PUBLISH", dup |-> 0, retain |-> 0, q |-> q, topic |-> Sab, id |-> IF q = 0 THEN 0 ELSE 1,
               utf8 |-> 0, mei |-> 0, ct |-> << >>, rt |-> << >>, cd |-> << >>, sids |-> << >>, alias |-> 0,
               up |-> << >>, psize |-> 3]
PubAlt == [dup |-> 1, retain |-> 1, utf8 |-> 1, mei |-> 7, ct |-> <<Sa>>, rt |-> <<Sab>>, cd |-> << <<0, 255>> >>,
           sids |-> <<1>>, alias |-> 1, up |-> UP1]
PubU(zz) ==
  {Over(PubBase(q), F, PubAlt) : q \in 0..2, F \in MaskPolicy(DOMAIN PubAlt)}
  \cup {[PubBase(1) EXCEPT !.id = 65535], [PubBase(2) EXCEPT !.id = 256],
        [PubBase(0) EXCEPT !.mei = -1], [PubBase(0) EXCEPT !.mei = 2147483647], [PubBase(0) EXCEPT !.mei = -2147483647 - 1],
        [PubBase(0) EXCEPT !.sids = <<1, 127, 128, 16383, 16384, 2097151, 2097152, 268435455>>],
        [PubBase(0) EXCEPT !.alias = 65535, !.topic = S0], [PubBase(1) EXCEPT !.topic = Su],
        [PubBase(0) EXCEPT !.up = UP2], [PubBase(0) EXCEPT !.psize = 0], [PubBase(2) EXCEPT !.psize = 0],
        [PubBase(0) EXCEPT !.cd = <<S0>>], [PubBase(0) EXCEPT !.ct = <<S0>>]}
\* Remaining Length boundaries: variable header of PubBase(0) is 6 bytes
PubRL(zz) == {[PubBase(0) EXCEPT !.psize = n - 6] : n \in {127, 128, 16383, 16384} \cup (IF Deep THEN {2097151, 2097152} ELSE {})}

SubBase == [t |-> "SUBSCRIBE", id |-> 1, sid |-> 0, up |-> << >>, filters |-> << <<Sab, 0, 0, 0, 0>> >>]
SubU(zz) ==
  {[SubBase EXCEPT !.id = id, !.sid = sid, !.up = up] : id \in {1, 65535}, sid \in {0, 1, 268435455}, up \in {<< >>, UP1, UP2}}
  \cup {[SubBase EXCEPT !.filters = << <<Sab, q, nl, rap, rh>> >>] : q \in 0..2, nl \in 0..1, rap \in 0..1, rh \in 0..2}
  \cup {[SubBase EXCEPT !.filters = << <<Sab, 1, 1, 0, 1>>, <<Su, 2, 0, 1, 2>>, <<Sa, 0, 0, 0, 0>> >>]}
UnsubU(zz) == {[t |-> "UNSUBSCRIBE", id |-> id, up |-> up, filters |-> fs] :
             id \in {1, 65535}, up \in {<< >>, UP1, UP2}, fs \in {<<Sab>>, <<Sab, Su, Sa>>}}
SubAckU(zz) ==
  {[t |-> "SUBACK", id |-> id, rs |-> rs, up |-> up, codes |-> cs] :
     id \in {1, 65535}, rs \in {<< >>, <<Sab>>}, up \in {<< >>, UP2},
     cs \in {<<c>> : c \in W5!RcSubAck} \cup {<<0, 1, 2, 128>>}}
UnsubAckU(zz) ==
  {[t |-> "UNSUBACK", id |-> id, rs |-> rs, up |-> up, codes |-> cs] :
     id \in {1, 65535}, rs \in {<< >>, <<Sab>>}, up \in {<< >>, UP2},
     cs \in {<<c>> : c \in W5!RcUnsubAck} \cup {<<0, 17, 128>>}}

DiscBase == [t |-> "DISCONNECT", rc |-> 0, sei |-> << >>, sr |-> << >>, rs |-> << >>, up |-> << >>]
DiscAlt == [sei |-> <<7>>, sr |-> <<Sab>>, rs |-> <<Sa>>, up |-> UP1]
DiscU(zz) ==
  {[Over(DiscBase, F, DiscAlt) EXCEPT !.rc = rc] : rc \in {0, 4, 128, 162}, F \in SUBSET DOMAIN DiscAlt}
  \cup {[Over(DiscBase, F, DiscAlt) EXCEPT !.rc = rc] : rc \in W5!RcDisconnect, F \in {{}, DOMAIN DiscAlt}}
  \cup {[DiscBase EXCEPT !.sei = <<0>>], [DiscBase EXCEPT !.sei = <<-1>>], [DiscBase EXCEPT !.up = UP2]}

AuthBase == [t |-> "AUTH", rc |-> 0, am |-> << >>, ad |-> << >>, rs |-> << >>, up |-> << >>]
AuthAlt == [am |-> <<Sab>>, ad |-> << <<0, 1, 255>> >>, rs |-> <<Sa>>, up |-> UP1]
AuthU(zz) == {[Over(AuthBase, F, AuthAlt) EXCEPT !.rc = rc] : rc \in W5!RcAuth, F \in SUBSET DOMAIN AuthAlt}

WillBase == [q |-> 0, retain |-> 0, topic |-> Sab, msg |-> <<1, 2>>, utf8 |-> -1, mei |-> 0, ct |-> << >>, rt |-> << >>,
             cd |-> << >>, delay |-> << >>, up |-> << >>]
WillAlt == [q |-> 2, retain |-> 1, utf8 |-> 1, mei |-> 9, ct |-> <<Sa>>, rt |-> <<Sab>>, cd |-> << <<7>> >>,
            delay |-> <<5>>, up |-> UP1]
WillFull == Over(WillBase, DOMAIN WillAlt, WillAlt)
ConnBase == [t |-> "CONNECT", clean |-> 1, ka |-> 0, sei |-> 0, am |-> << >>, ad |-> << >>, rpi |-> 1, rri |-> 0, rm |-> 0,
             tam |-> 0, up |-> << >>, mps |-> 0, will |-> << >>, cid |-> Sab, user |-> << >>, pass |-> << >>]
ConnAlt == [clean |-> 0, ka |-> 65535, sei |-> 7, am |-> <<Sab>>, ad |-> << <<0, 255>> >>, rpi |-> 0, rri |-> 1, rm |-> 1,
            tam |-> 1, up |-> UP1, mps |-> 1, will |-> <<WillFull>>, cid |-> S0, user |-> <<Sa>>, pass |-> << <<0>> >>]
ConnU(zz) ==
  {Over(ConnBase, F, ConnAlt) : F \in MaskPolicy(DOMAIN ConnAlt)}
  \cup {[ConnBase EXCEPT !.will = <<Over(WillBase, F, WillAlt)>>] : F \in MaskPolicy(DOMAIN WillAlt)}
  \cup {[ConnBase EXCEPT !.will = <<[WillBase EXCEPT !.q = 1, !.utf8 = 0, !.delay = <<0>>, !.msg = S0]>>],
        [ConnBase EXCEPT !.sei = -1, !.rm = 65535, !.tam = 65535, !.mps = -1, !.up = UP2],
        [ConnBase EXCEPT !.mps = 2147483647, !.user = <<S0>>, !.pass = <<S0>>]}

CaBase == [t |-> "CONNACK", sp |-> 0, rc |-> 0, sei |-> << >>, acid |-> << >>, ska |-> << >>, am |-> << >>, ad |-> << >>,
           ri |-> << >>, sr |-> << >>, rs |-> << >>, rm |-> 65535, tam |-> 0, mq |-> 2, ra |-> 1, up |-> << >>, mps |-> << >>,
           wsa |-> 1, sia |-> 1, ssa |-> 1]
CaAlt == [sp |-> 1, sei |-> <<7>>, acid |-> <<Sab>>, ska |-> <<60>>, am |-> <<Sa>>, ad |-> << <<1>> >>, ri |-> <<Sab>>,
          sr |-> <<Sa>>, rs |-> <<Sab>>, rm |-> 1, tam |-> 5, mq |-> 1, ra |-> 0, up |-> UP1, mps |-> <<256>>, wsa |-> 0,
          sia |-> 0, ssa |-> 0]
CaU(zz) ==
  {Over(CaBase, F, CaAlt) : F \in MaskPolicy(DOMAIN CaAlt)}
  \cup {[Over(CaBase, F, CaAlt) EXCEPT !.rc = rc] : rc \in W5!RcConnack, F \in {{}, DOMAIN CaAlt \ {"sp"}}}
  \cup {[CaBase EXCEPT !.mq = 0, !.sei = <<0>>, !.ska = <<0>>, !.mps = <<-1>>, !.tam = 65535, !.up = UP2],
        [CaBase EXCEPT !.sei = <<-1>>, !.ska = <<65535>>, !.mps = <<1>>]}

Ping5 == {[t |-> "PINGREQ"], [t |-> "PINGRESP"]}

\* string / binary length boundaries (one field at a time) and user property counts
Lens == IF Deep THEN {0, 1, 127, 128, 16383, 16384, 65535} ELSE {0, 1, 127, 128, 65535}
LenU5(zz) ==
  {[PubBase(0) EXCEPT !.topic = L(n)] : n \in Lens \ {0}}
  \cup {[t |-> "PUBACK", id |-> 1, rc |-> 16, rs |-> <<L(n)>>, up |-> << >>] : n \in Lens}
  \cup {[t |-> "PUBACK", id |-> 1, rc |-> 0, rs |-> << >>, up |-> << <<L(n), Sa>>, <<Sa, L(n)>> >>] : n \in Lens}
  \cup {[ConnBase EXCEPT !.cid = L(n)] : n \in Lens}
  \cup {[AuthBase EXCEPT !.rc = 24, !.am = <<Sa>>, !.ad = <<L(n)>>] : n \in Lens}
  \cup {[ConnBase EXCEPT !.will = <<[WillBase EXCEPT !.msg = L(n)]>>] : n \in Lens}
  \cup {[t |-> "PUBACK", id |-> 1, rc |-> 0, rs |-> << >>, up |-> UPn(n)] : n \in {0, 1, 2, 3, 50} \cup (IF Deep THEN {1000} ELSE {})}
  \cup {[PubBase(0) EXCEPT !.up = UPn(n)] : n \in {3, 50}}
  \* the property section as a whole around the variable byte integer boundaries (a Reason String of n
  \* bytes makes a section of n + 3 bytes; with a user property of 7 bytes n + 10)
  \cup UNION {{[t |-> "PUBACK", id |-> 1, rc |-> 16, rs |-> <<L(n)>>, up |-> << >>],
               [t |-> "PUBREL", id |-> 1, rc |-> 146, rs |-> <<L(n - 7)>>, up |-> UP1],
               [t |-> "SUBACK", id |-> 1, rs |-> <<L(n)>>, up |-> << >>, codes |-> <<0>>],
               [t |-> "UNSUBACK", id |-> 1, rs |-> <<L(n)>>, up |-> << >>, codes |-> <<0>>],
               [DiscBase EXCEPT !.rc = 130, !.rs = <<L(n)>>],
               [AuthBase EXCEPT !.rc = 24, !.rs = <<L(n)>>],
               [CaBase EXCEPT !.rs = <<L(n)>>],
               [PubBase(1) EXCEPT !.ct = <<L(n)>>],
               [ConnBase EXCEPT !.am = <<L(n)>>],
               [SubBase EXCEPT !.up = << <<L(n - 2), S0>> >>],
               [ConnBase EXCEPT !.will = <<[WillBase EXCEPT !.ct = <<L(n)>>]>>]} :
              n \in (122..127) \cup (IF Deep THEN (16378..16383) \cup (119..135) ELSE {16379, 16380, 16381})}

\* one string of a packet that carries SEVERAL properties swept over a range wide enough for the property section
\* (and the whole packet) to cross the 127/128 boundary of its length prefix, whatever the other properties add
SweepN == IF Deep THEN 20..127 ELSE 40..127
\* (the same around 16383 / 16384 for two shapes only - every such vector is 16 KiB and is decoded under several
\*  deliveries: the whole sweep made the judge input of the thorough tier larger than a 4 GB TLC heap takes)
SweepN16 == IF Deep THEN 16340..16383 ELSE {}
SweepU5(zz) ==
  UNION {{[SubBase EXCEPT !.sid = 1, !.up = << <<L(n), S0>> >>],
          [SubBase EXCEPT !.sid = 300, !.up = << <<L(n), S0>> >>],
          [SubBase EXCEPT !.sid = 268435455, !.up = << <<L(n), S0>>, <<Sa, Sa>> >>],
          [t |-> "UNSUBSCRIBE", id |-> 9, up |-> << <<L(n), S0>> >>, filters |-> <<Sab, Sa>>],
          [Over(PubBase(1), DOMAIN PubAlt, PubAlt) EXCEPT !.ct = <<L(n)>>],
          [Over(ConnBase, DOMAIN ConnAlt, ConnAlt) EXCEPT !.am = <<L(n)>>],
          [Over(ConnBase, DOMAIN ConnAlt, ConnAlt) EXCEPT !.will = <<[WillFull EXCEPT !.ct = <<L(n)>>]>>],
          [Over(CaBase, DOMAIN CaAlt, CaAlt) EXCEPT !.rs = <<L(n)>>],
          [Over(DiscBase, DOMAIN DiscAlt, DiscAlt) EXCEPT !.rc = 130, !.rs = <<L(n)>>],
          [Over(AuthBase, DOMAIN AuthAlt, AuthAlt) EXCEPT !.rc = 24, !.rs = <<L(n)>>],
          [t |-> "PUBACK", id |-> 1, rc |-> 16, rs |-> <<L(n)>>, up |-> UP2],
          [t |-> "PUBCOMP", id |-> 1, rc |-> 146, rs |-> <<L(n)>>, up |-> UP1],
          [t |-> "SUBACK", id |-> 1, rs |-> <<L(n)>>, up |-> UP2, codes |-> <<0, 1>>],
          [t |-> "UNSUBACK", id |-> 1, rs |-> <<L(n)>>, up |-> UP1, codes |-> <<0>>]} : n \in SweepN}
  \cup UNION {{[SubBase EXCEPT !.sid = 1, !.up = << <<L(n), S0>> >>],
               [t |-> "PUBACK", id |-> 1, rc |-> 16, rs |-> <<L(n)>>, up |-> UP2]} : n \in SweepN16}

Univ5(zz) == AckU(0) \cup PubU(0) \cup PubRL(0) \cup SubU(0) \cup UnsubU(0) \cup SubAckU(0) \cup UnsubAckU(0) \cup DiscU(0) \cup AuthU(0) \cup ConnU(0) \cup CaU(0)
         \cup Ping5 \cup LenU5(0) \cup SweepU5(0)

\* ---------------------------------------------------------------- MQTT 3.1.1 universe
Will3U == {<<[q |-> q, retain |-> r, topic |-> Sab, msg |-> m]>> : q \in 0..2, r \in 0..1, m \in {S0, <<1, 2>>}} \cup {<< >>}
Conn3U(zz) ==
  {[t |-> "CONNECT", clean |-> c, ka |-> ka, will |-> w, cid |-> cid, user |-> u, pass |-> pw] :
     c \in 0..1, ka \in {0, 65535}, w \in Will3U, cid \in {S0, Sab}, u \in {<< >>, <<Sa>>}, pw \in {<< >>, << <<0>> >>}}
Conn3(zz) == {p \in Conn3U(0) : (p.pass # << >> => p.user # << >>) /\ (p.cid = S0 => p.clean = 1)}
Pub3U(zz) == {[t |-> "PUBLISH", dup |-> d, retain |-> r, q |-> q, topic |-> tp, id |-> id, psize |-> ps] :
            d \in 0..1, r \in 0..1, q \in 0..2, tp \in {Sab, Su}, id \in {0, 1, 65535}, ps \in {0, 3}}
Pub3(zz) == {p \in Pub3U(0) : (p.q = 0) = (p.id = 0)}
Pub3RL(zz) == {[t |-> "PUBLISH", dup |-> 0, retain |-> 0, q |-> 0, topic |-> Sab, id |-> 0, psize |-> n - 5] :
             n \in {127, 128, 16383, 16384} \cup (IF Deep THEN {2097151, 2097152} ELSE {})}
Univ3(zz) ==
  Conn3(0) \cup Pub3(0) \cup Pub3RL(0)
  \cup {[t |-> "CONNACK", sp |-> sp, rc |-> rc] : sp \in 0..1, rc \in 0..5}
  \cup {[t |-> t, id |-> id] : t \in {"PUBACK", "PUBREC", "PUBREL", "PUBCOMP", "UNSUBACK"}, id \in {1, 256, 65535}}
  \cup {[t |-> "SUBSCRIBE", id |-> id, filters |-> fs] :
          id \in {1, 65535}, fs \in {<< <<Sab, q>> >> : q \in 0..2} \cup {<< <<Sab, 1>>, <<Su, 2>>, <<Sa, 0>> >>}}
  \cup {[t |-> "SUBACK", id |-> id, codes |-> cs] : id \in {1, 65535}, cs \in {<<0>>, <<1>>, <<2>>, <<128>>, <<0, 1, 2, 128>>}}
  \cup {[t |-> "UNSUBSCRIBE", id |-> id, filters |-> fs] : id \in {1, 65535}, fs \in {<<Sab>>, <<Sab, Su, Sa>>}}
  \cup {[t |-> "PINGREQ"], [t |-> "PINGRESP"], [t |-> "DISCONNECT"]}
  \cup {[t |-> "PUBLISH", dup |-> 0, retain |-> 0, q |-> 1, topic |-> L(n), id |-> 7, psize |-> 1] : n \in Lens \ {0}}
  \cup {[t |-> "CONNECT", clean |-> 1, ka |-> 10, will |-> << >>, cid |-> L(n), user |-> << >>, pass |-> << >>] : n \in Lens}

\* ---------------------------------------------------------------- parts
Pay(p) == IF p.t = "PUBLISH" THEN p.psize ELSE 0
EmitPk(ver, p) ==
  PrintT(<<"VEC", ToJson([ver |-> ver, p |-> p, pay |-> Pay(p),
                          b |-> IF ver = 5 THEN W5!Enc(p) ELSE W3!Enc(p),
                          br |-> IF ver = 5 THEN W5R!Enc(p) ELSE << >>])>>)

\* -- mutation bases: small frames with their payload materialised
PayBytes(n) == [k \in 1..n |-> (k - 1) % 251]
Full(ver, p) == (IF ver = 5 THEN W5!Enc(p) ELSE W3!Enc(p)) \o PayBytes(Pay(p))
MutBase5 ==
  {[t |-> "PUBACK", id |-> 1, rc |-> 16, rs |-> <<Sab>>, up |-> UP1], [t |-> "PUBREL", id |-> 2, rc |-> 146, rs |-> << >>, up |-> << >>],
   [t |-> "PUBCOMP", id |-> 3, rc |-> 0, rs |-> << >>, up |-> << >>],
   Over(PubBase(1), DOMAIN PubAlt, PubAlt), PubBase(0), PubBase(2),
   [SubBase EXCEPT !.sid = 5, !.up = UP1], [t |-> "UNSUBSCRIBE", id |-> 9, up |-> UP1, filters |-> <<Sab, Sa>>],
   [t |-> "SUBACK", id |-> 4, rs |-> <<Sa>>, up |-> UP1, codes |-> <<0, 1, 128>>],
   [t |-> "UNSUBACK", id |-> 4, rs |-> << >>, up |-> << >>, codes |-> <<0, 17>>],
   Over(DiscBase, DOMAIN DiscAlt, DiscAlt), [DiscBase EXCEPT !.rc = 4], Over(AuthBase, DOMAIN AuthAlt, AuthAlt),
   Over(ConnBase, DOMAIN ConnAlt \ {"cid"}, ConnAlt), ConnBase, Over(CaBase, DOMAIN CaAlt, CaAlt), CaBase, [t |-> "PINGREQ"]}
MutBase3 ==
  {[t |-> "CONNECT", clean |-> 1, ka |-> 60, will |-> <<[q |-> 1, retain |-> 1, topic |-> Sab, msg |-> <<1, 2>>]>>, cid |-> Sab,
    user |-> <<Sa>>, pass |-> << <<0>> >>],
   [t |-> "CONNECT", clean |-> 0, ka |-> 0, will |-> << >>, cid |-> Sab, user |-> << >>, pass |-> << >>],
   [t |-> "CONNACK", sp |-> 1, rc |-> 0], [t |-> "PUBACK", id |-> 1], [t |-> "PUBREL", id |-> 2],
   [t |-> "PUBLISH", dup |-> 0, retain |-> 1, q |-> 1, topic |-> Sab, id |-> 5, psize |-> 3],
   [t |-> "PUBLISH", dup |-> 0, retain |-> 0, q |-> 0, topic |-> Sab, id |-> 0, psize |-> 3],
   [t |-> "SUBSCRIBE", id |-> 3, filters |-> << <<Sab, 1>>, <<Sa, 2>> >>], [t |-> "SUBACK", id |-> 3, codes |-> <<0, 128>>],
   [t |-> "UNSUBSCRIBE", id |-> 3, filters |-> <<Sab, Sa>>], [t |-> "UNSUBACK", id |-> 3], [t |-> "PINGRESP"], [t |-> "DISCONNECT"]}

SetAt(b, i, v) == [b EXCEPT ![i] = v]
DelAt(b, i) == SubSeq(b, 1, i - 1) \o SubSeq(b, i + 1, Len(b))
InsAt(b, i, v) == SubSeq(b, 1, i - 1) \o <<v>> \o SubSeq(b, i, Len(b))
Vals(x) == ({0, 255, (x + 1) % 256, (x + 255) % 256, (x + 128) % 256}
            \cup (IF Deep THEN {1, 2, 3, 127, 128, (x + 2) % 256, (x + 254) % 256, (x + 64) % 256} ELSE {})) \ {x}
Mut1(b) ==
  {SubSeq(b, 1, k) : k \in 0..(Len(b) - 1)}
  \cup UNION {{SetAt(b, i, v) : v \in Vals(b[i])} : i \in 1..Len(b)}
  \cup {DelAt(b, i) : i \in 1..Len(b)}
  \cup {InsAt(b, i, v) : i \in 1..(Len(b) + 1), v \in {0, 1, 255}}
  \* the frame made one byte longer / shorter consistently (Remaining Length adjusted): inner lengths
  \* then contradict the frame length
  \cup (IF Len(b) >= 2 /\ b[2] < 127 THEN {<<b[1], b[2] + 1>> \o SubSeq(b, 3, Len(b)) \o <<v>> : v \in {0, 1, 255}} ELSE {})
  \cup (IF Len(b) >= 3 /\ b[2] < 128 /\ b[2] > 0 THEN {<<b[1], b[2] - 1>> \o SubSeq(b, 3, Len(b) - 1)} ELSE {})
  \* the Remaining Length set to every smaller value: the frame ends at every position inside the packet
  \* (what follows is then the start of a - usually malformed - next frame)
  \cup (IF Len(b) >= 3 /\ b[2] < 128 THEN {<<b[1], k>> \o SubSeq(b, 3, Len(b)) : k \in 0..(b[2] - 1)} ELSE {})
\* (TLC's UNION is quadratic in the number of elements: the parts below are printed with nested
\* quantifiers instead of being collected into one set first)
MutBases(ver) == {Full(ver, p) : p \in IF ver = 5 THEN MutBase5 ELSE MutBase3}
RLMut(b) == {SetAt(b, 2, (b[2] + 1) % 128), SetAt(b, 2, (b[2] + 127) % 128)}
EmitB(ver, b) == PrintT(<<"VEC", ToJson([ver |-> ver, b |-> b])>>)
\* variable byte integers in every position (Remaining Length, property length, subscription
\* identifier) in non-minimal, over-long (5 and 6 bytes) and extreme forms
VarForms(x) == {<<x + 128, 0>>, <<x + 128, 128, 0>>, <<x + 128, 128, 128, 0>>, <<x + 128, 128, 128, 128, 0>>,
                <<x + 128, 128, 128, 128, 128, 0>>, <<255, 255, 255, 127>>, <<255, 255, 255, 255, 15>>,
                <<255, 255, 255, 255, 127>>, <<128, 128, 128, 128>>, <<255, 255, 255, 255>>}
VarVecs(ver) ==
  UNION {{<<b[1]>> \o f \o SubSeq(b, 3, Len(b)) : f \in VarForms(b[2])} : b \in {x \in MutBases(ver) : x[2] < 128}}
  \cup (IF ver = 5
        THEN {<<48>> \o VarEnc(5 + Len(f) + 3) \o <<0, 3, 97, 47, 98>> \o f \o <<0, 1, 2>> : f \in VarForms(0)}
             \cup {<<50>> \o VarEnc(7 + Len(f) + 2) \o <<0, 3, 97, 47, 98, 0, 9>> \o <<Len(f) + 1, 11>> \o f \o <<0, 1>> : f \in VarForms(5)}
             \cup {<<64>> \o VarEnc(3 + Len(f)) \o <<0, 1, 0>> \o f : f \in VarForms(0)}
             \cup {<<130>> \o VarEnc(2 + Len(f) + 6) \o <<0, 1>> \o f \o <<0, 3, 97, 47, 98, 0>> : f \in VarForms(0)}
             \cup {<<224>> \o VarEnc(1 + Len(f)) \o <<0>> \o f : f \in VarForms(0)}
             \cup {<<32>> \o VarEnc(2 + Len(f)) \o <<0, 0>> \o f : f \in VarForms(0)}
        ELSE {})
\* every property section of every base frame cut at every position (the frame and the section length agree)
PropCuts == {W5C(k)!Enc(p) \o PayBytes(Pay(p)) : k \in 0..(IF Deep THEN 80 ELSE 40), p \in MutBase5}
            \cup {W5RC(k)!Enc(p) \o PayBytes(Pay(p)) : k \in 0..(IF Deep THEN 80 ELSE 40), p \in MutBase5}
\* every property (one well-formed instance of each of the 27 identifiers) appended to every property section of
\* every base frame, all lengths consistent: legal only where that packet type allows the property and it is not
\* there already
PropSample(id) == CASE id \in W5!PByte \cup W5!PU16 \cup W5!PU32 \cup W5!PVar -> 1
                    [] id \in W5!PStr -> Sa [] id \in W5!PBin -> <<0>> [] OTHER -> <<Sa, Sa>>
ForeignProps == {W5X(W5!EncProp(id, PropSample(id)))!Enc(p) \o PayBytes(Pay(p)) : id \in W5!PAll, p \in MutBase5}
EmitMut(ver) ==
  /\ \A b \in VarVecs(ver) : EmitB(ver, b)
  /\ ver = 5 => \A b \in PropCuts : EmitB(5, b)
  /\ ver = 5 => \A b \in ForeignProps : EmitB(5, b)
  /\ \A b \in MutBases(ver) : \A m \in Mut1(b) : EmitB(ver, m)
  /\ \A b1 \in MutBases(ver) : \A b2 \in MutBases(ver) : EmitB(ver, b1 \o b2)
  /\ Deep => \A b \in {x \in MutBases(ver) : Len(x) <= 40} : \A r \in RLMut(b) : \A m \in Mut1(r) : EmitB(ver, m)

\* -- short byte strings over an alphabet of packet type bytes and small numbers
Alpha == {0, 1, 2, 3, 16, 32, 48, 50, 52, 54, 64, 98, 112, 127, 128, 130, 144, 162, 176, 192, 208, 224, 240, 255}
AlphaQ == {0, 1, 2, 4, 16, 32, 48, 50, 54, 64, 98, 130, 192, 224, 240, 128, 255}
EmitShort(dummy) ==   \* (a parameter keeps TLC from evaluating this when it processes constant definitions)
  LET A == IF Deep THEN Alpha ELSE AlphaQ
      N == IF Deep THEN 4 ELSE 3 IN
  \A n \in 1..N : \A f \in [1..n -> A] : PrintT(<<"VEC", ToJson([b |-> [k \in 1..n |-> f[k]]])>>)

\* -- outbound limits (C09)
LimPk(zz) ==
  LET rss == {<< >>, <<S0>>, <<Sab>>, <<L(20)>>}
      ups == {<< >>, UP1, UP2, UPn(5)} IN
  {[t |-> t, id |-> 1, rc |-> rc, rs |-> rs, up |-> up] : t \in {"PUBACK", "PUBREL"}, rc \in {0, 146} \cup {16}, rs \in rss, up \in ups}
  \cup {[t |-> t, id |-> 1, rs |-> rs, up |-> up, codes |-> <<0, 128>>] : t \in {"SUBACK", "UNSUBACK"}, rs \in rss, up \in ups}
  \cup {[DiscBase EXCEPT !.rc = rc, !.rs = rs, !.up = up, !.sr = sr] : rc \in {0, 130}, rs \in rss, up \in ups, sr \in {<< >>, <<Sab>>}}
  \cup {[AuthBase EXCEPT !.rc = 24, !.am = <<Sa>>, !.rs = rs, !.up = up] : rs \in rss, up \in ups}
  \cup {[CaBase EXCEPT !.rs = rs, !.up = up, !.acid = ac] : rs \in rss, up \in ups, ac \in {<< >>, <<Sab>>}}
  \cup {PubBase(0), [PubBase(1) EXCEPT !.up = UP2, !.psize = 40], SubBase, [t |-> "PINGREQ"],
        [t |-> "UNSUBSCRIBE", id |-> 9, up |-> UP1, filters |-> <<Sab>>]}
LimPkDeep(zz) ==
  {[t |-> t, id |-> 65535, rc |-> rc, rs |-> rs, up |-> up] : t \in AckKinds, rc \in {0, 16, 146, 128},
     rs \in {<<S0>>, <<L(100)>>, <<L(200)>>}, up \in {UPn(1), UPn(3), UPn(12), << <<L(60), L(60)>>, <<Sa, Sa>> >>}}
  \cup {[Over(CaBase, F, CaAlt) EXCEPT !.rs = rs, !.up = up] : F \in {{}, {"acid", "sr", "ri"}, DOMAIN CaAlt \ {"rs", "up"}},
          rs \in {<< >>, <<L(100)>>}, up \in {<< >>, UPn(3), UPn(12)}}
  \cup {[DiscBase EXCEPT !.rc = 151, !.sei = <<5>>, !.rs = rs, !.up = up] : rs \in {<<L(100)>>, <<L(200)>>}, up \in {<< >>, UPn(12)}}
  \cup {[t |-> t, id |-> 7, rs |-> rs, up |-> up, codes |-> cs] : t \in {"SUBACK", "UNSUBACK"}, rs \in {<< >>, <<L(100)>>},
          up \in {<< >>, UPn(12)}, cs \in {<<0>>, [k \in 1..40 |-> 0]}}
LimOk(p) == p.t \notin AckKinds \/ (p.rc \in AckRc(p.t))
Limits == IF Deep THEN (1..260) \cup {16383, 16384, 16390, 2097152, 268435455, 268435460}
          ELSE (1..64) \cup {100, 128, 268435460}

\* -- streams with cut sets (C10)
PubS(q, n) == [PubBase(q) EXCEPT !.psize = n]
Palette5 == {[t |-> "PINGREQ"], [t |-> "PUBACK", id |-> 1, rc |-> 0, rs |-> << >>, up |-> << >>]}
Sizes == IF Deep THEN {0, 1, 3, 5, 1023, 1024, 1025, 32767, 32768, 32769, 70000, 307200}
         ELSE {0, 1, 5, 1024, 1025, 32769, 70000}
Seg(ver, p) == [b |-> IF ver = 5 THEN W5!Enc(p) ELSE W3!Enc(p), pay |-> Pay(p)]
Pub3S(q, n) == [t |-> "PUBLISH", dup |-> 0, retain |-> 0, q |-> q, topic |-> Sab, id |-> IF q = 0 THEN 0 ELSE 1, psize |-> n]
Streams(zz) ==
  {[ver |-> 5, segs |-> <<Seg(5, PubS(q, n)), Seg(5, [t |-> "PINGREQ"])>>] : q \in {0, 1}, n \in Sizes}
  \cup {[ver |-> 5, segs |-> <<Seg(5, PubS(0, n)), Seg(5, PubS(2, m)), Seg(5, [t |-> "PUBACK", id |-> 1, rc |-> 0, rs |-> << >>, up |-> << >>])>>] :
          n \in Sizes, m \in {0, 5, 1025}}
  \cup {[ver |-> 5, segs |-> <<Seg(5, [t |-> "PINGREQ"]), Seg(5, Over(PubBase(1), DOMAIN PubAlt, PubAlt)), Seg(5, PubS(0, n))>>] : n \in {0, 7}}
  \cup {[ver |-> 3, segs |-> <<Seg(3, Pub3S(q, n)), Seg(3, [t |-> "PINGREQ"])>>] : q \in {0, 1}, n \in Sizes}
  \cup {[ver |-> 3, segs |-> <<Seg(3, Pub3S(0, n)), Seg(3, Pub3S(2, m)), Seg(3, [t |-> "PUBACK", id |-> 1])>>] : n \in Sizes, m \in {0, 5, 1025}}
\* short streams for exhaustive fragmentation
ShortStreams(zz) ==
  {[ver |-> 5, segs |-> <<Seg(5, [PubBase(0) EXCEPT !.topic = Sa, !.psize = n]), Seg(5, [t |-> "PINGREQ"])>>] : n \in {0, 1, 4}}
  \cup {[ver |-> 5, segs |-> <<Seg(5, [t |-> "PUBACK", id |-> 1, rc |-> 16, rs |-> << >>, up |-> << >>]),
                              Seg(5, [PubBase(1) EXCEPT !.topic = Sa, !.psize = 3])>>]}
  \cup {[ver |-> 3, segs |-> <<Seg(3, [Pub3S(1, n) EXCEPT !.topic = Sa]), Seg(3, [t |-> "PUBACK", id |-> 1])>>] : n \in {0, 1, 4}}
RECURSIVE TotalLen(_)
TotalLen(segs) == IF segs = << >> THEN 0 ELSE Len(Head(segs).b) + Head(segs).pay + TotalLen(Tail(segs))
RECURSIVE SortSet(_)
SortSet(S) == IF S = {} THEN << >> ELSE LET m == CHOOSE x \in S : \A y \in S : x <= y IN <<m>> \o SortSet(S \ {m})
\* cut offsets worth trying in a long stream: around every frame start, header end and chunk-size multiple
RECURSIVE Marks(_, _)
Marks(segs, off) ==
  IF segs = << >> THEN {}
  ELSE LET s == Head(segs)
           h == Len(s.b) IN
       {off + 1, off + 2, off + h - 1, off + h, off + h + 1, off + h + s.pay - 1} \cup Marks(Tail(segs), off + h + s.pay)

\* -- connection level: a PUBLISH whose payload is written in pieces, read by a handler at some pace
ConnSizes == IF Deep THEN {0, 1, 5, 1023, 1024, 1025, 32767, 32768, 32769, 70000, 307200} ELSE {0, 5, 1025, 32769, 70000}
ConnRuns(zz) ==
  {[ver |-> ver, q |-> q, size |-> n, send |-> sd, piece |-> pc, read |-> rd, pace |-> pa, minc |-> mc, buf |-> bf] :
     ver \in {3, 5}, q \in {0, 1}, n \in ConnSizes, sd \in {0, 1, 100000}, pc \in {7, 1000, 16384, 400000},
     rd \in {"all", "chunks"}, pa \in {"eager", "lazy", "abandon"}, mc \in {0, 4, 1024, 32768}, bf \in {1024, 32768}}

Emit(dummy) ==
  CASE Part = "pk5" -> \A p \in Univ5(0) : EmitPk(5, p)
    [] Part = "pk3" -> \A p \in Univ3(0) : EmitPk(3, p)
    [] Part = "mut5" -> EmitMut(5)
    [] Part = "mut3" -> EmitMut(3)
    [] Part = "short" -> EmitShort(0)
    [] Part = "lim" ->
         /\ \A p \in {x \in LimPk(0) \cup (IF Deep THEN LimPkDeep(0) ELSE {}) : LimOk(x)} :
               PrintT(<<"VEC", ToJson([ver |-> 5, p |-> p, pay |-> Pay(p), lims |-> SortSet(Limits)])>>)
         \* reported size = Remaining Length = bytes written, for packets of every kind with several
         \* properties around the boundaries of the length prefixes (limit far away, and close)
         /\ \A p \in SweepU5(0) \cup LenU5(0) :
               PrintT(<<"VEC", ToJson([ver |-> 5, p |-> p, pay |-> Pay(p), lims |-> <<140, 268435460>>])>>)
    [] Part = "stream" -> \A s \in Streams(0) :
                            PrintT(<<"VEC", ToJson([ver |-> s.ver, segs |-> s.segs,
                                                    marks |-> SortSet({m \in Marks(s.segs, 0) : m > 0 /\ m < TotalLen(s.segs)})])>>)
    [] Part = "frag" -> \A s \in ShortStreams(0) : \A C \in SUBSET (1..(TotalLen(s.segs) - 1)) :
                            PrintT(<<"VEC", ToJson([ver |-> s.ver, segs |-> s.segs, cuts |-> SortSet(C)])>>)
    [] Part = "conn" -> \A r \in {x \in ConnRuns(0) : x.size > 0 \/ (x.send = 0 /\ x.piece = 7)} :
                          (r.size \div r.piece <= 300) => PrintT(<<"VEC", ToJson(r)>>)
    [] OTHER -> FALSE

\* printed from the next-state action, i.e. by a worker thread (deep recursion needs its stack)
VARIABLE done
Init == done = FALSE
Next == ~done /\ done' = TRUE /\ Emit(0)
Spec == Init /\ [][Next]_done
=============================================================================
