-------------------------------- MODULE Prod4 --------------------------------
(***************************************************************************)
(* Environment generator: the full product D1 x D2 x D3 x D4 of four       *)
(* finite dimensions (indices); bin/groups.py gives each index its meaning *)
(* (C19: first packet x fragmentation x handshake outcome x limit combo).  *)
(***************************************************************************)
EXTENDS Naturals, Sequences, TLC, Json
CONSTANTS D1, D2, D3, D4
VARIABLE done
Init == done = FALSE
Next == /\ ~done /\ done' = TRUE
        /\ \A a \in 1..D1 : \A b \in 1..D2 : \A c \in 1..D3 : \A d \in 1..D4 :
              PrintT(<<"REPLAY", "none", ToJson(<<a, b, c, d>>)>>)
ExportSpec == Init /\ [][Next]_done
=============================================================================
