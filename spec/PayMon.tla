------------------------------- MODULE PayMon -------------------------------
(***************************************************************************)
(* Monitor for the connection-level half of C10: the handler that reads a  *)
(* PUBLISH payload receives exactly the bytes the peer sent, in order, for *)
(* every fragmentation of the transport writes and every reader pace.      *)
(* Payloads follow the position pattern of Bytes.tla; the harness reports, *)
(* per piece a handler obtained, its length and checksum.                  *)
(***************************************************************************)
EXTENDS Bytes

Init == [bad |-> "none", sizes |-> << >>, hs |-> << >>, aborted |-> FALSE, ended |-> FALSE]
Fail(m, why) == IF m.bad = "none" THEN [m EXCEPT !.bad = why] ELSE m

Idx(m, h) == IF \E i \in 1..Len(m.hs) : m.hs[i].h = h THEN CHOOSE i \in 1..Len(m.hs) : m.hs[i].h = h ELSE 0

Step(m, ev) ==
  CASE ev.e = "reset" -> Init
    [] m.ended -> m
    [] ev.e = "in" /\ ev.k = "PUBLISH" -> [m EXCEPT !.sizes = Append(@, ev.n)]
    [] ev.e = "h_start" /\ ev.k = "pub" ->
         IF m.sizes = << >> THEN m
         ELSE [m EXCEPT !.sizes = Tail(@), !.hs = Append(@, [h |-> ev.s, size |-> Head(m.sizes), off |-> 0, done |-> FALSE])]
    [] ev.e = "h_chunk" ->
         LET i == Idx(m, ev.s) IN
         IF i = 0 THEN m
         ELSE LET r == m.hs[i] IN
              IF r.off + ev.n > r.size THEN Fail(m, "C10:handler-received-more-bytes-than-declared")
              ELSE IF ev.id # PatSum(r.off, ev.n) THEN Fail(m, "C10:handler-received-other-bytes-than-were-sent")
              ELSE [m EXCEPT !.hs[i].off = @ + ev.n]
    [] ev.e = "h_read" ->
         LET i == Idx(m, ev.s) IN
         IF i = 0 THEN m
         ELSE LET r == m.hs[i] IN
              IF ev.r # 0 THEN (IF m.aborted THEN m ELSE Fail(m, "C10:payload-read-failed-on-a-healthy-connection"))
              ELSE IF ev.k = "all" THEN
                (IF ev.n # r.size THEN Fail(m, "C10:read-all-returned-a-different-number-of-bytes")
                 ELSE IF ev.id # PatSum(0, ev.n) THEN Fail(m, "C10:handler-received-other-bytes-than-were-sent")
                 ELSE m)
              ELSE IF ev.k = "chunks" /\ r.off # r.size THEN Fail(m, "C10:payload-stream-ended-before-the-declared-size")
              ELSE m
    [] ev.e = "h_end" ->     \* the handler returned (a reader that stops early abandons the rest)
         LET i == Idx(m, ev.s) IN IF i = 0 THEN m ELSE [m EXCEPT !.hs[i].done = TRUE]
    [] ev.e = "ctl" /\ ev.k \in {"stop_proto", "stop_error", "stop_peer"} -> [m EXCEPT !.aborted = TRUE]
    [] ev.e \in {"peer_close", "io_err", "close", "conn_done"} -> [m EXCEPT !.aborted = TRUE]
    [] ev.e = "panic" -> Fail(m, "C10:panic")
    [] ev.e = "spin" -> Fail(m, "C10:connection-task-spins")
    [] ev.e = "final" ->
         \* no reader is still waiting for bytes of a payload that was sent completely
         IF ~m.aborted /\ \E i \in 1..Len(m.hs) : ~m.hs[i].done /\ m.hs[i].off < m.hs[i].size
           THEN Fail(m, "C10:reader-still-waiting-although-the-whole-payload-was-sent") ELSE m
    [] ev.e = "end" -> [m EXCEPT !.ended = TRUE]
    [] OTHER -> m

Ok(m) == m.bad = "none"
=============================================================================
