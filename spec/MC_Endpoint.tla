---------------------------- MODULE MC_Endpoint ----------------------------
(***************************************************************************)
(* TLC model over Endpoint.tla: every sequence of peer packets (armed or   *)
(* gated handlers) and handler completions within the bounds; the monitor  *)
(* ProtoMon is composed over the emitted events (MonOk is the property on  *)
(* the model); ExportSpec prints one replay line per explored transition.  *)
(***************************************************************************)
EXTENDS Endpoint, Json

CONSTANTS
  Ids,        \* packet ids the peer uses
  MaxPkts,    \* number of packets the peer sends
  Kinds,      \* packet kinds offered: subset of {"pub0","pub1","pub2","pubrel","sub","unsub","ping"}
  Outcomes,   \* handler outcomes offered: subset of {"ok","err","nack"}
  Imm         \* BOOLEAN: handlers may also complete inside the call (pre-armed)

Mon == INSTANCE ProtoMon

VARIABLES st, mon, hist, pred
vars == <<st, mon, hist, pred>>
view == <<st, mon>>

InitMon == Mon!StepAll(Mon!Init,
            << E("reset", Role, 0, 0, Ver, 0, 0, Role),
               IF Role = "server" THEN E("out", "CONNACK", 0, 0, 0, 0, 0, "")
                                  ELSE E("connected", "", 0, 0, 0, 0, 0, "") >>)

Init == st = Init0 /\ mon = InitMon /\ hist = << >> /\ pred = << >>

\* What the endpoint writes is observed on the peer side when the connection is quiescent again, i.e. after the
\* other events of the command: the monitor is given the events in the order the harness records them.
Observed(evs) == SelectSeq(evs, LAMBDA e : e.e # "out") \o SelectSeq(evs, LAMBDA e : e.e = "out")
Take(s) == /\ st' = Next0(s)
           /\ pred' = Evs(s)
           /\ mon' = Mon!StepAll(mon, Observed(Evs(s)) \o << Quiet >>)

In(kind, id, imm, o) ==
  /\ st.alive /\ st.narr < MaxPkts /\ kind \in Kinds
  /\ (kind = "pub0" => id = CHOOSE i \in Ids : TRUE)
  /\ (kind \notin {"pub0", "pub1", "pub2"} => ~imm /\ o = "ok")
  /\ Take(DoIn(st, kind, id, imm, o))
  /\ hist' = Append(hist, "i" \o kind \o ":" \o ToString(id) \o ":" \o (IF imm THEN o ELSE "g"))

Complete(gi, o) ==
  /\ st.alive /\ gi \in 1..Len(st.gates)
  /\ (st.gates[gi].kind # "pub" => o = "ok" \/ "err" \in Outcomes)
  /\ Take(DoComplete(st, gi, o))
  /\ hist' = Append(hist, "c" \o ToString(st.gates[gi].h) \o ":" \o o)

Next ==
  \/ \E kind \in Kinds, id \in Ids, imm \in (IF Imm THEN BOOLEAN ELSE {FALSE}), o \in Outcomes : In(kind, id, imm, o)
  \/ \E gi \in 1..Len(st.gates), o \in Outcomes : Complete(gi, o)

Spec == Init /\ [][Next]_vars

MonOk == Mon!Ok(mon)
TypeOk == QueueOk(st)

ExportNext == mon.bad = "none" /\ Next /\ PrintT(<<"REPLAY", mon'.bad, ToJson(hist')>>)
ExportSpec == Init /\ [][ExportNext]_vars

Ids12 == {1, 2}
Ids1 == {1}
KPub == {"pub0", "pub1", "pub2", "pubrel"}
KPub12 == {"pub1", "pub2", "pubrel"}
KAll == {"pub1", "pub2", "pubrel", "sub", "unsub", "ping"}
KCtl == {"pub1", "sub", "unsub", "ping"}
KPub01 == {"pub0", "pub1"}
KPub1 == {"pub1"}
KPub2 == {"pub2"}
KIds == {"pub1", "pub2", "pubrel", "sub"}
OOk == {"ok"}
OAll == {"ok", "err", "nack"}
ONack == {"ok", "nack"}
=============================================================================
