---------------------------- MODULE MC_Endpoint ----------------------------
(***************************************************************************)
(* TLC model over Endpoint.tla: every sequence of peer writes (one packet  *)
(* or a burst of packets in one write; armed or gated handlers) and handler*)
(* completions within the bounds; the monitor ProtoMon is composed over the*)
(* emitted events (MonOk is the property on the model); ExportSpec prints  *)
(* one replay line per explored transition.                                *)
(***************************************************************************)
EXTENDS Endpoint, Json

CONSTANTS
  Ids,        \* packet ids the peer uses
  MaxPkts,    \* number of packets the peer sends
  Kinds,      \* single packets offered: subset of {"pub0","pub1","pub2","pubrel","sub","unsub","ping", ...}
  Extra,      \* further writes offered: a set of packet sequences (bursts, aliased publishes, big packets)
  Outcomes,   \* handler outcomes offered: subset of {"ok","err","nack"}
  Imm,        \* BOOLEAN: handlers may also complete inside the call (pre-armed)
  Chunks,     \* sizes of the payload pieces the peer writes after a streamed PUBLISH ({} = no streamed payloads)
  Ends,       \* connection-ending causes offered: subset of {"peer_close", "raw", "close", "force"}
  Strict      \* > 0: the universe contains no protocol violation the monitor cannot classify (ProtoMon `strict`)

Mon == INSTANCE ProtoMon

VARIABLES st, mon, hist, pred
vars == <<st, mon, hist, pred>>
view == <<st, mon>>

Cfg(k, n) == E("cfg", k, 0, 0, 0, 0, n, "")
InitMon == Mon!StepAll(Mon!Init,
            << E("reset", Role, 0, 0, Ver, 0, 0, Role),
               Cfg("max_qos", MaxQos), Cfg("max_receive", IF Ver = 3 THEN MaxRecv ELSE 16),
               Cfg("max_receive_size", MaxRecvSize), Cfg("strict", Strict), Cfg("gate_stop", IF GateStop THEN 1 ELSE 0) >>
            \o (IF Ver = 5 /\ RecvMax > 0 THEN << Cfg(IF Role = "server" THEN "ack_receive_max" ELSE "client_receive_max", RecvMax) >> ELSE << >>)
            \o (IF Ver = 5 THEN << Cfg(IF Role = "server" THEN "max_topic_alias" ELSE "client_topic_alias_max", AliasMax) >> ELSE << >>)
            \o << IF Role = "server" THEN E("out", "CONNACK", 0, 0, 0, 0, 0, "")
                                     ELSE E("connected", "", 0, 0, 0, 0, 0, "") >>)

Init == st = Init0 /\ mon = InitMon /\ hist = << >> /\ pred = << >>

\* What the endpoint writes is observed on the peer side when the connection is quiescent again, i.e. after the
\* other events of the command: the monitor is given the events in the order the harness records them.
Observed(evs) == SelectSeq(evs, LAMBDA e : e.e # "out") \o SelectSeq(evs, LAMBDA e : e.e = "out")
Take(s) == /\ st' = Next0(s)
           /\ pred' = Evs(s)
           /\ mon' = Mon!StepAll(mon, Observed(Evs(s)) \o << Quiet >>)

Pub(q, id) == [kind |-> "pub", id |-> IF q = 0 THEN 0 ELSE id, q |-> q, topic |-> "t", alias |-> 0, plen |-> 1, sent |-> 1, fin |-> FALSE]
Big(q, id) == [Pub(q, id) EXCEPT !.plen = 30, !.sent = 30]
\* a PUBLISH of 12 payload bytes of which 4 go with the header; the rest follows in pieces
Strm(q, id) == [Pub(q, id) EXCEPT !.plen = 12, !.sent = 4]
Chk(k, fin) == [kind |-> "chunk", id |-> 0, q |-> 0, topic |-> "", alias |-> 0, plen |-> k, sent |-> k, fin |-> fin]
Long(q, id) == [Pub(q, id) EXCEPT !.topic = "long"]
Ali(q, id, topic, a) == [Pub(q, id) EXCEPT !.topic = topic, !.alias = a]
Ctl(kind, id) == [kind |-> kind, id |-> IF kind = "ping" THEN 0 ELSE id, q |-> 0, topic |-> "", alias |-> 0, plen |-> 0, sent |-> 0, fin |-> FALSE]
Pk(k, i) == CASE k = "pub0" -> Pub(0, 0) [] k = "pub1" -> Pub(1, i) [] k = "pub2" -> Pub(2, i)
              [] k = "big1" -> Big(1, i) [] k = "long1" -> Long(1, i)
              [] k = "pubs0" -> Strm(0, 0) [] k = "pubs1" -> Strm(1, i)
              [] OTHER -> Ctl(k, i)
Writes == {<< Pk(k, i) >> : k \in Kinds, i \in Ids} \cup Extra

\* the peer keeps to the framing: while it owes payload it writes payload, and only then
RECURSIVE Framed(_, _)
Framed(owe, pk) ==
  IF pk = << >> THEN TRUE
  ELSE LET p == Head(pk) IN
       IF p.kind = "chunk" THEN owe >= p.plen /\ p.fin = (owe = p.plen) /\ Framed(owe - p.plen, Tail(pk))
       ELSE owe = 0 /\ Framed(IF p.kind = "pub" THEN p.plen - p.sent ELSE 0, Tail(pk))
Streamed(pk) == \E i \in 1..Len(pk) : pk[i].kind = "pub" /\ pk[i].sent < pk[i].plen
In(pk, arm) ==
  /\ st.alive /\ st.narr + Len(pk) <= MaxPkts
  /\ Framed(st.owe, pk)
  /\ Streamed(pk) => (arm = << >> /\ st.armed = << >>)      \* (handlers of streamed publishes are gated)
  /\ \E ch \in {0, 1} : Take(DoIn(st, pk, arm, ch))
  /\ hist' = Append(hist, [a |-> "in", pk |-> pk, arm |-> arm])

End(k) ==
  /\ st.alive /\ k \in Ends
  /\ \A i \in 1..Len(st.rbuf) : st.rbuf[i].kind # "raw"      \* (undecodable bytes wait unread at most once)
  /\ Take(DoEnd(st, k))
  /\ hist' = Append(hist, [a |-> "x", o |-> EndTok(st, k)])

Complete(gi, o, rd) ==
  /\ st.phase \in {"run", "stop"} /\ gi \in 1..Len(st.gates)
  /\ st.gates[gi].wait = ""
  /\ rd => (st.gates[gi].kind = "pub" /\ st.gates[gi].sz > 0 /\ o = "ok")
  /\ (st.gates[gi].kind = "stop" => o = "ok")
  /\ (st.gates[gi].kind # "pub" => o = "ok" \/ "err" \in Outcomes)
  /\ \E ch \in {0, 1} : Take(DoComplete(st, gi, o, ch, rd))
  /\ hist' = Append(hist, [a |-> "c", h |-> st.gates[gi].h, o |-> o, rd |-> rd])

Arms == {<< >>} \cup (IF Imm THEN {<< o >> : o \in Outcomes} ELSE {})
ChunkWrites == {<< Chk(k, k = st.owe) >> : k \in {c \in Chunks : c <= st.owe}}
                 \cup {<< Chk(k, TRUE), Pub(1, i) >> : k \in {c \in Chunks : c = st.owe}, i \in Ids}     \* the last piece and the next packet in one write
Next ==
  \/ \E pk \in Writes \cup ChunkWrites, arm \in Arms : In(pk, arm)
  \/ \E gi \in 1..Len(st.gates), o \in Outcomes, rd \in (IF Chunks = {} THEN {FALSE} ELSE BOOLEAN) : Complete(gi, o, rd)
  \/ \E k \in Ends : End(k)

Spec == Init /\ [][Next]_vars

MonOk == Mon!Ok(mon)
TypeOk == QueueOk(st)

ExportNext == mon.bad = "none" /\ Next /\ PrintT(<<"REPLAY", mon'.bad, ToJson(hist')>>)
ExportSpec == Init /\ [][ExportNext]_vars

----------------------------------------------------------------------------
\* named universes for the configuration files
Ids12 == {1, 2}
Ids1 == {1}
Ids123 == {1, 2, 3}
KNone == {}
KPub == {"pub0", "pub1", "pub2", "pubrel"}
KPub12 == {"pub1", "pub2", "pubrel"}
KAll == {"pub1", "pub2", "pubrel", "sub", "unsub", "ping"}
KCtl == {"pub1", "sub", "unsub", "ping"}
KPub01 == {"pub0", "pub1"}
KPub1 == {"pub1"}
KPub2 == {"pub2"}
KPub1Rel == {"pub1", "pubrel"}
KIds == {"pub1", "pub2", "pubrel", "sub"}
KLim == {"pub1", "pub0", "ping"}
KLimBig == {"pub1", "big1", "long1", "ping"}
KEnd == {"pub1", "pub2", "pubrel", "sub", "ping"}
\* every packet type a peer can send after the handshake, whether or not the role may receive it
KAny == {"pub0", "pub1", "pub2", "pubrel", "sub", "unsub", "ping", "connect", "connack", "pingresp", "puback", "pubrec",
         "pubcomp", "suback", "unsuback", "disc"} \cup (IF Ver = 5 THEN {"auth", "discsei"} ELSE {})
OErr == {"ok", "err"}
OOk == {"ok"}
OAll == {"ok", "err", "nack"}
ONack == {"ok", "nack"}
XNone == {}
CNone == {}
C48 == {4, 8}
KStrm == {"pub1", "pubs1", "pubs0"}
KStrm1 == {"pubs1", "pub1"}
KStrmCtl == {"pub1", "pubs1", "ping"}
ENone == {}
EAll == {"peer_close", "raw", "close", "force"}
EPeer == {"peer_close", "raw"}
\* bursts: two or three publishes decoded from one read
XBurst == { << Pub(1, 1), Pub(1, 2) >>, << Pub(1, 1), Pub(1, 2), Pub(1, 3) >>, << Pub(0, 0), Pub(1, 3) >>, << Big(1, 1), Pub(1, 2) >> }
XBurstCtl == XBurst \cup { << Ctl("ping", 0), Pub(1, 1) >>, << Pub(1, 1), Ctl("ping", 0), Pub(1, 2) >> }
\* aliased publishes: topics a / b / none x aliases none / 1 / 2 / 3 (AliasMax = 2)
XAlias == { << Ali(q, 1, t, a) >> : q \in {0}, t \in {"a", "b", ""}, a \in 0..3 } \ { << Ali(0, 1, "", 0) >> }
XAliasQ1 == XAlias \cup { << Ali(1, i, t, a) >> : i \in {1, 2}, t \in {"a", ""}, a \in {1, 3} }
=============================================================================
