------------------------------- MODULE Timers -------------------------------
(***************************************************************************)
(* Implementation-shaped model of the idle / read-rate timers of the io    *)
(* dispatcher (src/io.rs: update_timer, handle_timeout; DESIGN.md appendix *)
(* E), on a discrete clock of 1 s ticks.  The peer chooses, per tick, what *)
(* arrives; the io timer is the single per-connection timer of ntex-io.    *)
(*                                                                         *)
(* Properties (C20):                                                       *)
(*   Live  a connection is never ended with keep-alive timeout earlier     *)
(*         than KA after its last complete packet                          *)
(*   Dead  a connection on which no complete packet arrived for KA + 1     *)
(*         ticks (timer granularity) has been ended - unless a partial     *)
(*         frame is being delivered above the configured read rate         *)
(*   Slow  a frame delivered more slowly than the read rate is ended with  *)
(*         a read timeout                                                  *)
(***************************************************************************)
EXTENDS Naturals, Integers, Sequences, TLC, Json

CONSTANTS
  KA,        \* effective keep-alive in seconds (0 = disabled)
  Rate,      \* frame_read_rate.rate in bytes per RTimeout (0 = no read rate configured)
  RTimeout,  \* frame_read_rate.timeout (seconds)
  RMax,      \* frame_read_rate.max_timeout (seconds, 0 = unlimited)
  MaxT,      \* length of the arrival pattern in ticks
  Fixed      \* BOOLEAN: model the repaired update_timer (keep-alive also armed for a partial frame
             \*          when no read rate is configured)

VARIABLES
  t,            \* clock
  timer,        \* deadline of the io timer (0 = not running)
  kaFlag,       \* KA_TIMEOUT
  rdFlag,       \* READ_TIMEOUT
  remains, prev, rmax,   \* read_remains, read_remains_prev, read_max_timeout
  partial,      \* bytes of an incomplete frame sitting in the read buffer
  lastPkt,      \* tick of the last complete packet
  st,           \* "alive" | "ka" (keep-alive timeout) | "read" (read timeout)
  endedAt,
  acted,        \* something already arrived during the current tick (at most one arrival per tick)
  hist          \* arrival pattern so far (replay file)

vars == <<t, timer, kaFlag, rdFlag, remains, prev, rmax, partial, lastPkt, st, endedAt, acted, hist>>

Init ==
  /\ t = 0 /\ kaFlag = (KA > 0) /\ timer = (IF KA > 0 THEN KA ELSE 0)   \* armed when the connection went idle
  /\ rdFlag = FALSE /\ remains = 0 /\ prev = 0 /\ rmax = 0 /\ partial = 0
  /\ lastPkt = 0 /\ st = "alive" /\ endedAt = 0 /\ acted = FALSE /\ hist = << >>

\* update_timer(decoded) for "no item, `rem` bytes buffered"
NoItem(rem, tm, kf, rf, rr, pv, mx) ==
  IF rf THEN [timer |-> tm, ka |-> kf, rd |-> rf, remains |-> rem, prev |-> pv, rmax |-> mx]
  ELSE IF rr = 0 /\ rem = 0 THEN
     (IF KA > 0 /\ ~kf THEN [timer |-> t + KA, ka |-> TRUE, rd |-> rf, remains |-> rr, prev |-> pv, rmax |-> mx]
      ELSE [timer |-> tm, ka |-> kf, rd |-> rf, remains |-> rr, prev |-> pv, rmax |-> mx])
  ELSE IF Rate > 0 THEN
     [timer |-> t + RTimeout, ka |-> kf, rd |-> TRUE, remains |-> rem, prev |-> 0, rmax |-> RMax]
  ELSE IF Fixed /\ KA > 0 /\ ~kf THEN
     [timer |-> t + KA, ka |-> TRUE, rd |-> rf, remains |-> rr, prev |-> pv, rmax |-> mx]
  ELSE [timer |-> tm, ka |-> kf, rd |-> rf, remains |-> rr, prev |-> pv, rmax |-> mx]

Apply(r) ==
  /\ timer' = r.timer /\ kaFlag' = r.ka /\ rdFlag' = r.rd
  /\ remains' = r.remains /\ prev' = r.prev /\ rmax' = r.rmax

\* a complete packet arrives, optionally followed in the same read by n bytes of the next frame
Pkt(n) ==
  /\ st = "alive" /\ t < MaxT /\ ~acted /\ acted' = TRUE
  /\ lastPkt' = t /\ partial' = n
  \* item present: read_remains := 0, both flags cleared (the timer keeps running);
  \* then the dispatcher polls again and finds no complete frame
  /\ Apply(NoItem(n, timer, FALSE, FALSE, 0, prev, rmax))
  /\ UNCHANGED <<t, st, endedAt>>
  /\ hist' = Append(hist, IF n = 0 THEN "P" ELSE "Q")

\* n more bytes of an incomplete frame arrive
Part(n) ==
  /\ st = "alive" /\ t < MaxT /\ ~acted /\ acted' = TRUE
  /\ partial' = partial + n
  /\ Apply(NoItem(partial + n, timer, kaFlag, rdFlag, remains, prev, rmax))
  /\ UNCHANGED <<t, lastPkt, st, endedAt>>
  /\ hist' = Append(hist, "B" \o ToString(n))

\* one second passes; an expired timer sets the dispatcher-timeout flag and the dispatcher runs
\* handle_timeout()
Tick ==
  /\ st = "alive" /\ t < MaxT
  /\ t' = t + 1
  /\ IF timer > 0 /\ t + 1 >= timer
       THEN IF rdFlag
              THEN LET total == remains - prev IN
                   IF total > Rate /\ (RMax = 0 \/ rmax - RTimeout > 0)
                     THEN \* (read_remains := 0, then the dispatcher polls the transport again and
                          \*  update_timer() stores the bytes that are buffered)
                          /\ prev' = remains /\ remains' = partial
                          /\ rmax' = IF RMax = 0 THEN rmax ELSE rmax - RTimeout
                          /\ timer' = t + 1 + RTimeout
                          /\ UNCHANGED <<kaFlag, rdFlag, st, endedAt>>
                     ELSE /\ st' = "read" /\ endedAt' = t + 1
                          /\ UNCHANGED <<timer, kaFlag, rdFlag, remains, prev, rmax>>
            ELSE IF kaFlag
              THEN /\ st' = "ka" /\ endedAt' = t + 1
                   /\ UNCHANGED <<timer, kaFlag, rdFlag, remains, prev, rmax>>
            ELSE \* stale expiry: ignored, nothing re-armed
                 /\ timer' = 0 /\ UNCHANGED <<kaFlag, rdFlag, remains, prev, rmax, st, endedAt>>
       ELSE UNCHANGED <<timer, kaFlag, rdFlag, remains, prev, rmax, st, endedAt>>
  /\ UNCHANGED <<partial, lastPkt>> /\ acted' = FALSE
  /\ hist' = Append(hist, "T")

Next == Pkt(0) \/ Pkt(2) \/ Part(1) \/ Part(8) \/ Tick

Spec == Init /\ [][Next]_vars

----------------------------------------------------------------------------
Live == st = "ka" => endedAt - lastPkt >= KA
Dead == (st = "alive" /\ KA > 0 /\ ~rdFlag) => t - lastPkt <= KA + 1
Slow == (st = "alive" /\ rdFlag /\ RMax > 0) => t - lastPkt <= KA + RMax + RTimeout + 1
NoNegative == remains >= prev \/ ~rdFlag

\* replay export: one line per explored transition, with the model's outcome so far
view == <<t, timer, kaFlag, rdFlag, remains, prev, rmax, partial, lastPkt, st, endedAt, acted>>
ExportNext == Next /\ PrintT(<<"REPLAY", "none", ToJson(hist')>>)
ExportSpec == Init /\ [][ExportNext]_vars
=============================================================================
