SPECIFICATION Spec
CONSTANTS
  Part = "pk5"
  Deep = TRUE
