SPECIFICATION Spec
CHECK_DEADLOCK FALSE
