--------------------------- MODULE EndpointConform ---------------------------
(***************************************************************************)
(* Trace validation of recorded executions of the real endpoints against   *)
(* the implementation-shaped model Endpoint.tla (direction impl -> spec).   *)
(*                                                                         *)
(* Input (env CONF): ndjson, one line per recorded run                      *)
(*   [run, toks: Seq of model-level commands, evs: Seq (per command) of the *)
(*    events the REAL endpoint produced while executing that command,       *)
(*    projected on <<e, k, s, id, q, r>>].                                  *)
(* Every command is executed as the model action it names (In / Complete,   *)
(* arguments bound from the record); the step is enabled only if the events *)
(* the model emits (pred') equal the recorded ones.  A run the model can    *)
(* follow to its end prints ("CONF", run, "ok", n); a run it cannot follow  *)
(* prints ("CONF", run, "stuck", index of the first command that does not   *)
(* match) - that is DRIFT between code and model: it is counted in the      *)
(* evidence, it never raises an alarm (only the monitors do).               *)
(***************************************************************************)
EXTENDS MC_Endpoint, IOUtils

Runs == ndJsonDeserialize(IOEnv.CONF)

VARIABLES l, ti
cvars == <<vars, l, ti>>

Cmp == {"out", "h_start", "h_end", "h_read", "ctl", "ctl_done", "conn_done", "h_drop"}
\* h_end.r echoes the code the command armed, h_start.r the PUBLISH flags (input data, judged by ProtoMon)
\* x: only the topic a publish handler was given is compared
P(ev) == [e |-> ev.e, k |-> ev.k, s |-> ev.s, id |-> IF ev.e = "h_read" THEN 0 ELSE ev.id, q |-> IF ev.e = "h_read" THEN 0 ELSE ev.q, r |-> IF ev.e \in {"h_end", "h_start", "ctl"} THEN 0 ELSE ev.r,
          x |-> IF ev.e = "h_start" /\ ev.k = "pub" THEN ev.x ELSE ""]
\* what the endpoint writes to the wire is observed on the peer side at the next quiescence, so the position of
\* `out` events relative to the other events of one command is an artefact: both sides list the other events
\* first, then the `out` events (each group in order)
Map(sel) == [i \in 1..Len(sel) |-> P(sel[i])]
\* (the same holds for the end of the connection task and the dropping of cancelled handlers, whose mutual order
\*  depends on which task is dropped first: listed after the rest, handler drops in ascending order)
Late == {"out", "conn_done", "h_drop"}
Proj(evs) == Map(SelectSeq(evs, LAMBDA ev : ev.e \in Cmp /\ ev.e \notin Late))
             \o Map(SelectSeq(evs, LAMBDA ev : ev.e = "conn_done")) \o Map(SelectSeq(evs, LAMBDA ev : ev.e = "h_drop"))
             \o Map(SelectSeq(evs, LAMBDA ev : ev.e = "out"))

CInit == Init /\ l = 1 /\ ti = 1
Reset == st' = Init0 /\ mon' = InitMon /\ hist' = << >> /\ pred' = << >>

TokAct(t) == IF t.a = "x" THEN (\E k \in Ends : EndTok(st, k) = t.o /\ End(k)) ELSE IF t.a = "in" THEN In(t.pk, t.arm)
          ELSE \E gi \in 1..Len(st.gates) : st.gates[gi].h = t.h /\ Complete(gi, t.o, t.rd)

StepTok ==
  /\ l <= Len(Runs) /\ ti <= Len(Runs[l].toks)
  /\ TokAct(Runs[l].toks[ti])
  /\ Proj(pred') = Runs[l].evs[ti]
  /\ ti' = ti + 1 /\ l' = l

EndRun ==
  /\ l <= Len(Runs) /\ ti = Len(Runs[l].toks) + 1
  /\ PrintT(<<"CONF", Runs[l].run, "ok", ti - 1>>)
  /\ Reset /\ l' = l + 1 /\ ti' = 1

Stuck ==
  /\ l <= Len(Runs) /\ ti <= Len(Runs[l].toks)
  /\ ~ENABLED StepTok
  /\ PrintT(<<"CONF", Runs[l].run, "stuck", ti>>)
  /\ Reset /\ l' = l + 1 /\ ti' = 1

\* diagnosis (bin/confdiff.py): follow the run regardless and print model vs recorded events where they differ
StepDbg ==
  /\ l <= Len(Runs) /\ ti <= Len(Runs[l].toks)
  /\ TokAct(Runs[l].toks[ti])
  /\ IF Proj(pred') = Runs[l].evs[ti] THEN TRUE
     ELSE PrintT(<<"DIFF", Runs[l].run, ti, ToJson(Proj(pred')), ToJson(Runs[l].evs[ti])>>)
  /\ ti' = ti + 1 /\ l' = l
DebugSpec == CInit /\ [][StepDbg \/ EndRun]_cvars

CNext == StepTok \/ EndRun \/ Stuck
ConformSpec == CInit /\ [][CNext]_cvars
=============================================================================
