-------------------------------- MODULE Wire3 --------------------------------
(***************************************************************************)
(* Reference semantics of the MQTT 3.1.1 control packet formats (OASIS      *)
(* MQTT Version 3.1.1, sections 2 and 3), written from the specification   *)
(* text.  Same interface as Wire5: Enc(p), Dec(b, maxSize), Must(why).     *)
(***************************************************************************)
EXTENDS Bytes

Frame(b0, body) == <<b0>> \o VarEnc(Len(body)) \o body
MQTTName == <<0, 4, 77, 81, 84, 84>>
E(why) == [c |-> "ERR", why |-> why]

RECURSIVE EncStrs(_)
EncStrs(fs) == IF fs = << >> THEN << >> ELSE Str(Head(fs)) \o EncStrs(Tail(fs))
RECURSIVE EncSubFilters(_)
EncSubFilters(fs) == IF fs = << >> THEN << >> ELSE Str(Head(fs)[1]) \o <<Head(fs)[2]>> \o EncSubFilters(Tail(fs))

IdType(t) == CASE t = "PUBACK" -> 64 [] t = "PUBREC" -> 80 [] t = "PUBREL" -> 98 [] t = "PUBCOMP" -> 112 [] OTHER -> 176

EncConnect(p) ==
  LET flags == (IF p.user # << >> THEN 128 ELSE 0) + (IF p.pass # << >> THEN 64 ELSE 0)
               + (IF p.will # << >> THEN 4 + p.will[1].q * 8 + p.will[1].retain * 32 ELSE 0) + p.clean * 2
  IN Frame(16, MQTTName \o <<4, flags>> \o U16(p.ka) \o Str(p.cid)
               \o (IF p.will # << >> THEN Str(p.will[1].topic) \o Str(p.will[1].msg) ELSE << >>)
               \o (IF p.user # << >> THEN Str(p.user[1]) ELSE << >>)
               \o (IF p.pass # << >> THEN Str(p.pass[1]) ELSE << >>))

EncPublishHeader(p) ==
  LET vh == Str(p.topic) \o (IF p.q > 0 THEN U16(p.id) ELSE << >>) IN
  <<48 + p.dup * 8 + p.q * 2 + p.retain>> \o VarEnc(Len(vh) + p.psize) \o vh

Enc(p) ==
  CASE p.t = "CONNECT" -> EncConnect(p)
    [] p.t = "CONNACK" -> <<32, 2, p.sp, p.rc>>
    [] p.t = "PUBLISH" -> EncPublishHeader(p)
    [] p.t \in {"PUBACK", "PUBREC", "PUBREL", "PUBCOMP", "UNSUBACK"} -> Frame(IdType(p.t), U16(p.id))
    [] p.t = "SUBSCRIBE" -> Frame(130, U16(p.id) \o EncSubFilters(p.filters))
    [] p.t = "SUBACK" -> Frame(144, U16(p.id) \o p.codes)
    [] p.t = "UNSUBSCRIBE" -> Frame(162, U16(p.id) \o EncStrs(p.filters))
    [] p.t = "PINGREQ" -> <<192, 0>>
    [] p.t = "PINGRESP" -> <<208, 0>>
    [] OTHER -> <<224, 0>>

\* ---------------------------------------------------------------- decoders
DecId(t, b, i, lim) ==
  IF lim - i # 2 THEN E("length")
  ELSE LET id == b[i] * 256 + b[i + 1] IN
       IF id = 0 THEN E("zero-id") ELSE [c |-> "OK", p |-> [t |-> t, id |-> id]]

DecPublishB(b0, b, i, bound, flim) ==
  LET q == (b0 \div 2) % 4 IN
  IF q = 3 THEN E("qos3")
  ELSE LET tp == RdStr(b, i, bound) IN
  IF ~tp.ok THEN E(tp.why)
  ELSE LET id == IF q > 0 THEN RdU16(b, tp.i, bound) ELSE Okv(0, tp.i) IN
  IF ~id.ok THEN E(id.why)
  ELSE IF q > 0 /\ id.v = 0 THEN E("zero-id")
  ELSE [c |-> "OK",
        p |-> [t |-> "PUBLISH", dup |-> (b0 \div 8) % 2, retain |-> b0 % 2, q |-> q, topic |-> tp.v, id |-> id.v,
               psize |-> flim - id.i],
        payloadAt |-> id.i]

DecConnect(b, i, lim) ==
  IF i + 10 > lim THEN E("length")
  ELSE IF SubSeq(b, i, i + 5) # MQTTName THEN E("protocol-name")
  ELSE IF b[i + 6] # 4 THEN E("protocol-level")
  ELSE LET flags == b[i + 7]
           ka == b[i + 8] * 256 + b[i + 9] IN
  IF flags % 2 = 1 THEN E("reserved-flag")
  ELSE LET cid == RdStr(b, i + 10, lim) IN
  IF ~cid.ok THEN E(cid.why)
  ELSE LET hasWill == (flags \div 4) % 2 = 1
           wt == IF hasWill THEN RdStr(b, cid.i, lim) ELSE Okv(<< >>, cid.i) IN
  IF ~wt.ok THEN E(wt.why)
  ELSE LET wm == IF hasWill THEN RdBin(b, wt.i, lim) ELSE Okv(<< >>, wt.i) IN
  IF ~wm.ok THEN E(wm.why)
  ELSE IF hasWill /\ (flags \div 8) % 4 = 3 THEN E("qos3")
  ELSE IF ~hasWill /\ (flags \div 8) % 8 # 0 THEN E("will-flags-without-will")
  ELSE LET u == IF flags >= 128 THEN RdStr(b, wm.i, lim) ELSE Okv(0, wm.i) IN
  IF ~u.ok THEN E(u.why)
  ELSE LET pw == IF (flags \div 64) % 2 = 1 THEN RdBin(b, u.i, lim) ELSE Okv(0, u.i) IN
  IF ~pw.ok THEN E(pw.why)
  ELSE IF pw.i # lim THEN E("length")
  ELSE IF flags < 128 /\ (flags \div 64) % 2 = 1 THEN E("password-without-user")
  ELSE IF cid.v = << >> /\ (flags \div 2) % 2 = 0 THEN E("empty-client-id-without-clean-session")   \* [MQTT-3.1.3-8]
  ELSE [c |-> "OK",
        p |-> [t |-> "CONNECT", clean |-> (flags \div 2) % 2, ka |-> ka,
               will |-> IF hasWill THEN <<[q |-> (flags \div 8) % 4, retain |-> (flags \div 32) % 2,
                                          topic |-> wt.v, msg |-> wm.v]>> ELSE << >>,
               cid |-> cid.v,
               user |-> IF flags >= 128 THEN <<u.v>> ELSE << >>,
               pass |-> IF (flags \div 64) % 2 = 1 THEN <<pw.v>> ELSE << >>]]

RECURSIVE RdSubFilters(_, _, _, _)
RdSubFilters(b, i, lim, acc) ==
  IF i = lim THEN Okv(acc, i)
  ELSE LET f == RdStr(b, i, lim) IN
       IF ~f.ok THEN f
       ELSE IF f.i + 1 > lim THEN Err("length")
       ELSE IF b[f.i] = 3 THEN Err("qos3")
       ELSE IF b[f.i] > 3 THEN Err("reserved-flag")
       ELSE RdSubFilters(b, f.i + 1, lim, Append(acc, <<f.v, b[f.i]>>))

RECURSIVE RdStrs(_, _, _, _)
RdStrs(b, i, lim, acc) ==
  IF i = lim THEN Okv(acc, i)
  ELSE LET f == RdStr(b, i, lim) IN IF ~f.ok THEN f ELSE RdStrs(b, f.i, lim, Append(acc, f.v))

DecSubscribe(b, i, lim) ==
  LET id == RdU16(b, i, lim) IN
  IF ~id.ok THEN E(id.why) ELSE IF id.v = 0 THEN E("zero-id")
  ELSE LET fs == RdSubFilters(b, id.i, lim, << >>) IN
  IF ~fs.ok THEN E(fs.why) ELSE IF fs.v = << >> THEN E("no-filters")
  ELSE [c |-> "OK", p |-> [t |-> "SUBSCRIBE", id |-> id.v, filters |-> fs.v]]

DecUnsubscribe(b, i, lim) ==
  LET id == RdU16(b, i, lim) IN
  IF ~id.ok THEN E(id.why) ELSE IF id.v = 0 THEN E("zero-id")
  ELSE LET fs == RdStrs(b, id.i, lim, << >>) IN
  IF ~fs.ok THEN E(fs.why) ELSE IF fs.v = << >> THEN E("no-filters")
  ELSE [c |-> "OK", p |-> [t |-> "UNSUBSCRIBE", id |-> id.v, filters |-> fs.v]]

DecSubAck(b, i, lim) ==
  LET id == RdU16(b, i, lim) IN
  IF ~id.ok THEN E(id.why) ELSE IF id.v = 0 THEN E("zero-id")
  ELSE LET codes == SubSeq(b, id.i, lim - 1) IN
  IF \E k \in 1..Len(codes) : codes[k] \notin {0, 1, 2, 128} THEN E("return-code")
  ELSE [c |-> "OK", p |-> [t |-> "SUBACK", id |-> id.v, codes |-> codes]]

DecV(b, maxSize, virt) ==
  IF Len(b) < 2 THEN [c |-> "MORE"]
  ELSE LET rl == RdVar(b, 2, Len(b) + 1) IN
  IF ~rl.ok /\ rl.why = "varint" THEN E("varint")
  ELSE IF ~rl.ok THEN [c |-> "MORE"]
  ELSE IF maxSize > 0 /\ rl.v > maxSize THEN E("oversize")
  ELSE LET i == rl.i
           lim == rl.i + rl.v
           b0 == b[1]
           t == b0 \div 16 IN
  IF Len(b) + virt + 1 < lim THEN [c |-> "MORE", need |-> lim - 1]
  ELSE LET r ==
         CASE t = 3 -> DecPublishB(b0, b, i, IF lim > Len(b) + 1 THEN Len(b) + 1 ELSE lim, lim)
           [] b0 = 16 -> DecConnect(b, i, lim)
           [] b0 = 32 -> IF rl.v # 2 THEN E("length")
                         ELSE IF b[i] > 1 THEN E("reserved-flag")
                         ELSE IF b[i + 1] > 5 THEN E("return-code")
                         ELSE [c |-> "OK", p |-> [t |-> "CONNACK", sp |-> b[i], rc |-> b[i + 1]]]
           [] b0 = 64 -> DecId("PUBACK", b, i, lim)
           [] b0 = 80 -> DecId("PUBREC", b, i, lim)
           [] b0 = 98 -> DecId("PUBREL", b, i, lim)
           [] b0 = 112 -> DecId("PUBCOMP", b, i, lim)
           [] b0 = 130 -> DecSubscribe(b, i, lim)
           [] b0 = 144 -> DecSubAck(b, i, lim)
           [] b0 = 162 -> DecUnsubscribe(b, i, lim)
           [] b0 = 176 -> DecId("UNSUBACK", b, i, lim)
           [] b0 = 192 -> IF rl.v = 0 THEN [c |-> "OK", p |-> [t |-> "PINGREQ"]] ELSE E("ping-length")
           [] b0 = 208 -> IF rl.v = 0 THEN [c |-> "OK", p |-> [t |-> "PINGRESP"]] ELSE E("ping-length")
           [] b0 = 224 -> IF rl.v = 0 THEN [c |-> "OK", p |-> [t |-> "DISCONNECT"]] ELSE E("ping-length")
           [] OTHER -> E("packet-type-or-flags")
       IN IF r.c = "OK" THEN r @@ [used |-> lim - 1, rl |-> rl.v] ELSE r

Dec(b, maxSize) == DecV(b, maxSize, 0)
\* ("return-code": a SUBACK / CONNACK return code the specification reserves - the MQTT 3.1.1 form of an unknown reason code)
Must(why) == why \in {"length", "varint", "zero-id", "qos3", "utf8", "oversize", "return-code"}
=============================================================================
