------------------------------ MODULE Endpoint ------------------------------
(***************************************************************************)
(* Implementation-shaped model of the inbound side of one ntex-mqtt        *)
(* connection, written as FUNCTIONS on an explicit state record so that    *)
(* "run the connection to quiescence" (what the deterministic harness does *)
(* after every command) is a loop inside one step:                         *)
(*                                                                         *)
(*   io dispatcher (src/io.rs)      response queue with inline future and  *)
(*                                  spawned tasks, handle_result, error    *)
(*                                  records queued behind pending          *)
(*                                  responses, read pause while the service*)
(*                                  is not ready                           *)
(*   protocol dispatchers           src/v3/dispatcher.rs, src/v5/..,       *)
(*                                  src/v3/client/.., src/v5/client/..:    *)
(*                                  in-flight id set, QoS 2 state,         *)
(*                                  duplicate handling, PUBREL, routing of *)
(*                                  SUBSCRIBE / UNSUBSCRIBE / PINGREQ      *)
(*   control pipeline               BufferService(16) in front of          *)
(*                                  InFlightService(1): direct call, parked*)
(*                                  call, release on a readiness poll, and *)
(*                                  the readiness HOLD while a released    *)
(*                                  call runs (ntex-util buffer.rs:        *)
(*                                  `next_call` guard)                     *)
(*   application handlers           gated (complete on command) or armed   *)
(*                                  (complete inside the call); the armed  *)
(*                                  outcomes are a FIFO consumed by        *)
(*                                  whichever handler starts next          *)
(*                                                                         *)
(* A step consumes one harness command and returns the new state and the   *)
(* events the real harness records for it.  The same functions are used    *)
(* (a) by the TLC model (MC_Endpoint: every command sequence within bounds,*)
(* monitor ProtoMon composed as an invariant, behaviours exported for      *)
(* replay) and (b) by the trace validator (EndpointConform: every recorded *)
(* run is stepped through the model, emitted events must equal recorded    *)
(* ones).                                                                  *)
(***************************************************************************)
EXTENDS Naturals, Integers, Sequences, FiniteSets, TLC

CONSTANTS
  Ver,        \* 3 | 5
  Role,       \* "server" | "client"
  GateProto   \* BOOLEAN: protocol-control handlers are gated (else they answer inside the call)

E(e, k, s, id, q, r, n, x) == [e |-> e, k |-> k, s |-> s, id |-> id, q |-> q, r |-> r, n |-> n, x |-> x]
Quiet == E("quiet", "alive", 0, 0, 0, 0, 0, "")

None == [k |-> "NONE", id |-> 0, rc |-> 0]        \* Ok(None)
Pend == [k |-> "PEND", id |-> 0, rc |-> 0]        \* ServiceResult::Pending
Resp(k, id, rc) == [k |-> k, id |-> id, rc |-> rc]
ErrRec(kind) == [k |-> "ERR", id |-> IF kind = "stop_proto" THEN 1 ELSE 2, rc |-> 0]
IsErr(r) == r.k = "ERR"
ErrKind(r) == IF r.id = 1 THEN "stop_proto" ELSE "stop_error"

InitH == IF Role = "server" THEN 2 ELSE 1       \* the handshake handler was h = 1

Init0 == [ alive   |-> TRUE,
           ioq     |-> << >>,     \* response queue of io.rs: Seq of [n, r]
           inline  |-> 0,         \* n of the request whose future the dispatcher polls inline (0 = none)
           err     |-> "none",    \* state.error of io.rs (class of the stored error)
           ids     |-> {},        \* in-flight id set of the protocol dispatcher
           q2rec   |-> {},        \* ids of QoS 2 publishes whose PUBREC went out
           gates   |-> << >>,     \* handlers waiting for the application: Seq of [h, n, kind, id, q]
           ctlRun  |-> 0,         \* n of the control request whose handler runs (0 = none)
           held    |-> FALSE,     \* that request was released from the buffer: readiness is held until it ends
           ctlBuf  |-> << >>,     \* control requests parked in the BufferService: Seq of [n, kind, id]
           rbuf    |-> << >>,     \* packets written by the peer and not yet read by the dispatcher
           armed   |-> << >>,     \* armed handler outcomes (FIFO)
           nextH   |-> InitH,
           narr    |-> 0,
           closed  |-> FALSE,     \* the io was closed by the endpoint itself (sink.close()): later writes are dropped
           ev      |-> << >> ]    \* events of the current command

Emit(st, evs) == [st EXCEPT !.ev = @ \o evs]
OutEv(r) == E("out", r.k, 0, r.id, 0, r.rc, 0, "")
Write(st, r) == IF r.k = "NONE" \/ st.closed THEN st ELSE Emit(st, << OutEv(r) >>)

\* MqttSink::close(): the v3 client writes DISCONNECT first; then the io is closed
CloseSink(st) ==
  IF st.closed THEN st
  ELSE [(IF Ver = 3 /\ Role = "client" THEN Emit(st, << E("out", "DISCONNECT", 0, 0, 0, 0, 0, "") >>) ELSE st)
          EXCEPT !.closed = TRUE]
\* MQTT 3.1.1 dispatchers close the sink when the control service fails (Inner::control, Err branch); the v3
\* client routes publishes through the control service as well
FailClose(st, isCtl) == IF Ver = 3 /\ (isCtl \/ Role = "client") THEN CloseSink(st) ELSE st

----------------------------------------------------------------------------
\* Control::Stop and shutdown.  The connection task completes at once unless the BufferService still
\* holds a released call (next_call guard) or parked calls: then its shutdown waits for them.
Stop(st, kind) ==
  LET h == st.nextH
      rc == IF kind = "stop_proto" THEN 130 ELSE 131
      s1 == Emit(st, << E("ctl", kind, h, 0, 0, 0, 0, ""), E("ctl_done", "ok", h, 0, 0, 0, 0, "") >>
                     \o (IF (st.ctlRun # 0 /\ st.held) \/ st.ctlBuf # << >> THEN << >>
                         ELSE << E("conn_done", "ok", 0, 0, 0, 0, 0, "") >>))
      s2 == IF Ver = 5 THEN Write(s1, Resp("DISCONNECT", 0, rc)) ELSE s1
  IN [CloseSink(s2) EXCEPT !.alive = FALSE, !.nextH = h + 1]

\* the dispatcher notices state.error at its next poll
CheckErr(st) == IF st.err # "none" /\ st.alive THEN Stop(st, st.err) ELSE st

\* act on one result: write the response or remember the error (the last error wins)
Act(st, r) == IF IsErr(r) THEN [st EXCEPT !.err = ErrKind(r)] ELSE Write(st, r)

\* drain Ready entries at the front of the queue
RECURSIVE Drain(_)
Drain(st) ==
  IF st.ioq = << >> \/ Head(st.ioq).r = Pend THEN st
  ELSE Drain(Act([st EXCEPT !.ioq = Tail(@)], Head(st.ioq).r))

\* handle_result(r, idx of request n), called from a task (inline future polled by the dispatcher or spawned)
HandleRes(st, n, r) ==
  LET s1 == [st EXCEPT !.inline = IF @ = n THEN 0 ELSE @] IN
  IF s1.ioq # << >> /\ Head(s1.ioq).n = n
    THEN CheckErr(Drain(Act([s1 EXCEPT !.ioq = Tail(@)], r)))
    ELSE IF IsErr(r) THEN CheckErr([s1 EXCEPT !.err = ErrKind(r)])       \* the slot stays Pending for ever
    ELSE [s1 EXCEPT !.ioq = [i \in 1..Len(@) |-> IF @[i].n = n THEN [n |-> n, r |-> r] ELSE @[i]]]

\* call_service: the result is ready inside the call
InCall(st, n, r) ==
  IF st.inline # 0
    THEN HandleRes([st EXCEPT !.ioq = Append(@, [n |-> n, r |-> Pend])], n, r)      \* spawned task
  ELSE IF st.ioq = << >> THEN CheckErr(Act(st, r))
  ELSE IF IsErr(r) THEN CheckErr([st EXCEPT !.err = ErrKind(r)])     \* an error does not wait behind pending responses
  ELSE [st EXCEPT !.ioq = Append(@, [n |-> n, r |-> r])]

\* call_service: the future is pending
Pending(st, n) == [st EXCEPT !.ioq = Append(@, [n |-> n, r |-> Pend]), !.inline = IF @ = 0 THEN n ELSE @]

----------------------------------------------------------------------------
\* results of handlers
\* "nack" = the application's error maps to a negative acknowledgement (MQTT 5 only; in the v5 client the
\* handler returns the acknowledgement itself, so it is not a failure there even for QoS 0)
PubFails(q, outcome) == outcome = "err" \/ (outcome = "nack" /\ (Ver = 3 \/ (q = 0 /\ Role = "server")))
\* the client role acknowledges QoS 2 like QoS 1 (publish_fn of the client dispatchers: known finding C03)
PubResult(q, id, outcome) ==
  IF PubFails(q, outcome) THEN ErrRec("stop_error")
  ELSE IF q = 0 THEN None
  ELSE Resp(IF q = 2 /\ Role = "server" THEN "PUBREC" ELSE "PUBACK", id, IF outcome = "nack" THEN 135 ELSE 0)

\* bookkeeping when a publish handler has completed
PubDone(st, q, id, outcome) ==
  IF PubFails(q, outcome) THEN st
  ELSE IF Role = "client" THEN [st EXCEPT !.ids = @ \ {id}]
  ELSE [st EXCEPT !.ids = IF q = 1 \/ (q = 2 /\ outcome = "nack") THEN @ \ {id} ELSE @,
                  !.q2rec = IF q = 2 /\ outcome = "ok" THEN @ \cup {id} ELSE @]

CtlResult(kind, id, outcome) ==
  IF outcome # "ok" THEN ErrRec("stop_error")
  ELSE CASE kind = "pubrel" -> Resp("PUBCOMP", id, 0)
         [] kind = "sub" -> Resp("SUBACK", id, 1)
         [] kind = "unsub" -> Resp("UNSUBACK", id, 0)
         [] OTHER -> Resp("PINGRESP", 0, 0)

CtlDone(st, kind, id, outcome) ==
  [st EXCEPT !.ids = IF outcome = "ok" /\ kind \in {"sub", "unsub", "pubrel"} THEN @ \ {id} ELSE @,
             !.ctlRun = 0, !.held = FALSE]

HStartId(kind, id) == IF Ver = 5 /\ kind # "ping" THEN id ELSE 0

\* a publish handler starts for request n
StartPub(st, n, q, id) ==
  LET h == st.nextH
      s1 == [Emit(st, << E("h_start", "pub", h, id, q, 0, 1, "t") >>) EXCEPT !.nextH = h + 1,
                !.ids = IF q > 0 THEN @ \cup {id} ELSE @]
  IN IF s1.armed # << >>
       THEN LET o == Head(s1.armed)
                s2 == PubDone([Emit(s1, << E("h_end", o, h, 0, 0, 135, 0, "") >>) EXCEPT !.armed = Tail(@)], q, id, o)
                s3 == IF PubFails(q, o) THEN FailClose(s2, FALSE) ELSE s2
            IN InCall(s3, n, PubResult(q, id, o))
       ELSE Pending([s1 EXCEPT !.gates = Append(@, [h |-> h, n |-> n, kind |-> "pub", id |-> id, q |-> q])], n)

\* a protocol-control handler starts for request n (direct call or released from the buffer);
\* returns <<state, result or Pend>>
StartCtl(st, n, kind, id, released) ==
  LET h == st.nextH
      s1 == [Emit(st, << E("h_start", kind, h, HStartId(kind, id), 0, 0, 0, "") >>) EXCEPT !.nextH = h + 1,
                !.ctlRun = n, !.held = released]
  IN IF s1.armed # << >> \/ ~GateProto
       THEN LET o == IF s1.armed # << >> THEN Head(s1.armed) ELSE "ok"
                s2 == CtlDone([Emit(s1, << E("h_end", o, h, 0, 0, 135, 0, "") >>)
                                 EXCEPT !.armed = IF @ # << >> THEN Tail(@) ELSE @], kind, id, o)
                s3 == IF o # "ok" THEN FailClose(s2, TRUE) ELSE s2
            IN << s3, CtlResult(kind, id, o) >>
       ELSE << [s1 EXCEPT !.gates = Append(@, [h |-> h, n |-> n, kind |-> kind, id |-> id, q |-> 0])], Pend >>

\* a control request reaches the pipeline from call_service
CtlArrive(st, n, kind, id) ==
  LET s0 == [st EXCEPT !.ids = IF kind \in {"sub", "unsub"} THEN @ \cup {id} ELSE @,
                       !.q2rec = IF kind = "pubrel" THEN @ \ {id} ELSE @]
  IN IF Role = "client" \/ (s0.ctlRun = 0 /\ s0.ctlBuf = << >>)
       THEN LET x == StartCtl(s0, n, kind, id, FALSE) IN
            IF x[2] = Pend THEN Pending(x[1], n) ELSE InCall(x[1], n, x[2])
       ELSE Pending([s0 EXCEPT !.ctlBuf = Append(@, [n |-> n, kind |-> kind, id |-> id])], n)

----------------------------------------------------------------------------
\* the dispatcher reads one packet
Dispatch(st, p) ==
  LET n == p.n
      Viol == InCall(st, n, ErrRec("stop_proto"))
  IN
  CASE p.kind \in {"pub0", "pub1", "pub2"} ->
         LET q == IF p.kind = "pub0" THEN 0 ELSE IF p.kind = "pub1" THEN 1 ELSE 2
             id == IF q = 0 THEN 0 ELSE p.id IN
         IF q > 0 /\ id \in st.ids
           THEN IF Ver = 3 THEN Viol
                \* v5: PUBACK 0x91 written at once through the sink; the request yields None
                ELSE InCall(Emit(st, << E("out", "PUBACK", 0, id, 0, 145, 0, "") >>), n, None)
           ELSE StartPub(st, n, q, id)
    [] p.kind = "pubrel" ->
         IF p.id \in st.q2rec THEN CtlArrive(st, n, "pubrel", p.id)
         ELSE IF Ver = 3 THEN Viol
         ELSE InCall(st, n, Resp("PUBCOMP", p.id, 146))
    [] p.kind \in {"sub", "unsub"} ->
         IF Role = "client" THEN Viol
         ELSE IF p.id \in st.ids
           THEN IF Ver = 3 THEN Viol
                ELSE InCall(Emit(st, << E("out", IF p.kind = "sub" THEN "SUBACK" ELSE "UNSUBACK", 0, p.id, 0, 145, 0, "") >>), n, None)
           ELSE CtlArrive(st, n, p.kind, p.id)
    [] OTHER -> IF Role = "client" THEN Viol ELSE CtlArrive(st, n, "ping", 0)

\* run the connection's own tasks until nothing is runnable: a readiness poll releases the next parked
\* control call once the inner service is free; the dispatcher reads the next packet unless readiness
\* is held by a released call
RECURSIVE Quiesce(_)
Quiesce(st) ==
  IF ~st.alive THEN st
  ELSE IF st.ctlRun = 0 /\ st.ctlBuf # << >>
    THEN LET c == Head(st.ctlBuf)
             x == StartCtl([st EXCEPT !.ctlBuf = Tail(@)], c.n, c.kind, c.id, TRUE)
         IN Quiesce(IF x[2] = Pend THEN x[1] ELSE HandleRes(x[1], c.n, x[2]))
  ELSE IF ~(st.ctlRun # 0 /\ st.held) /\ st.rbuf # << >>
    THEN Quiesce(Dispatch([st EXCEPT !.rbuf = Tail(@)], Head(st.rbuf)))
  ELSE st

InName(kind) == CASE kind \in {"pub0", "pub1", "pub2"} -> "PUBLISH" [] kind = "pubrel" -> "PUBREL"
                  [] kind = "sub" -> "SUBSCRIBE" [] kind = "unsub" -> "UNSUBSCRIBE" [] OTHER -> "PINGREQ"

\* command: (arm an outcome and) the peer writes one packet
DoIn(st, kind, id, imm, outcome) ==
  LET n == st.narr + 1
      q == IF kind = "pub1" THEN 1 ELSE IF kind = "pub2" THEN 2 ELSE 0
      pid == IF kind \in {"pub0", "ping"} THEN 0 ELSE id
      inEv == IF q > 0 \/ kind = "pub0" THEN E("in", "PUBLISH", 0, pid, q, 0, 1, "t") ELSE E("in", InName(kind), 0, pid, 0, 0, 0, "")
      s1 == [Emit(st, << inEv >>) EXCEPT !.narr = n, !.armed = IF imm THEN Append(@, outcome) ELSE @,
                !.rbuf = Append(@, [n |-> n, kind |-> kind, id |-> id])]
  IN Quiesce(s1)

\* command: the application's handler h finishes with the given outcome
DoComplete(st, gi, outcome) ==
  LET g == st.gates[gi]
      s1 == [Emit(st, << E("h_end", outcome, g.h, 0, 0, 135, 0, "") >>)
               EXCEPT !.gates = SubSeq(@, 1, gi - 1) \o SubSeq(@, gi + 1, Len(@))]
  IN IF g.kind = "pub"
       THEN LET s2 == IF PubFails(g.q, outcome) THEN FailClose(s1, FALSE) ELSE s1 IN
            Quiesce(HandleRes(PubDone(s2, g.q, g.id, outcome), g.n, PubResult(g.q, g.id, outcome)))
       ELSE LET s2 == IF outcome # "ok" THEN FailClose(s1, TRUE) ELSE s1 IN
            Quiesce(HandleRes(CtlDone(s2, g.kind, g.id, outcome), g.n, CtlResult(g.kind, g.id, outcome)))

\* events of the finished command, and the state ready for the next one
Evs(st) == st.ev
Next0(st) == [st EXCEPT !.ev = << >>]

QueueOk(st) == /\ st.inline = 0 \/ \E i \in 1..Len(st.ioq) : st.ioq[i].n = st.inline
               /\ \A i \in 1..Len(st.gates) : \E j \in 1..Len(st.ioq) : st.ioq[j].n = st.gates[i].n
=============================================================================
