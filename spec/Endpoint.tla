------------------------------ MODULE Endpoint ------------------------------
(***************************************************************************)
(* Implementation-shaped model of the inbound side of one ntex-mqtt        *)
(* connection, written as FUNCTIONS on an explicit state record so that    *)
(* "run the connection to quiescence" (what the deterministic harness does *)
(* after every command) is a loop inside one step:                         *)
(*                                                                         *)
(*   io dispatcher (src/io.rs)      response queue with inline future and  *)
(*                                  spawned tasks (polled once before the  *)
(*                                  next readiness check), handle_result,  *)
(*                                  errors never wait behind responses,    *)
(*                                  read pause while the service is not    *)
(*                                  ready                                  *)
(*   in-flight limiter              src/inflight.rs (v3 server: count and  *)
(*                                  bytes, v5 server: bytes) and the       *)
(*                                  ntex-util InFlightService of the v3    *)
(*                                  client: a request is charged from its  *)
(*                                  dispatch until its result exists       *)
(*   protocol dispatchers           src/v3/dispatcher.rs, src/v5/..,       *)
(*                                  src/v3/client/.., src/v5/client/..:    *)
(*                                  in-flight id set, QoS 2 state,         *)
(*                                  duplicate handling, Receive Maximum,   *)
(*                                  maximum QoS, topic aliases, PUBREL,    *)
(*                                  SUBSCRIBE / UNSUBSCRIBE / PINGREQ      *)
(*   control pipeline               BufferService(16) in front of          *)
(*                                  InFlightService(1): direct call, parked*)
(*                                  call, release on a readiness poll, and *)
(*                                  the readiness HOLD while a released    *)
(*                                  call runs (ntex-util buffer.rs:        *)
(*                                  `next_call` guard)                     *)
(*   streamed payloads              a PUBLISH whose payload is not complete *)
(*                                  when its header is decoded starts its   *)
(*                                  handler at once; the rest arrives as    *)
(*                                  PayloadChunk requests, which bypass the *)
(*                                  limiter, are fed to the payload slot    *)
(*                                  (sink.payload) and yield no response;   *)
(*                                  a handler may read the payload to its   *)
(*                                  end (it then completes when the last    *)
(*                                  chunk has been fed, after the           *)
(*                                  dispatcher's pass) or abandon it (the   *)
(*                                  slot stays until the last chunk)        *)
(*   application handlers           gated (complete on command) or armed   *)
(*                                  (complete inside the call); the armed  *)
(*                                  outcomes are a FIFO consumed by        *)
(*                                  whichever handler starts next          *)
(*                                                                         *)
(* A step consumes one harness command and returns the new state and the   *)
(* events the real harness records for it.  The same functions are used    *)
(* (a) by the TLC model (MC_Endpoint: every command sequence within bounds,*)
(* monitor ProtoMon composed as an invariant, behaviours exported for      *)
(* replay) and (b) by the trace validator (EndpointConform: every recorded *)
(* run is stepped through the model, emitted events must equal recorded    *)
(* ones).                                                                  *)
(***************************************************************************)
EXTENDS Naturals, Integers, Sequences, FiniteSets, TLC

CONSTANTS
  Ver,          \* 3 | 5
  Role,         \* "server" | "client"
  GateProto,    \* BOOLEAN: protocol-control handlers are gated (else they answer inside the call)
  MaxRecv,      \* max_receive: concurrent requests (0 = unlimited); MQTT 3.1.1 endpoints only
  MaxRecvSize,  \* max_receive_size: bytes of concurrent requests (0 = unlimited); servers only
  RecvMax,      \* MQTT 5 Receive Maximum announced by this endpoint (0 = none)
  MaxQos,       \* maximum QoS accepted (servers)
  AliasMax,     \* MQTT 5 Topic Alias Maximum announced by this endpoint
  GateStop,     \* BOOLEAN: the connection-control service answers Control::Stop only on command
  MinChunk      \* min_chunk_size of the codec: after the header, a piece of a streamed payload is handed on when at least
                \* that many bytes are buffered (0: never) or the payload is complete

E(e, k, s, id, q, r, n, x) == [e |-> e, k |-> k, s |-> s, id |-> id, q |-> q, r |-> r, n |-> n, x |-> x]
Quiet == E("quiet", "alive", 0, 0, 0, 0, 0, "")

None == [k |-> "NONE", id |-> 0, rc |-> 0]        \* Ok(None)
Pend == [k |-> "PEND", id |-> 0, rc |-> 0]        \* ServiceResult::Pending
Resp(k, id, rc) == [k |-> k, id |-> id, rc |-> rc]
\* Err(..): class of the Stop it leads to and the MQTT 5 DISCONNECT reason code
ErrRec(kind, rc) == [k |-> "ERR", id |-> IF kind = "stop_proto" THEN 1 ELSE 2, rc |-> rc]
IsErr(r) == r.k = "ERR"
ErrKind(r) == IF r.id = 1 THEN "stop_proto" ELSE "stop_error"
NoErr == [kind |-> "none", rc |-> 0]

InitH == IF Role = "server" THEN 2 ELSE 1       \* the handshake handler was h = 1
TopicName(topic) == IF topic = "long" THEN "tttttttttttttttttttttttttttttttttttttttt" ELSE topic

Init0 == [ alive   |-> TRUE,      \* the io dispatcher is in its Processing state (reads and dispatches)
           phase   |-> "run",     \* run | stop (Control::Stop is being handled) | done (shut down)
           ioq     |-> << >>,     \* response queue of io.rs: Seq of [n, r, sz]
           inline  |-> 0,         \* n of the request whose future the dispatcher polls inline (0 = none)
           err     |-> NoErr,     \* state.error of io.rs
           ids     |-> {},        \* in-flight id set of the protocol dispatcher
           pubIds  |-> {},        \* ... those that belong to QoS 1/2 publishes (MQTT 5: counted against Receive Maximum)
           q2rec   |-> {},        \* ids of QoS 2 publishes whose PUBREC went out
           aliases |-> << >>,     \* MQTT 5 topic alias bindings: Seq of [a, topic]
           gates   |-> << >>,     \* handlers waiting for the application: Seq of [h, n, kind, id, q]
           ctlRun  |-> 0,         \* n of the control request whose handler runs (0 = none)
           nc      |-> 0,         \* BufferService `next_call` guard of the last released call: 0 none, 1 stored (the
                                  \* ready() that released it has returned), 2 taken by a ready() that is pending on it
           stopG   |-> FALSE,     \* phase "stop": the Stop handler has not answered yet
           stopH   |-> 0, stopRc |-> 0,
           ctlBuf  |-> << >>,     \* control requests parked in the BufferService: Seq of [n, kind, id]
           rbuf    |-> << >>,     \* packets written by the peer and not yet read by the dispatcher
           armed   |-> << >>,     \* armed handler outcomes (FIFO)
           nextH   |-> InitH,
           narr    |-> 0,
           closed  |-> FALSE,     \* the io was closed by the endpoint itself (sink.close()): later writes are dropped
           peerGone |-> FALSE,    \* the peer closed its end: noticed only where the dispatcher reads (a paused read does
                                  \* not see the end of the stream); what is written from now on is not observed
           owe     |-> 0,         \* PEER side: payload bytes it still has to write for its last (streamed) PUBLISH
           part    |-> 0,         \* payload bytes held by the codec (pieces below min_chunk_size wait for the last one)
           slot    |-> 0,         \* sink.payload: h of the handler whose payload the next chunks are fed to (0 = empty)
           strm    |-> FALSE,     \* limiter flag `publish`: a streamed PUBLISH was dispatched and its last chunk was not
           rdy     |-> FALSE,     \* the pending readiness future has already obtained the readiness of the inner
                                  \* service (join in InFlightServiceImpl::ready) and only waits for the limiter
           ch      |-> 0,         \* scheduling choice of the current command (see Quiesce)
           cur     |-> 0,         \* bytes the limiter charges for the request being dispatched
           ev      |-> << >> ]    \* events of the current command

Emit(st, evs) == [st EXCEPT !.ev = @ \o evs]
\* a handler waiting for the application.  sz > 0: its payload is streamed (sz declared bytes, got of them fed so
\* far); wait: the application has let it go on with this outcome and it reads the payload to its end first
G(h, n, kind, id, q) == [h |-> h, n |-> n, kind |-> kind, id |-> id, q |-> q, sz |-> 0, got |-> 0, wait |-> ""]
OutEv(r) == E("out", r.k, 0, r.id, 0, r.rc, 0, "")
Write(st, r) == IF r.k = "NONE" \/ st.closed \/ st.peerGone THEN st ELSE Emit(st, << OutEv(r) >>)

\* MqttSink::close(): the v3 client writes DISCONNECT first; then the io is closed
CloseSink(st) ==
  IF st.closed THEN st
  ELSE [(IF Ver = 3 /\ Role = "client" /\ ~st.peerGone THEN Emit(st, << E("out", "DISCONNECT", 0, 0, 0, 0, 0, "") >>) ELSE st)
          EXCEPT !.closed = TRUE]
\* MQTT 3.1.1 dispatchers close the sink when the control service fails (Inner::control, Err branch); the v3
\* client routes publishes through the control service as well
FailClose(st, isCtl) == IF Ver = 3 /\ (isCtl \/ Role = "client") THEN CloseSink(st) ELSE st

----------------------------------------------------------------------------
\* Control::Stop(kind): the dispatcher leaves Processing for good; what follows (the Stop arm of the dispatcher,
\* shutdown) is `Settle` at the end of this module
Stop(st, kind, rc) ==
  LET h == st.nextH
      s1 == [Emit(st, << E("ctl", kind, h, 0, 0, 0, 0, "") >>)
               EXCEPT !.alive = FALSE, !.nextH = h + 1, !.phase = "stop", !.stopG = GateStop, !.stopH = h, !.stopRc = rc]
  IN IF GateStop THEN [s1 EXCEPT !.gates = Append(@, G(h, 0, "stop", rc, 0))] ELSE s1

\* the dispatcher notices state.error at its next poll
\* (only in its Processing state: errors raised after Stop are dropped silently)
CheckErr(st) == IF st.err.kind # "none" /\ st.alive THEN Stop(st, st.err.kind, st.err.rc) ELSE st
SetErr(st, r) == [st EXCEPT !.err = [kind |-> ErrKind(r), rc |-> r.rc]]

\* act on one result: write the response or remember the error (the last error wins)
Act(st, r) == IF IsErr(r) THEN SetErr(st, r) ELSE Write(st, r)

\* drain Ready entries at the front of the queue
RECURSIVE Drain(_)
Drain(st) ==
  IF st.ioq = << >> \/ Head(st.ioq).r = Pend THEN st
  ELSE Drain(Act([st EXCEPT !.ioq = Tail(@)], Head(st.ioq).r))

\* handle_result(r, idx of request n), called from a task (inline future polled by the dispatcher or spawned)
HandleRes(st, n, r) ==
  LET s1 == [st EXCEPT !.inline = IF @ = n THEN 0 ELSE @] IN
  IF s1.ioq # << >> /\ Head(s1.ioq).n = n
    THEN CheckErr(Drain(Act([s1 EXCEPT !.ioq = Tail(@)], r)))
    ELSE IF IsErr(r) THEN CheckErr(SetErr(s1, r))       \* the slot stays Pending for ever
    ELSE [s1 EXCEPT !.ioq = [i \in 1..Len(@) |-> IF @[i].n = n THEN [@[i] EXCEPT !.r = r] ELSE @[i]]]

Entry(st, n, r) == [n |-> n, r |-> r, sz |-> st.cur]

\* call_service: the result is ready inside the call
InCall(st, n, r) ==
  IF st.inline # 0
    THEN HandleRes([st EXCEPT !.ioq = Append(@, Entry(st, n, Pend))], n, r)      \* polled once, then as a spawned task
  ELSE IF st.ioq = << >> THEN CheckErr(Act(st, r))
  ELSE IF IsErr(r) THEN CheckErr(SetErr(st, r))     \* an error does not wait behind pending responses
  ELSE [st EXCEPT !.ioq = Append(@, Entry(st, n, r))]

\* call_service: the future is pending
Pending(st, n) == [st EXCEPT !.ioq = Append(@, Entry(st, n, Pend)), !.inline = IF @ = 0 THEN n ELSE @]

----------------------------------------------------------------------------
\* results of handlers
\* "nack" = the application's error maps to a negative acknowledgement (MQTT 5 only; in the v5 client the
\* handler returns the acknowledgement itself, so it is not a failure there even for QoS 0)
PubFails(q, outcome) == outcome = "err" \/ (outcome = "nack" /\ (Ver = 3 \/ (q = 0 /\ Role = "server")))
\* the client role acknowledges QoS 2 like QoS 1 (publish_fn of the client dispatchers: known finding C03)
PubResult(q, id, outcome) ==
  IF PubFails(q, outcome) THEN ErrRec("stop_error", 131)
  ELSE IF q = 0 THEN None
  ELSE Resp(IF q = 2 /\ Role = "server" THEN "PUBREC" ELSE "PUBACK", id, IF outcome = "nack" THEN 135 ELSE 0)

\* bookkeeping when a publish handler has completed
PubDone(st, q, id, outcome) ==
  IF PubFails(q, outcome) THEN st
  ELSE IF Role = "client" THEN [st EXCEPT !.ids = @ \ {id}, !.pubIds = @ \ {id}]
  ELSE IF q = 1 \/ (q = 2 /\ outcome = "nack")
    THEN [st EXCEPT !.ids = @ \ {id}, !.pubIds = @ \ {id}]
  ELSE [st EXCEPT !.q2rec = IF q = 2 /\ outcome = "ok" THEN @ \cup {id} ELSE @]

\* (protocol handlers of the harness: "err" fails, every other outcome acknowledges)
CtlFails(outcome) == outcome = "err"
CtlResult(kind, id, outcome) ==
  IF CtlFails(outcome) THEN ErrRec("stop_error", 131)
  ELSE CASE kind = "pubrel" -> Resp("PUBCOMP", id, 0)
         [] kind = "auth" -> Resp("AUTH", 0, 0)
         [] kind = "disc" -> None
         [] kind = "sub" -> Resp("SUBACK", id, 1)
         [] kind = "unsub" -> Resp("UNSUBACK", id, 0)
         [] OTHER -> Resp("PINGRESP", 0, 0)

CtlDone(st0, kind, id, outcome) ==
  LET st == IF kind = "disc" /\ Ver = 3 /\ ~CtlFails(outcome) THEN CloseSink(st0) ELSE st0 IN
  [st EXCEPT !.ids = IF ~CtlFails(outcome) /\ kind \in {"sub", "unsub", "pubrel"} THEN @ \ {id} ELSE @,
             !.pubIds = IF ~CtlFails(outcome) /\ kind = "pubrel" THEN @ \ {id} ELSE @,
             !.ctlRun = 0, !.nc = 0]

HStartId(kind, id) == IF Ver = 5 /\ kind \notin {"ping", "disc", "auth"} THEN id ELSE 0

\* a publish handler starts for request n (the in-flight id was recorded by the caller)
StartPubS(st, n, q, id, topic, plen, sent) ==
  LET h == st.nextH
      s1 == [Emit(st, << E("h_start", "pub", h, id, q, 0, plen, TopicName(topic)) >>) EXCEPT !.nextH = h + 1]
  IN IF s1.armed # << >>
       THEN LET o == Head(s1.armed)
                s2 == PubDone([Emit(s1, << E("h_end", o, h, 0, 0, 135, 0, "") >>) EXCEPT !.armed = Tail(@)], q, id, o)
                s3 == IF PubFails(q, o) THEN FailClose(s2, FALSE) ELSE s2
            IN InCall(s3, n, PubResult(q, id, o))
       ELSE IF sent < plen
         THEN \* streamed: the payload slot is taken, the handler holds the receiving end
              Pending([s1 EXCEPT !.gates = Append(@, [G(h, n, "pub", id, q) EXCEPT !.sz = plen, !.got = sent]), !.slot = h], n)
       ELSE Pending([s1 EXCEPT !.gates = Append(@, G(h, n, "pub", id, q))], n)
StartPub(st, n, q, id, topic, plen) == StartPubS(st, n, q, id, topic, plen, plen)

\* a protocol-control handler starts for request n (direct call or released from the buffer);
\* returns <<state, result or Pend>>
StartCtl(st, n, kind, id, released) ==
  LET h == st.nextH
      s1 == [Emit(st, << E("h_start", kind, h, HStartId(kind, id), 0, 0, 0, "") >>) EXCEPT !.nextH = h + 1,
                !.ctlRun = n, !.nc = IF released THEN 1 ELSE @]
  IN IF s1.armed # << >> \/ ~GateProto
       THEN LET o == IF s1.armed # << >> THEN Head(s1.armed) ELSE "ok"
                s2 == CtlDone([Emit(s1, << E("h_end", o, h, 0, 0, 135, 0, "") >>)
                                 EXCEPT !.armed = IF @ # << >> THEN Tail(@) ELSE @], kind, id, o)
                s3 == IF CtlFails(o) THEN FailClose(s2, TRUE) ELSE s2
            IN << s3, CtlResult(kind, id, o) >>
       ELSE << [s1 EXCEPT !.gates = Append(@, G(h, n, kind, id, 0))], Pend >>

\* a control request reaches the pipeline from call_service
CtlArrive(st, n, kind, id) ==
  LET s0 == [st EXCEPT !.ids = IF kind \in {"sub", "unsub"} THEN @ \cup {id} ELSE @,
                       !.q2rec = IF kind = "pubrel" THEN @ \ {id} ELSE @]
  IN IF Role = "client" \/ (s0.ctlRun = 0 /\ s0.ctlBuf = << >>)
       THEN LET x == StartCtl(s0, n, kind, id, FALSE) IN
            IF x[2] = Pend THEN Pending(x[1], n) ELSE InCall(x[1], n, x[2])
       ELSE Pending([s0 EXCEPT !.ctlBuf = Append(@, [n |-> n, kind |-> kind, id |-> id])], n)

----------------------------------------------------------------------------
\* MQTT 5 topic aliases
AliasIdx(st, a) == IF \E i \in 1..Len(st.aliases) : st.aliases[i].a = a
                     THEN CHOOSE i \in 1..Len(st.aliases) : st.aliases[i].a = a ELSE 0
\* <<ok, state, resolved topic, DISCONNECT reason code when not ok>>
Resolve(st, p) ==
  IF Ver # 5 \/ p.alias = 0 THEN << TRUE, st, p.topic, 0 >>
  ELSE LET i == AliasIdx(st, p.alias) IN
       IF p.topic = ""
         THEN (IF i = 0 THEN << FALSE, st, "", 148 >> ELSE << TRUE, st, st.aliases[i].topic, 0 >>)
         ELSE IF i > 0 THEN << TRUE, [st EXCEPT !.aliases[i].topic = p.topic], p.topic, 0 >>
         ELSE IF p.alias > AliasMax THEN << FALSE, st, "", 130 >>
         ELSE << TRUE, [st EXCEPT !.aliases = Append(@, [a |-> p.alias, topic |-> p.topic])], p.topic, 0 >>

\* the dispatcher reads one packet
Dispatch(st0, p) ==
  LET n == p.n
      st == [st0 EXCEPT !.cur = p.sz]
      Viol(s, rc) == InCall(s, n, ErrRec("stop_proto", rc))
  IN
  CASE p.kind = "pub" ->
         LET q == p.q
             id == IF q = 0 THEN 0 ELSE p.id IN
         IF q = 0
           THEN LET r == Resolve(st, p) IN
                IF r[1] THEN StartPubS(r[2], n, 0, 0, r[3], p.plen, p.sent) ELSE Viol(st, r[4])
         ELSE IF Ver = 5 /\ RecvMax # 0 /\ Cardinality(st.pubIds) >= RecvMax THEN Viol(st, 147)
         ELSE IF Ver = 5 /\ Role = "server" /\ q > MaxQos THEN Viol(st, 155)
         ELSE LET r == Resolve(st, p) IN
              \* the alias is looked up / bound BEFORE the identifier is examined: the peer has bound it even if this
              \* PUBLISH is refused, and a bad alias ends the connection whatever the identifier
              IF ~r[1] THEN Viol(st, r[4])
              ELSE IF id \in st.ids
                THEN IF Ver = 3 THEN Viol(st, 130)
                     \* v5: PUBACK 0x91 written at once through the sink; the request yields None
                     ELSE InCall(Write(r[2], Resp("PUBACK", id, 145)), n, None)
              ELSE LET s1 == [r[2] EXCEPT !.ids = @ \cup {id}, !.pubIds = @ \cup {id}] IN
                   IF Ver = 3 /\ Role = "server" /\ q > MaxQos THEN Viol(s1, 130)
                   ELSE StartPubS(s1, n, q, id, r[3], p.plen, p.sent)
    \* a further piece of a streamed payload: fed to the slot (a receiver that is gone swallows it), no response;
    \* the last piece empties the slot.  Without a slot: DecodeError::UnexpectedPayload
    [] p.kind = "chunk" ->
         IF st.slot = 0 THEN Viol(st, 131)      \* (a decode error: MQTT 5 DISCONNECT 0x83)
         ELSE LET s1 == [st EXCEPT !.gates = [i \in 1..Len(@) |-> IF @[i].h = st.slot THEN [@[i] EXCEPT !.got = @ + p.plen] ELSE @[i]],
                                   !.slot = IF p.fin THEN 0 ELSE @]
              IN InCall(s1, n, None)
    [] p.kind = "pubrel" ->
         \* (the clients accept PUBREL for any identifier that is in flight, not only for an acknowledged QoS 2 publish)
         IF p.id \in st.q2rec \/ (Role = "client" /\ p.id \in st.ids) THEN CtlArrive(st, n, "pubrel", p.id)
         ELSE IF Ver = 3 THEN Viol(st, 130)
         ELSE InCall(st, n, Resp("PUBCOMP", p.id, 146))
    [] p.kind \in {"sub", "unsub"} ->
         IF Role = "client" THEN Viol(st, 130)
         ELSE IF p.id \in st.ids
           THEN IF Ver = 3 THEN Viol(st, 130)
                ELSE InCall(Write(st, Resp(IF p.kind = "sub" THEN "SUBACK" ELSE "UNSUBACK", p.id, 145)), n, None)
           ELSE CtlArrive(st, n, p.kind, p.id)
    [] p.kind = "ping" -> IF Role = "client" THEN Viol(st, 130) ELSE CtlArrive(st, n, "ping", 0)
    \* CONNECT / CONNACK after the handshake and PINGRESP are ignored
    [] p.kind \in {"connect", "connack", "pingresp"} -> InCall(st, n, None)
    \* an acknowledgement although nothing is outstanding (the sink side is idle in this model): pkt_ack fails,
    \* the sink is closed (MQTT 5: DISCONNECT 0x83 first), the violation is reported
    [] p.kind \in {"puback", "pubrec", "pubcomp"} \/ (p.kind \in {"suback", "unsuback"} /\ Role = "client") ->
         Viol(CloseSink(IF Ver = 5 THEN Write(st, Resp("DISCONNECT", 0, 131)) ELSE st), 131)
    [] p.kind \in {"suback", "unsuback"} -> Viol(st, 130)
    [] p.kind = "auth" -> IF Role = "client" THEN Viol(st, 130) ELSE CtlArrive(st, n, "auth", 0)
    \* DISCONNECT with a Session Expiry Interval the peer may not send
    [] p.kind = "discsei" -> Viol(st, 130)
    \* the peer's DISCONNECT: MQTT 5 marks it and closes the io at once, then asks the application; the MQTT 3.1.1
    \* server asks the application and closes afterwards; the MQTT 3.1.1 client does not expect it
    [] p.kind = "disc" ->
         IF Ver = 3 /\ Role = "client" THEN Viol(st, 130)
         ELSE CtlArrive(IF Ver = 5 THEN [st EXCEPT !.closed = TRUE] ELSE st, n, "disc", 0)
    [] OTHER -> Viol(st, 130)

\* poll_recv_decode: undecodable bytes end the connection with a protocol error (only when the dispatcher
\* reads, i.e. when the service is ready), a packet is dispatched
Read(st, p) ==
  IF p.kind = "raw" THEN Stop(st, "stop_proto", 131)
  ELSE Dispatch([st EXCEPT !.strm = IF p.kind = "chunk" THEN (IF p.fin THEN FALSE ELSE @)
                                    ELSE p.kind = "pub" /\ p.sent < p.plen], p)

\* the in-flight limiter admits another request: requests are charged from dispatch until their result exists
RECURSIVE SumSz(_)
SumSz(q) == IF q = << >> THEN 0 ELSE (IF Head(q).r = Pend THEN Head(q).sz ELSE 0) + SumSz(Tail(q))
NPend(q) == Len(SelectSeq(q, LAMBDA e : e.r = Pend))
LimReady(st) ==
  \/ (Role = "server" /\ st.strm)       \* payload chunks of a streamed publish must not be blocked by the limits
  \/ /\ (Ver = 3 /\ MaxRecv > 0) => NPend(st.ioq) < MaxRecv
     /\ (Role = "server" /\ MaxRecvSize > 0) => SumSz(st.ioq) <= MaxRecvSize

\* One evaluation of the readiness of the control pipeline (BufferService::ready) by the dispatcher:
\*   - a stored `next_call` guard is taken and awaited (nothing else happens until the released call ends);
\*   - otherwise, when the inner service is free, the next parked call is released (its handler starts; its guard
\*     is stored) and the service reports ready.
ReadyEff(st) ==
  IF st.nc = 2 THEN st
  ELSE IF st.nc = 1 THEN [st EXCEPT !.nc = 2]
  ELSE IF st.ctlRun = 0 /\ st.ctlBuf # << >>
    THEN LET c == Head(st.ctlBuf)
             x == StartCtl([st EXCEPT !.ctlBuf = Tail(@)], c.n, c.kind, c.id, TRUE)
         IN IF x[2] = Pend THEN x[1] ELSE HandleRes(x[1], c.n, x[2])
  ELSE st

\* The dispatcher's poll loop in its Processing state, run until nothing is runnable.  One iteration = one poll
\* of the readiness future, which persists until it resolves:
\*   - InFlightServiceImpl::ready joins the inner readiness with the limiter: an inner readiness obtained while
\*     the limiter was exhausted is kept (`rdy`), so when a slot frees the next packet is read before the pipeline
\*     is polled again.  Whether the kept readiness survives depends on which task completed the request (the
\*     inline future polled by the dispatcher itself re-runs the readiness check through the pipeline's waiters,
\*     a spawned one does not): the model leaves that to the choice `ch` of the command (1 = evaluated afresh),
\*     both orders are explored by TLC and accepted by the trace validator;
\*   - a closed io (closed by the endpoint itself) is noticed after the readiness poll: Stop(peer-gone).
RECURSIVE Quiesce(_)
Quiesce(st) ==
  IF ~st.alive THEN st
  ELSE IF st.rdy /\ st.ch = 1 /\ LimReady(st) /\ st.ctlRun = 0 /\ st.ctlBuf # << >> THEN Quiesce([st EXCEPT !.rdy = FALSE])
  ELSE IF st.rdy
    THEN IF st.closed THEN Stop(st, "stop_peer", -1)
         ELSE IF ~LimReady(st) THEN st
         ELSE IF st.rbuf = << >> THEN (IF st.peerGone THEN Stop(st, "stop_peer", -1) ELSE Quiesce([st EXCEPT !.rdy = FALSE]))
         ELSE Quiesce(Read([st EXCEPT !.rdy = FALSE, !.rbuf = Tail(@)], Head(st.rbuf)))
  ELSE LET s1 == ReadyEff(st) IN
       IF ~s1.alive THEN s1
       ELSE IF s1.closed THEN Stop(s1, "stop_peer", -1)
       \* (while a released call runs nothing is read once its guard is awaited by a readiness poll; the poll that
       \*  released it may still read one packet.  Recorded runs disagree in a few corner cases - 6 of 4000 with the
       \*  limiter, 23 of 3200 at teardown -, which needs the waiters of ntex-service's pipeline to be modelled.)
       ELSE IF s1.nc = 2 THEN s1
       ELSE IF ~LimReady(s1) THEN [s1 EXCEPT !.rdy = TRUE]
       ELSE IF s1.rbuf # << >> THEN Quiesce(Read([s1 EXCEPT !.rbuf = Tail(@)], Head(s1.rbuf)))
       ELSE IF s1.peerGone THEN Stop(s1, "stop_peer", -1)
       \* (a released call that completed at once wakes the dispatcher again: the next parked call is released)
       ELSE IF s1.nc = 0 /\ s1.ctlRun = 0 /\ s1.ctlBuf # << >> THEN Quiesce(s1)
       ELSE s1

\* Shutdown (IoDispatcherState::Shutdown -> service.poll_shutdown): Dispatcher::shutdown closes the sink at once;
\* BufferService::shutdown first waits for a STORED guard (a released call that is still running), then flushes the
\* parked calls one at a time, each when the inner service is free (their handlers still run, what they answer
\* is dropped: the io is closed) and does not wait for the last one; then `stopping` is notified: every handler
\* still in flight is dropped and the connection task completes.
RECURSIVE Drops(_)
Drops(gs) == IF gs = << >> THEN << >> ELSE << E("h_drop", "", Head(gs).h, 0, 0, 0, 0, "") >> \o Drops(Tail(gs))
RECURSIVE ShutStep(_)
ShutStep(st) ==
  IF st.nc = 1 THEN st
  ELSE IF st.ctlBuf # << >>
    THEN IF st.ctlRun # 0 THEN st
         ELSE LET c == Head(st.ctlBuf)
                  x == StartCtl([st EXCEPT !.ctlBuf = Tail(@)], c.n, c.kind, c.id, FALSE)
              IN ShutStep(IF x[2] = Pend THEN x[1] ELSE HandleRes(x[1], c.n, x[2]))
  ELSE [Emit(st, << E("conn_done", "ok", 0, 0, 0, 0, 0, "") >> \o Drops(st.gates)) EXCEPT !.phase = "done", !.gates = << >>]

\* the Stop arm of the dispatcher, once per wake-up: the service readiness is still polled ("service may rely on
\* poll_ready for response results"), then the Stop call; when the control service has answered, MQTT 5 writes the
\* DISCONNECT it returned, the sink is closed and shutdown begins (a readiness future that was pending on a guard
\* is dropped with the pipeline state: nobody waits for that call any more)
\* a handler whose streamed payload is complete and who only waited for it finishes although the dispatcher has
\* stopped (its task is still alive until shutdown drops it); what it answers is not written any more
RdIdx(st) == IF \E i \in 1..Len(st.gates) : st.gates[i].wait # "" /\ st.gates[i].got >= st.gates[i].sz
               THEN CHOOSE i \in 1..Len(st.gates) : st.gates[i].wait # "" /\ st.gates[i].got >= st.gates[i].sz ELSE 0
FinishQuiet(st) ==
  LET gi == RdIdx(st) IN
  IF gi = 0 THEN st
  ELSE LET g == st.gates[gi] IN
       [Emit(st, << E("h_read", "all", g.h, 0, 0, 0, g.sz, ""), E("h_end", g.wait, g.h, 0, 0, 135, 0, "") >>)
          EXCEPT !.gates = SubSeq(@, 1, gi - 1) \o SubSeq(@, gi + 1, Len(@))]
StopArm(st) ==
  IF st.stopG
    THEN IF st.rdy THEN st ELSE ReadyEff(st)
    ELSE \* (a call released by this readiness poll runs in its own task, i.e. after the dispatcher's poll: by then the
         \*  Stop call has been answered and the sink is closed)
         LET s2 == Emit(st, << E("ctl_done", "ok", st.stopH, 0, 0, 0, 0, "") >>)
             s3 == CloseSink(IF Ver = 5 /\ s2.stopRc >= 0 THEN Write(s2, Resp("DISCONNECT", 0, s2.stopRc)) ELSE s2)
             s4 == IF s3.rdy THEN s3 ELSE ReadyEff(s3)
         IN ShutStep(FinishQuiet([s4 EXCEPT !.phase = "shut", !.nc = IF @ = 2 THEN 0 ELSE @]))

\* run the connection's tasks to quiescence in whatever phase it is
\* a handler that reads its streamed payload to the end has got the last byte: it finishes (its task runs after the
\* dispatcher's pass over what was readable)
ReaderIdx(st) == IF \E i \in 1..Len(st.gates) : st.gates[i].wait # "" /\ st.gates[i].got >= st.gates[i].sz
                   THEN CHOOSE i \in 1..Len(st.gates) : st.gates[i].wait # "" /\ st.gates[i].got >= st.gates[i].sz ELSE 0
FinishPub(st, gi, outcome, rd) ==
  LET g == st.gates[gi]
      rest == SubSeq(st.gates, 1, gi - 1) \o SubSeq(st.gates, gi + 1, Len(st.gates))
      s1 == [Emit(st, (IF rd THEN << E("h_read", "all", g.h, 0, 0, 0, g.sz, "") >> ELSE << >>)
                      \o << E("h_end", outcome, g.h, 0, 0, 135, 0, "") >>) EXCEPT !.gates = rest]
      s2 == IF PubFails(g.q, outcome) THEN FailClose(s1, FALSE) ELSE s1
  IN HandleRes(PubDone(s2, g.q, g.id, outcome), g.n, PubResult(g.q, g.id, outcome))
RECURSIVE Settle(_)
Settle(st) ==
  CASE st.phase = "run" -> LET s == Quiesce(st) IN
                           IF s.phase # "run" THEN Settle(s)
                           ELSE IF ReaderIdx(s) > 0 THEN Settle(FinishPub(s, ReaderIdx(s), s.gates[ReaderIdx(s)].wait, TRUE))
                           ELSE s
    [] st.phase = "stop" -> StopArm(st)
    [] st.phase = "shut" -> ShutStep(st)
    [] OTHER -> st

----------------------------------------------------------------------------
\* packets as the peer writes them: [kind, id, q, topic, alias, plen]
TLen(topic) == IF topic = "" THEN 0 ELSE IF topic = "long" THEN 40 ELSE 1
TopicStr(topic) == TopicName(topic)
\* Remaining Length of the frame the harness builds for the packet (what the limiter charges)
RL(p) ==
  CASE p.kind = "pub" -> 2 + TLen(p.topic) + (IF p.q > 0 THEN 2 ELSE 0)
                         + (IF Ver = 5 THEN 1 + (IF p.alias > 0 THEN 3 ELSE 0) ELSE 0) + p.plen
    [] p.kind = "pubrel" -> 2
    [] p.kind = "sub" -> IF Ver = 5 THEN 7 ELSE 6
    [] p.kind = "unsub" -> IF Ver = 5 THEN 6 ELSE 5
    [] p.kind \in {"puback", "pubrec", "pubcomp", "suback", "unsuback"} -> 2
    [] OTHER -> 0

InName(kind) == CASE kind = "pub" -> "PUBLISH" [] kind = "pubrel" -> "PUBREL"
                  [] kind = "sub" -> "SUBSCRIBE" [] kind = "unsub" -> "UNSUBSCRIBE" [] kind = "ping" -> "PINGREQ"
                  [] kind = "connect" -> "CONNECT" [] kind = "connack" -> "CONNACK" [] kind = "pingresp" -> "PINGRESP"
                  [] kind = "puback" -> "PUBACK" [] kind = "pubrec" -> "PUBREC" [] kind = "pubcomp" -> "PUBCOMP"
                  [] kind = "suback" -> "SUBACK" [] kind = "unsuback" -> "UNSUBACK" [] kind = "auth" -> "AUTH"
                  [] OTHER -> "DISCONNECT"
InEvs(p) ==
  IF p.kind = "chunk" THEN << E("in_chunk", "", 0, 0, 0, 0, p.plen, "") >>
  ELSE IF p.kind = "pub"
    THEN << E("in", "PUBLISH", p.alias, IF p.q = 0 THEN 0 ELSE p.id, p.q, 0, p.plen, TopicStr(p.topic)),
            E("in_props", "", RL(p), 97, 0, 0, 0, "|||") >>
    \* (DISCONNECT: n = Session Expiry Interval carried by the packet, -1 = none; CONNECT: x = its Session Expiry)
    ELSE << E("in", InName(p.kind), 0, IF p.kind \in {"pubrel", "sub", "unsub", "puback", "pubrec", "pubcomp", "suback", "unsuback"} THEN p.id ELSE 0,
              0, 0, IF p.kind = "discsei" THEN 10 ELSE IF p.kind = "disc" THEN -1 ELSE 0, IF p.kind = "connect" THEN "0" ELSE "") >>

\* command: (arm outcomes and) the peer writes one or several packets in ONE write
RECURSIVE Arrive(_, _)
Arrive(st, pk) ==
  IF pk = << >> THEN st
  ELSE LET p == Head(pk)
           n == st.narr + 1
           nr == Len(st.rbuf)
       IN IF p.kind = "chunk" /\ nr > 0 /\ st.rbuf[nr].kind = "chunk"
            THEN \* the dispatcher has not read the previous piece yet: the codec will see both as one
                 Arrive([Emit(st, InEvs(p)) EXCEPT !.owe = @ - p.plen, !.rbuf[nr].plen = @ + p.plen, !.rbuf[nr].fin = p.fin], Tail(pk))
          ELSE IF p.kind = "chunk" /\ nr > 0 /\ st.rbuf[nr].kind = "pub" /\ st.rbuf[nr].sent < st.rbuf[nr].plen
            THEN \* ... nor the PUBLISH itself: more (or all) of the payload comes with the header
                 Arrive([Emit(st, InEvs(p)) EXCEPT !.owe = @ - p.plen, !.rbuf[nr].sent = @ + p.plen], Tail(pk))
          ELSE IF p.kind = "chunk" /\ ~p.fin /\ (MinChunk = 0 \/ st.part + p.plen < MinChunk)
            THEN \* a piece that is not the last one and leaves less than min_chunk_size bytes buffered stays in the
                 \* codec until more of the payload has arrived: nothing is dispatched for it
                 Arrive([Emit(st, InEvs(p)) EXCEPT !.owe = @ - p.plen, !.part = @ + p.plen], Tail(pk))
          ELSE
          Arrive([Emit(st, InEvs(p)) EXCEPT !.narr = n, !.part = IF p.kind = "chunk" THEN 0 ELSE @,
                    !.owe = IF p.kind = "chunk" THEN @ - p.plen ELSE IF p.kind = "pub" THEN p.plen - p.sent ELSE @,
                    !.rbuf = Append(@, [n |-> n, kind |-> p.kind, id |-> p.id, q |-> p.q, topic |-> p.topic,
                                        alias |-> p.alias, plen |-> IF p.kind = "chunk" THEN st.part + p.plen ELSE p.plen,
                                        sent |-> p.sent, fin |-> p.fin, sz |-> RL(p)])], Tail(pk))
DoIn(st, pk, arm, ch) == Settle(Arrive([st EXCEPT !.armed = @ \o arm, !.ch = ch], pk))

\* command: the application's handler h finishes with the given outcome
\* rd: the handler first reads its (streamed) payload to the end
DoComplete(st, gi, outcome, ch, rd) ==
  LET g == st.gates[gi]
      rest == SubSeq(st.gates, 1, gi - 1) \o SubSeq(st.gates, gi + 1, Len(st.gates))
  IN IF g.kind = "stop"
       THEN Settle([st EXCEPT !.gates = rest, !.stopG = FALSE])
       ELSE
  LET s1 == [Emit(st, << E("h_end", outcome, g.h, 0, 0, 135, 0, "") >>) EXCEPT !.gates = rest, !.ch = ch]
  IN IF g.kind = "pub" /\ rd /\ g.got < g.sz
       THEN [st EXCEPT !.gates[gi].wait = outcome, !.ch = ch]          \* nothing to see until the last piece is fed
     ELSE IF g.kind = "pub"
       THEN Settle(FinishPub([st EXCEPT !.ch = ch], gi, outcome, rd))
       ELSE LET s2 == IF CtlFails(outcome) THEN FailClose(s1, TRUE) ELSE s1 IN
            Settle(HandleRes(CtlDone(s2, g.kind, g.id, outcome), g.n, CtlResult(g.kind, g.id, outcome)))

\* command: the connection ends for a cause outside the packet stream
\*   peer_close  the peer closes its end          raw    undecodable bytes arrive
\*   close       MqttSink::close()                force  MqttSink::force_close()
\* (undecodable bytes are a cause only once they are read: when the dispatcher is not reading at that moment the
\*  generator makes no statement about the class of the Stop that follows - token "rawq" instead of "raw")
CanRead(st) == st.nc = 0 /\ LimReady(st) /\ st.rbuf = << >> /\ ~(st.ctlRun = 0 /\ st.ctlBuf # << >>) /\ ~st.rdy
EndTok(st, k) == IF k = "raw" /\ ~CanRead(st) THEN "rawq" ELSE k
DoEnd(st, k) ==
  LET mark == IF k = "raw" /\ ~CanRead(st) THEN E("nocause", "", 0, 0, 0, 0, 0, "")
              ELSE E("cause", IF k = "raw" THEN "stop_proto" ELSE "stop_peer", 0, 0, 0, 0, 0, "") IN
  CASE k = "peer_close" -> Settle([Emit(st, << mark, E("peer_close", "", 0, 0, 0, 0, 0, "") >>) EXCEPT !.peerGone = TRUE])
    [] k = "raw" -> Settle([Emit(st, << mark, E("in", "RESERVED", 0, 0, 0, 0, 0, "") >>)
                              EXCEPT !.rbuf = Append(@, [n |-> 0, kind |-> "raw", id |-> 0, q |-> 0, topic |-> "", alias |-> 0, plen |-> 0, sent |-> 0, fin |-> FALSE, sz |-> 0])])
    [] k = "close" ->
         LET s1 == Emit(st, << mark, E("close", "close", 0, 0, 0, 0, 0, "") >>)
             s2 == IF Ver = 5 THEN Write(s1, Resp("DISCONNECT", 0, 0)) ELSE s1
         IN Settle(CloseSink(s2))
    [] OTHER -> Settle([Emit(st, << mark, E("close", "force", 0, 0, 0, 0, 0, "") >>) EXCEPT !.closed = TRUE])

\* events of the finished command, and the state ready for the next one
Evs(st) == st.ev
Next0(st) == [st EXCEPT !.ev = << >>, !.cur = 0, !.ch = 0]

QueueOk(st) == /\ st.inline = 0 \/ \E i \in 1..Len(st.ioq) : st.ioq[i].n = st.inline
               /\ \A i \in 1..Len(st.gates) : st.gates[i].kind = "stop" \/ \E j \in 1..Len(st.ioq) : st.ioq[j].n = st.gates[i].n
               /\ st.pubIds \subseteq st.ids
=============================================================================
