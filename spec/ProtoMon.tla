------------------------------ MODULE ProtoMon ------------------------------
(***************************************************************************)
(* Monitor for the inbound (dispatcher) properties of ntex-mqtt:           *)
(*   C03  each inbound PUBLISH handled once, acknowledged as QoS demands   *)
(*   C04  responses leave in the order their requests arrived              *)
(*   C11  inbound packet identifiers stay reserved until acknowledged      *)
(*   C12  inbound concurrency limits hold and never wedge the connection   *)
(*   C15  MQTT 5 DISCONNECT: at most once, never after the peer's, cause   *)
(*   C16  no sequence of well-formed packets panics or hangs an endpoint   *)
(*   C17  topic aliases resolve to the right topic                         *)
(*                                                                         *)
(* Total, purely functional state machine over the harness event           *)
(* vocabulary; a violation sets m.bad to "<property>:<reason>".  Only what *)
(* the property statements say is asserted.  An `in` event is the moment   *)
(* the peer WROTE a packet; the endpoint processes it later (possibly much *)
(* later while reading is paused), so every rule about acceptance is       *)
(* evaluated at an observable processing event (handler start, response,   *)
(* refusal), never at `in`.  Obligations are lifted as soon as the         *)
(* connection is ending for a cause the monitor has seen.                  *)
(***************************************************************************)
EXTENDS Naturals, Integers, Sequences, FiniteSets, TLC

IdxOf(seq, P(_)) ==
  IF \E i \in 1..Len(seq) : P(seq[i])
  THEN CHOOSE i \in 1..Len(seq) : P(seq[i]) /\ \A j \in 1..(i-1) : ~P(seq[j])
  ELSE 0
Without(seq, i) == SubSeq(seq, 1, i-1) \o SubSeq(seq, i+1, Len(seq))

Init ==
  [ bad |-> "none", more |-> << >>, ver |-> 5, role |-> "server",
    est |-> FALSE,          \* handshake completed
    term |-> FALSE,         \* the connection is ending (cause seen)
    cause |-> "none",       \* first termination cause: peer | local | proto | error
    maxReceive |-> 16, rmFixed |-> FALSE, maxQos |-> 2, aliasMax |-> 32, recvSize |-> 65535,
    \* publishes in arrival order:
    \*   [n, id, q, topic, size, st, h, acked, recd, rel, comp, code, refused, relProduced, noalias]
    \*   st: arrived | started | ok | err | nack
    pubs |-> << >>,
    \* other requests that bear a response, in arrival order:
    \*   [n, kind, id, st, h, produced]   kind: pubrel | pubrel_nf | pubrel_early | sub | unsub | ping
    \*   st: wait | answered | failed | refused
    reqs |-> << >>,
    narr |-> 0,
    needProto |-> FALSE, needWhy |-> "none",
    running |-> 0, maxRunning |-> 0,
    aliases |-> << >>,      \* alias bindings: [a, topic]
    stops |-> 0, stopProto |-> FALSE, stopError |-> FALSE, stopPeer |-> FALSE,
    discOut |-> 0, discIn |-> FALSE, discPend |-> FALSE, discInViol |-> FALSE, ctlRun |-> {}, excuse |-> FALSE, hfail |-> FALSE, zeroSei |-> TRUE,
    expectDisc |-> -1,      \* v5: reason code the DISCONNECT must carry (-1 = no expectation)
    appDisc |-> FALSE,      \* the application supplied / asked for its own DISCONNECT
    connDone |-> FALSE, gateStop |-> FALSE,
    expectStop |-> "none",  \* C07: class of the termination cause the generator injected
    ctlDone |-> FALSE,      \* the Stop notification has been handled by the control service
    exceededRM |-> FALSE,   \* the peer had more unacknowledged QoS>0 publishes than the Receive Maximum
    ended |-> FALSE,        \* the run is over: what follows is the harness tearing things down
    router |-> FALSE,       \* the publish service is a topic router with resources "a" and "b"
    noCtl |-> FALSE,        \* the endpoint variant has no observable connection-control service
    readers |-> {},         \* handlers whose payload is read by a task of its own that has not finished yet
    strict |-> 0            \* > 0: the generator sends nothing the monitor cannot classify; a protocol-error stop the
                            \* monitor did not ask for is then a violation of property C<strict>
  ]

Healthy(m) == m.est /\ ~m.term
\* the first violation is m.bad; later, different ones are kept too (a change that breaks two
\* properties is reported under both), at most four
Fail(m, why) ==
  IF m.bad = "none" THEN [m EXCEPT !.bad = why]
  ELSE IF why = m.bad \/ Len(m.more) >= 4 \/ \E k \in 1..Len(m.more) : m.more[k] = why THEN m
  ELSE [m EXCEPT !.more = Append(@, why)]
End(m, c) == [m EXCEPT !.term = TRUE, !.cause = IF @ = "none" THEN c ELSE @]
NeedProto(m, why) == [m EXCEPT !.needProto = TRUE, !.needWhy = IF @ = "none" THEN why ELSE @]

AliasTopic(m, a) ==
  LET i == IdxOf(m.aliases, LAMBDA b : b.a = a) IN IF i = 0 THEN "" ELSE m.aliases[i].topic

\* the endpoint has PRODUCED the final acknowledgement of the exchange (it may still sit in the
\* ordered response queue): from here on the identifier may be accepted again
PubProduced(m, p) ==
  \/ p.refused
  \/ p.q = 0
  \/ (p.q = 1 /\ p.st \in {"ok", "nack", "err"})
  \/ (p.q = 2 /\ (p.relProduced \/ (m.ver = 5 /\ p.st = "nack") \/ p.st = "err"))
\* ... and has WRITTEN it
PubAcked(p) == p.refused \/ p.q = 0 \/ (p.q = 1 /\ p.acked) \/ (p.q = 2 /\ p.comp) \/ p.st = "err"

\* some exchange that arrived before packet number n still holds identifier id (MUST refuse)
BusyBefore(m, id, n) ==
  \/ \E i \in 1..Len(m.pubs) :
        m.pubs[i].n < n /\ m.pubs[i].id = id /\ m.pubs[i].q > 0 /\ m.pubs[i].st # "arrived"
        /\ ~PubProduced(m, m.pubs[i])
  \/ \E i \in 1..Len(m.reqs) :
        m.reqs[i].n < n /\ m.reqs[i].kind \in {"sub", "unsub"} /\ m.reqs[i].id = id
        /\ m.reqs[i].st = "wait" /\ m.reqs[i].h # 0 /\ ~m.reqs[i].produced
\* ... or has not put its acknowledgement on the wire yet (MAY refuse)
MaybeBusyBefore(m, id, n) ==
  \/ \E i \in 1..Len(m.pubs) :
        m.pubs[i].n < n /\ m.pubs[i].id = id /\ m.pubs[i].q > 0 /\ ~PubAcked(m.pubs[i])
  \/ \E i \in 1..Len(m.reqs) :
        m.reqs[i].n < n /\ m.reqs[i].kind \in {"sub", "unsub"} /\ m.reqs[i].id = id
        /\ m.reqs[i].st = "wait"

----------------------------------------------------------------------------
OnCfg(m, ev) ==
  \* (cfg events arrive in alphabetical order: the value negotiated in CONNECT / CONNACK wins over the
  \*  configured default, and for a v5 client max_receive is not the Receive Maximum at all)
  CASE ev.k = "max_receive" -> IF m.rmFixed \/ (m.role = "client" /\ m.ver = 5) THEN m ELSE [m EXCEPT !.maxReceive = ev.n]
    [] ev.k = "max_qos" -> [m EXCEPT !.maxQos = ev.n]
    [] ev.k = "ack_max_qos" -> [m EXCEPT !.maxQos = ev.n]
    [] ev.k = "max_topic_alias" -> [m EXCEPT !.aliasMax = ev.n]
    [] ev.k = "ack_topic_alias_max" -> [m EXCEPT !.aliasMax = ev.n]
    [] ev.k = "client_topic_alias_max" -> [m EXCEPT !.aliasMax = ev.n]
    [] ev.k = "max_receive_size" -> [m EXCEPT !.recvSize = ev.n]
    [] ev.k = "ack_receive_max" -> [m EXCEPT !.maxReceive = ev.n, !.rmFixed = TRUE]
    [] ev.k = "client_receive_max" -> [m EXCEPT !.maxReceive = ev.n, !.rmFixed = TRUE]
    [] ev.k = "gate_stop" -> [m EXCEPT !.gateStop = (ev.n # 0)]
    \* the application installed no protocol-control / connection-control service: the crate's defaults act, no
    \* handler or Stop events are recorded for them
    [] ev.k = "default_ctl" -> [m EXCEPT !.noCtl = (ev.n # 0)]
    [] ev.k = "router" -> [m EXCEPT !.router = (ev.n # 0), !.noCtl = (ev.n # 0 /\ m.role = "client")]
    [] ev.k = "strict" -> [m EXCEPT !.strict = ev.n]
    [] OTHER -> m

AddReq(m, kind, id) ==
  [m EXCEPT !.reqs = Append(@, [n |-> m.narr + 1, kind |-> kind, id |-> id, st |-> "wait",
                                h |-> 0, produced |-> FALSE]),
            !.narr = @ + 1]

OnInPublish(m, ev) ==
  LET n == m.narr + 1
      alias == ev.s
      bound == AliasTopic(m, alias)
      topic == IF m.ver = 5 /\ alias > 0 /\ ev.x = "" THEN bound ELSE ev.x
      unresolved == m.ver = 5 /\ alias > 0 /\ ev.x = "" /\ bound = ""
      overMax == m.ver = 5 /\ alias > 0 /\ ev.x # "" /\ bound = "" /\ alias > m.aliasMax
      m1 == IF m.ver = 5 /\ alias > 0 /\ ev.x # "" /\ ~overMax
              THEN [m EXCEPT !.aliases =
                      LET i == IdxOf(@, LAMBDA b : b.a = alias) IN
                      IF i = 0 THEN Append(@, [a |-> alias, topic |-> ev.x])
                      ELSE [@ EXCEPT ![i].topic = ev.x]]
              ELSE m
      rec == [n |-> n, id |-> ev.id, q |-> ev.q, topic |-> topic, size |-> ev.n,
              st |-> "arrived", failed |-> FALSE, h |-> 0, acked |-> FALSE, recd |-> FALSE, rel |-> FALSE,
              comp |-> FALSE, code |-> 0, refused |-> FALSE, relProduced |-> FALSE,
              noalias |-> (unresolved \/ overMax), aliased |-> (alias > 0),
              \* what the handler has to see: flags (dup * 2 + retain) from the packet, and - from the
              \* in_props event that follows - payload fill byte and MQTT 5 properties
              flags |-> ev.r, fill |-> -1, props |-> "?", mei |-> 0, pfi |-> 0,
              psize |-> 0]     \* Remaining Length of the frame (from in_props): the packet bytes the limiter charges
      unacked == Cardinality({k \in 1..Len(m.pubs) : m.pubs[k].q > 0 /\ ~m.pubs[k].refused
                      /\ ~((m.pubs[k].q = 1 /\ m.pubs[k].acked) \/ (m.pubs[k].q = 2 /\ m.pubs[k].comp))})
      m2 == [m1 EXCEPT !.pubs = Append(@, rec), !.narr = n,
                       !.exceededRM = @ \/ (ev.q > 0 /\ m.maxReceive > 0 /\ unacked + 1 > m.maxReceive),
                       \* an identifier that may still be in use: MQTT 3.1.1 endpoints may end the connection for it
                       \* (the monitor does not demand it): no needless protocol error in the sense of `strict`
                       !.excuse = @ \/ (ev.q > 0 /\ MaybeBusyBefore(m, ev.id, n))]
  IN
  IF ~Healthy(m) THEN [m EXCEPT !.narr = n]
  ELSE IF unresolved THEN NeedProto(m2, "C17:unbound-alias-must-end-connection")
  ELSE IF overMax THEN NeedProto(m2, "C17:alias-above-maximum-must-end-connection")
  ELSE m2

OnInPubrel(m, ev) ==
  IF ~Healthy(m) THEN m ELSE
  LET i == IdxOf(m.pubs, LAMBDA p : p.id = ev.id /\ p.q = 2 /\ ~p.refused /\ ~p.comp /\ ~p.rel) IN
  IF i > 0
    THEN \* matches a QoS 2 publish: normally its PUBREC is out; if the peer is ahead of us the
         \* answer is not pinned down (kind pubrel_early)
         AddReq([m EXCEPT !.pubs[i].rel = TRUE],
                IF m.pubs[i].recd \/ m.pubs[i].st = "ok" THEN "pubrel" ELSE "pubrel_early", ev.id)
  ELSE IF m.role = "server" /\ ~(\E k \in 1..Len(m.pubs) : m.pubs[k].id = ev.id /\ m.pubs[k].q = 2 /\ ~m.pubs[k].refused /\ ~m.pubs[k].comp)
          /\ (\/ \E k \in 1..Len(m.pubs) : m.pubs[k].id = ev.id /\ m.pubs[k].q = 1 /\ ~PubAcked(m.pubs[k])
              \/ \E k \in 1..Len(m.reqs) : m.reqs[k].id = ev.id /\ m.reqs[k].kind \in {"sub", "unsub"} /\ m.reqs[k].st = "wait")
    THEN \* a server: the identifier is in use, but by an exchange that never awaits a PUBREL (QoS 1 publish, SUBSCRIBE,
         \* UNSUBSCRIBE) - the PUBREL must not release it: MQTT 3.1.1 ends the connection, MQTT 5 answers "not found"
         IF m.ver = 3
           THEN NeedProto(AddReq(m, "pubrel_early", ev.id), "C11:pubrel-for-an-identifier-that-awaits-none-must-end-v3-connection")
           ELSE AddReq(m, "pubrel_nf", ev.id)
  ELSE IF \E k \in 1..Len(m.pubs) : m.pubs[k].id = ev.id /\ m.pubs[k].q > 0 /\ ~PubAcked(m.pubs[k])
    THEN AddReq(m, "pubrel_early", ev.id)    \* id used by another exchange: not pinned down
  ELSE IF \E k \in 1..Len(m.reqs) : m.reqs[k].id = ev.id /\ m.reqs[k].kind \in {"sub", "unsub"}
                                     /\ m.reqs[k].st = "wait"
    THEN AddReq(m, "pubrel_early", ev.id)
  ELSE IF m.ver = 3
    THEN NeedProto(AddReq(m, "pubrel_early", ev.id), "C11:pubrel-for-unknown-id-must-end-v3-connection")
    ELSE AddReq(m, "pubrel_nf", ev.id)

OnInSub(m, ev, kind) ==
  IF ~Healthy(m) THEN m
  ELSE IF m.role = "client" THEN NeedProto(m, "C16:unexpected-packet-must-end-connection")
  ELSE AddReq(m, kind, ev.id)

OnIn(m, ev) ==
  CASE ev.k = "CONNECT" -> [m EXCEPT !.zeroSei = (ev.x \in {"-1", "0"})]
    [] ev.k = "PUBLISH" -> OnInPublish(m, ev)
    [] ev.k = "PUBREL" -> OnInPubrel(m, ev)
    [] ev.k = "SUBSCRIBE" -> OnInSub(m, ev, "sub")
    [] ev.k = "UNSUBSCRIBE" -> OnInSub(m, ev, "unsub")
    [] ev.k = "PINGREQ" ->
         IF ~Healthy(m) THEN m
         ELSE IF m.role = "client" THEN NeedProto(m, "C16:unexpected-packet-must-end-connection")
         ELSE AddReq(m, "ping", 0)
    [] ev.k = "DISCONNECT" ->
         \* ev.n = Session Expiry Interval carried by the packet (-1 = none)
         LET viol == (m.role = "server" /\ ev.n > 0 /\ m.zeroSei) \/ (m.role = "client" /\ ev.n >= 0)
             \* the packet is RECEIVED when the endpoint reads it, and it does not read while earlier packets wait to be
             \* dispatched or a control request is unanswered (the bytes sit in the transport): until the application
             \* is told about the DISCONNECT the endpoint may still end the connection for reasons of its own
             unread == m.ctlRun # {}        \* (a protocol-control handler is running: control calls are sequential)
                       \/ (\E k \in 1..Len(m.reqs) : m.reqs[k].st = "wait")
                       \/ (\E k \in 1..Len(m.pubs) : m.pubs[k].st = "arrived" /\ ~m.pubs[k].refused)
         IN
         IF m.term THEN m
         ELSE IF viol THEN NeedProto([m EXCEPT !.discIn = ~unread, !.discPend = unread, !.discInViol = TRUE], "C15:disconnect-with-illegal-session-expiry-must-be-a-protocol-error")
         ELSE End([m EXCEPT !.discIn = ~unread, !.discPend = unread], "peer")
    [] OTHER -> m

\* payload bytes held by the publish handlers that are running
RECURSIVE SumRunning(_, _)
SumRunning(ps, i) ==
  IF i > Len(ps) THEN 0
  ELSE (IF ps[i].st = "started" THEN (IF ps[i].psize > 0 THEN ps[i].psize ELSE ps[i].size) ELSE 0) + SumRunning(ps, i + 1)
RunningBytesBefore(m) == SumRunning(m.pubs, 1)

----------------------------------------------------------------------------
OnHStart(m, ev) ==
  IF ev.k = "hs" THEN m
  ELSE IF ev.k = "disc" /\ m.discPend THEN [m EXCEPT !.discIn = TRUE, !.discPend = FALSE]
  ELSE IF ev.k # "pub" THEN
    \* protocol-control handlers run in arrival order: the next waiting request of that kind
    LET kinds == IF ev.k = "pubrel" THEN {"pubrel", "pubrel_early"} ELSE {ev.k}
        j == IdxOf(m.reqs, LAMBDA r : r.kind \in kinds /\ r.h = 0 /\ r.st = "wait"
                                       /\ (ev.id = 0 \/ r.id = ev.id)) IN
    IF j = 0 THEN m
    ELSE LET r == m.reqs[j]
             m1 == [m EXCEPT !.reqs[j].h = ev.s]
         IN IF Healthy(m) /\ r.kind \in {"sub", "unsub"} /\ BusyBefore(m, r.id, r.n)
              THEN Fail(m1, "C11:in-use-identifier-delivered-to-handler")
              ELSE m1
  ELSE
    LET i == IdxOf(m.pubs, LAMBDA p : p.st = "arrived" /\ ~p.refused /\ p.id = ev.id /\ p.q = ev.q)
        run == m.running + 1
        m0 == [m EXCEPT !.running = run, !.maxRunning = IF run > @ THEN run ELSE @]
    IN
    IF ~m.est THEN Fail(m0, "C19:handler-before-handshake")
    ELSE IF i = 0 THEN
       (IF m.term THEN m0 ELSE Fail(m0, "C03:handler-invoked-without-matching-publish-or-twice"))
    ELSE
      LET p == m.pubs[i]
          m1 == [m0 EXCEPT !.pubs[i].st = "started", !.pubs[i].h = ev.s]
      IN IF p.noalias THEN Fail(m1, "C17:unresolvable-alias-reached-handler")
         ELSE IF p.q > 0 /\ BusyBefore(m, p.id, p.n) /\ Healthy(m)
           THEN Fail(m1, "C11:in-use-identifier-delivered-to-handler")
         ELSE IF p.topic # ev.x
           THEN Fail(m1, IF p.aliased THEN "C17:handler-saw-wrong-topic" ELSE "C03:handler-saw-wrong-topic")
         ELSE IF p.size # ev.n THEN Fail(m1, "C03:handler-saw-wrong-payload-size")
         ELSE IF p.flags # ev.r % 16 THEN Fail(m1, "C03:handler-saw-wrong-dup-or-retain-flag")
         ELSE IF m.router /\ ev.r >= 16
                 /\ (ev.r \div 16) - 1 # (CASE p.topic = "a" -> 1 [] p.topic = "b" -> 2 [] OTHER -> 0)
                 /\ ~(m.role = "client" /\ p.topic \notin {"a", "b"})
           THEN Fail(m1, "C17:routed-to-wrong-resource")
         ELSE IF m.role = "server" /\ m.ver = 3 /\ m.maxReceive > 0 /\ run > m.maxReceive /\ Healthy(m)
           THEN Fail(m1, "C12:more-concurrent-handlers-than-max-receive")
         ELSE IF m.role = "server" /\ m.ver = 3 /\ m.recvSize > 0 /\ Healthy(m)
                 /\ RunningBytesBefore(m) > m.recvSize + 8
           THEN \* the handlers already running hold more packet bytes (Remaining Length of their frames; 8 =
                \* slack for the fixed header, which the statement does not pin down) than the byte limit,
                \* yet one more packet was dispatched
                Fail(m1, "C12:more-bytes-in-flight-than-max-receive-size")
         ELSE IF m.ver = 5 /\ m.maxReceive > 0 /\ p.q > 0 /\ Healthy(m)
                 /\ Cardinality({k \in 1..Len(m.pubs) : m.pubs[k].n < p.n /\ m.pubs[k].q > 0
                                     /\ ~m.pubs[k].refused /\ m.pubs[k].st # "arrived"
                                     /\ ~PubProduced(m, m.pubs[k])}) >= m.maxReceive
           THEN Fail(m1, "C12:publish-beyond-receive-maximum-delivered")
         ELSE m1

\* C07: a handler failed with an error for which no acknowledgement exists: the Stop notification that
\* follows has to carry the application's error (unless the connection was already ending)
ExpectErrStop(m) == IF ~m.term /\ m.est
                      THEN [m EXCEPT !.expectStop = IF @ = "none" THEN "stop_error" ELSE @, !.hfail = (m.expectStop \in {"none", "stop_error"})]
                      ELSE m

OnHEnd(m, ev) ==
  LET i == IdxOf(m.pubs, LAMBDA p : p.h = ev.s /\ p.st = "started")
      j == IdxOf(m.reqs, LAMBDA r : r.h = ev.s /\ r.h # 0 /\ ~r.produced) IN
  IF i = 0 THEN
     (IF j = 0 THEN m
      ELSE LET r == m.reqs[j]
               m0 == [m EXCEPT !.reqs[j].produced = TRUE,
                               \* (protocol handlers of the harness fail only with outcome "err"; any other
                               \*  outcome acknowledges the message)
                               !.reqs[j].st = IF ev.k = "err" THEN "failed" ELSE @]
               m1 == IF ev.k = "err" THEN ExpectErrStop(m0) ELSE m0
               pi == IdxOf(m.pubs, LAMBDA p : p.id = r.id /\ p.q = 2 /\ p.rel /\ ~p.relProduced /\ ~p.refused)
           IN IF r.kind \in {"pubrel", "pubrel_early"} /\ pi > 0
                THEN [m1 EXCEPT !.pubs[pi].relProduced = TRUE] ELSE m1)
  ELSE LET st == CASE ev.k = "err" -> "err"
                   [] ev.k \in {"nack", "nack_ok"} /\ ev.r >= 128 -> "nack"
                   [] OTHER -> "ok"
           \* ("err", "nack": the handler returned an error; "nack_ok": it returned an acknowledgement
           \*  with a reason code itself - a code below 0x80 (0x10, no matching subscribers) is a success
           \*  and the exchange goes on as for 0; anything else the harness answers like "ok")
           code == IF ev.k \in {"nack", "nack_ok"} THEN ev.r ELSE 0
           m2 == [m EXCEPT !.pubs[i].st = st, !.pubs[i].code = code, !.pubs[i].failed = ev.k \in {"err", "nack"},
                           !.running = IF @ > 0 THEN @ - 1 ELSE 0]
       IN IF ev.k = "err" \/ (ev.k = "nack" /\ m.role = "server" /\ (m.ver = 3 \/ m.pubs[i].q = 0))
            THEN ExpectErrStop(m2) ELSE m2

OnHDrop(m, ev) ==
  LET i == IdxOf(m.pubs, LAMBDA p : p.h = ev.s /\ p.st = "started") IN
  IF i = 0 THEN m
  ELSE LET m1 == [m EXCEPT !.pubs[i].st = "err", !.running = IF @ > 0 THEN @ - 1 ELSE 0] IN
       \* (without an observable connection-control service the Stop itself is not seen: not judged)
       IF Healthy(m) /\ ~m.noCtl THEN Fail(m1, "C07:handler-cancelled-on-healthy-connection")
       ELSE IF m.stops > 0 /\ ~m.ctlDone THEN Fail(m1, "C07:handler-cancelled-before-the-stop-notification-was-handled")
       ELSE m1

\* C04: a response is written.  Everything that arrived before its request and bears a response
\* must have been answered already (or has failed / been refused).
WaitingBefore(m, n) ==
  \/ \E i \in 1..Len(m.pubs) :
        LET p == m.pubs[i] IN
        p.n < n /\ p.q > 0 /\ ~p.refused /\ p.st # "err"
        /\ ((p.q = 1 /\ ~p.acked) \/ (p.q = 2 /\ ~p.recd))
        /\ ~(p.st = "nack" /\ m.ver = 3)
  \/ \E i \in 1..Len(m.reqs) :
        m.reqs[i].n < n /\ m.reqs[i].st = "wait" /\ m.reqs[i].kind # "pubrel_early"
Ordered(m, m1, n) ==
  IF Healthy(m) /\ WaitingBefore(m, n) THEN Fail(m1, "C04:response-overtook-an-earlier-request") ELSE m1

\* v5: a publish refused with reason 0x91 (Packet Identifier in use)
Refusal(m, ev) ==
  LET i == IdxOf(m.pubs, LAMBDA p : p.id = ev.id /\ p.q > 0 /\ p.st = "arrived" /\ ~p.refused
                                     /\ MaybeBusyBefore(m, p.id, p.n)) IN
  IF i > 0 THEN [m EXCEPT !.pubs[i].refused = TRUE]
  ELSE IF ~Healthy(m) THEN m
  ELSE Fail(m, "C11:free-identifier-refused-as-in-use")

OnOutPuback(m, ev) ==
  LET i == IdxOf(m.pubs, LAMBDA p : p.id = ev.id /\ p.q = 1 /\ ~p.acked /\ ~p.refused /\ p.st # "arrived")
      q2 == IdxOf(m.pubs, LAMBDA p : p.id = ev.id /\ p.q = 2 /\ ~p.recd /\ ~p.refused /\ p.st # "arrived")
  IN
  IF m.ver = 5 /\ ev.r = 145 /\ ~(i > 0 /\ m.pubs[i].st = "nack" /\ m.pubs[i].code = 145)
    THEN Refusal(m, ev)
  ELSE IF i > 0 THEN
    LET p == m.pubs[i]
        m1 == Ordered(m, [m EXCEPT !.pubs[i].acked = TRUE], p.n)
    IN IF p.st = "started" THEN Fail(m1, "C03:acknowledged-before-handler-completed")
       ELSE IF p.st = "err" \/ (p.st = "nack" /\ m.ver = 3) THEN Fail(m1, "C03:acknowledged-although-handler-failed")
       ELSE IF m.ver = 5 /\ p.st = "nack" /\ ev.r # p.code THEN Fail(m1, "C03:negative-ack-code-differs-from-application-mapping")
       ELSE IF m.ver = 5 /\ p.st = "ok" /\ ev.r # p.code THEN Fail(m1, "C03:success-handler-acknowledged-with-another-reason-code")
       ELSE m1
  ELSE IF q2 > 0 THEN Fail(m, "C03:qos2-publish-acknowledged-with-puback")
  ELSE IF IdxOf(m.pubs, LAMBDA p : p.id = ev.id /\ p.q = 1 /\ p.st = "arrived" /\ ~p.refused) > 0
    THEN Fail(m, "C03:acknowledged-before-handler-completed")
  ELSE IF ~Healthy(m) THEN m
  ELSE Fail(m, "C03:puback-without-matching-publish-or-duplicate")

OnOutPubrec(m, ev) ==
  LET i == IdxOf(m.pubs, LAMBDA p : p.id = ev.id /\ p.q = 2 /\ ~p.recd /\ ~p.refused /\ p.st # "arrived") IN
  IF m.ver = 5 /\ ev.r = 145 /\ ~(i > 0 /\ m.pubs[i].st = "nack" /\ m.pubs[i].code = 145)
    THEN Refusal(m, ev)
  ELSE IF i > 0 THEN
    LET p == m.pubs[i]
        m0 == IF m.ver = 5 /\ ev.r >= 128
                THEN [m EXCEPT !.pubs[i].recd = TRUE, !.pubs[i].rel = TRUE, !.pubs[i].comp = TRUE,
                               !.pubs[i].relProduced = TRUE]
                ELSE [m EXCEPT !.pubs[i].recd = TRUE]
        m1 == Ordered(m, m0, p.n)
    IN IF p.st = "started" THEN Fail(m1, "C03:acknowledged-before-handler-completed")
       ELSE IF p.st = "err" \/ (p.st = "nack" /\ m.ver = 3) THEN Fail(m1, "C03:acknowledged-although-handler-failed")
       ELSE IF m.ver = 5 /\ p.st = "nack" /\ ev.r # p.code THEN Fail(m1, "C03:negative-ack-code-differs-from-application-mapping")
       ELSE IF m.ver = 5 /\ p.st = "ok" /\ ev.r # p.code THEN Fail(m1, "C03:success-handler-acknowledged-with-another-reason-code")
       ELSE m1
  ELSE IF IdxOf(m.pubs, LAMBDA p : p.id = ev.id /\ p.q = 2 /\ p.st = "arrived" /\ ~p.refused) > 0
    THEN Fail(m, "C03:acknowledged-before-handler-completed")
  ELSE IF ~Healthy(m) THEN m
  ELSE Fail(m, "C03:pubrec-without-matching-publish-or-duplicate")

OnOutPubcomp(m, ev) ==
  LET j == IdxOf(m.reqs, LAMBDA r : r.kind = "pubrel" /\ r.id = ev.id /\ r.st = "wait")
      e == IdxOf(m.reqs, LAMBDA r : r.kind = "pubrel_early" /\ r.id = ev.id /\ r.st = "wait")
      nf == IdxOf(m.reqs, LAMBDA r : r.kind = "pubrel_nf" /\ r.id = ev.id /\ r.st = "wait")
      i == IdxOf(m.pubs, LAMBDA p : p.id = ev.id /\ p.q = 2 /\ p.rel /\ ~p.comp)
      \* several PUBRELs for one identifier may be waiting (a premature one and a later one for an identifier that
      \* is free by then): responses come in request order, so the answer belongs to the OLDEST one it can answer
      useJ == j > 0 /\ (m.ver = 3 \/ ev.r = 0)
      useNf == nf > 0 /\ m.ver = 5 /\ ev.r = 146
      useE == e > 0
      first(a, ua, b, ub, c, uc) == ua /\ (ub => m.reqs[a].n < m.reqs[b].n) /\ (uc => m.reqs[a].n < m.reqs[c].n)
  IN
  IF first(j, useJ, nf, useNf, e, useE) THEN
     LET m0 == [m EXCEPT !.reqs[j].st = "answered"]
         m1 == IF i > 0 THEN [m0 EXCEPT !.pubs[i].comp = TRUE] ELSE m0
     IN Ordered(m, m1, m.reqs[j].n)
  ELSE IF first(nf, useNf, j, useJ, e, useE) THEN
     Ordered(m, [m EXCEPT !.reqs[nf].st = "answered"], m.reqs[nf].n)
  ELSE IF useE THEN
     \* answer to a premature / misplaced PUBREL: either completion or 0x92 is tolerated
     LET m0 == [m EXCEPT !.reqs[e].st = "answered"] IN
     IF i > 0 /\ ev.r = 0 THEN [m0 EXCEPT !.pubs[i].comp = TRUE]
     ELSE IF (m.ver = 3 \/ ev.r = 0)
             /\ (\E k \in 1..Len(m.pubs) : m.pubs[k].id = ev.id /\ m.pubs[k].q = 2 /\ m.pubs[k].comp)
             /\ ~(\E k \in 1..Len(m.pubs) : m.pubs[k].id = ev.id /\ m.pubs[k].q > 0 /\ ~m.pubs[k].comp /\ ~PubAcked(m.pubs[k]))
       THEN \* the only exchange this identifier ever belonged to already got its PUBCOMP
            Fail(m0, "C03:second-pubcomp-for-a-completed-qos2-publish")
     ELSE m0
  ELSE IF ~Healthy(m) THEN m
  ELSE Fail(m, "C03:pubcomp-without-matching-pubrel")

OnOutSubAck(m, ev, kind) ==
  LET j == IdxOf(m.reqs, LAMBDA r : r.st = "wait" /\ r.kind = kind /\ r.id = ev.id /\ r.h # 0)
      d == IdxOf(m.reqs, LAMBDA r : r.st = "wait" /\ r.kind = kind /\ r.id = ev.id /\ r.h = 0
                                     /\ MaybeBusyBefore(m, r.id, r.n))
  IN IF m.ver = 5 /\ ev.r = 145 /\ d > 0 THEN [m EXCEPT !.reqs[d].st = "refused"]
     ELSE IF j > 0 THEN Ordered(m, [m EXCEPT !.reqs[j].st = "answered"], m.reqs[j].n)
     ELSE IF m.ver = 5 /\ ev.r = 145 /\ Healthy(m) THEN Fail(m, "C11:free-identifier-refused-as-in-use")
     ELSE IF IdxOf(m.reqs, LAMBDA r : r.st = "wait" /\ r.kind = kind /\ r.id = ev.id) > 0 /\ Healthy(m)
       THEN Fail(m, "C04:response-without-handler")
     ELSE IF Healthy(m) THEN Fail(m, "C04:duplicate-or-unsolicited-response")
     ELSE m

OnOutDisconnect(m, ev) ==
  LET m1 == End([m EXCEPT !.discOut = @ + 1], "local") IN
  IF m.ver # 5 THEN m1
  ELSE IF m.discOut >= 1 THEN Fail(m1, "C15:second-disconnect-written")
  ELSE IF m.discIn /\ ~m.discInViol THEN Fail(m1, "C15:disconnect-written-after-peers-disconnect")
  ELSE IF ev.r = 147 /\ m.maxReceive > 0 /\ ~m.exceededRM
          /\ Cardinality({k \in 1..Len(m.pubs) : m.pubs[k].q > 0 /\ ~m.pubs[k].refused
                               /\ ~((m.pubs[k].q = 1 /\ m.pubs[k].acked) \/ (m.pubs[k].q = 2 /\ m.pubs[k].comp))}) <= m.maxReceive
    THEN Fail(m1, "C12:disconnected-with-0x93-within-receive-maximum")
  ELSE IF m.expectDisc >= 0 /\ ~m.appDisc /\ ev.r # m.expectDisc THEN Fail(m1, "C15:disconnect-does-not-name-the-cause")
  ELSE IF (m.cause \in {"proto", "error"} \/ m.needProto) /\ ~m.appDisc /\ ev.r = 0
    THEN Fail(m1, "C15:error-reported-as-normal-disconnection")
  ELSE m1

OnOut(m, ev) ==
  LET m0 == IF m.ver = 5 /\ m.discOut > 0 /\ ev.k # "DISCONNECT"
              THEN Fail(m, "C15:packet-written-after-own-disconnect") ELSE m
  IN
  CASE ev.k = "CONNACK" -> [m0 EXCEPT !.est = (ev.r = 0)]
    [] ev.k = "PUBACK" -> OnOutPuback(m0, ev)
    [] ev.k = "PUBREC" -> OnOutPubrec(m0, ev)
    [] ev.k = "PUBCOMP" -> OnOutPubcomp(m0, ev)
    [] ev.k = "SUBACK" -> OnOutSubAck(m0, ev, "sub")
    [] ev.k = "UNSUBACK" -> OnOutSubAck(m0, ev, "unsub")
    [] ev.k = "PINGRESP" ->
         LET j == IdxOf(m0.reqs, LAMBDA r : r.st = "wait" /\ r.kind = "ping") IN
         IF j = 0 THEN (IF Healthy(m0) THEN Fail(m0, "C04:duplicate-or-unsolicited-response") ELSE m0)
         ELSE Ordered(m0, [m0 EXCEPT !.reqs[j].st = "answered"], m0.reqs[j].n)
    [] ev.k = "DISCONNECT" -> OnOutDisconnect(m0, ev)
    [] OTHER -> m0

OnCtl(m, ev) ==
  CASE ev.k \in {"stop_proto", "stop_error", "stop_peer"} ->
         LET m1 == [m EXCEPT !.stops = @ + 1,
                             !.stopProto = @ \/ ev.k = "stop_proto",
                             !.stopError = @ \/ ev.k = "stop_error",
                             !.stopPeer = @ \/ ev.k = "stop_peer",
                             !.needProto = IF ev.k = "stop_proto" THEN FALSE ELSE @]
             m2 == End(m1, CASE ev.k = "stop_proto" -> "proto" [] ev.k = "stop_error" -> "error" [] OTHER -> "peer")
         IN IF m.stops >= 1 THEN Fail(m2, "C07:more-than-one-stop-notification")
            ELSE IF ev.k = "stop_peer" /\ m.needProto /\ Healthy(m) /\ ~m.appDisc /\ m.expectStop = "none"
              THEN \* a protocol violation is pending, nothing else has ended the connection, and the endpoint
                   \* stops with peer-gone: it closed the connection quietly instead of reporting the violation
                   Fail(m2, "C16:protocol-violation-ended-the-connection-without-a-protocol-error")
            ELSE IF ev.k = "stop_proto" /\ m.strict > 0 /\ ~m.needProto /\ ~m.excuse /\ Healthy(m) /\ m.expectStop = "none"
              THEN Fail(m2, (IF m.strict < 10 THEN "C0" ELSE "C") \o ToString(m.strict) \o ":connection-ended-with-a-protocol-error-although-the-peer-kept-to-the-rules")
            ELSE IF m.expectStop # "none" /\ m.expectStop # ev.k /\ ~m.term
              THEN Fail(m2, "C07:stop-reason-class-differs-from-cause")
            ELSE m2
    [] ev.k = "ctl_done_marker" -> m
    [] OTHER -> m

\* final{s: gates still open, n: bytes the endpoint has not read}: every gate the harness could
\* open was opened with outcome ok, to a fixpoint
OnFinal(m, ev) ==
  IF m.readers # {} /\ m.connDone
    THEN \* the connection is gone and a payload reader is still waiting: it got neither the rest nor an error
         Fail(m, "C07:payload-reader-left-hanging-after-the-connection-ended")
  ELSE IF m.needProto /\ m.noCtl /\ m.est /\ ev.s = 0
    THEN (IF m.connDone THEN m ELSE Fail(m, m.needWhy))
  ELSE IF m.needProto /\ ~m.stopProto /\ m.est /\ m.cause \in {"none", "proto"} /\ ev.s = 0
    THEN \* (an error result may wait in the ordered response queue until the handlers ahead
         \*  of it complete: the protocol-error stop is due once every gate was opened)
         Fail(m, m.needWhy)
  ELSE IF m.est /\ m.expectStop # "none" /\ m.stops = 0 /\ ~m.noCtl
    THEN Fail(m, "C07:no-stop-notification")
  ELSE IF ~Healthy(m) THEN
     (IF m.est /\ (m.stops > 0 \/ m.expectStop # "none") /\ ~m.connDone /\ ev.s = 0
        THEN Fail(m, "C07:connection-task-did-not-complete-after-stop") ELSE m)
  ELSE IF \E i \in 1..Len(m.pubs) : LET p == m.pubs[i] IN
            ~p.refused /\ p.failed /\ (p.st = "err" \/ (p.st = "nack" /\ m.role = "server" /\ (m.ver = 3 \/ p.q = 0)))
    THEN \* a handler failed, no negative acknowledgement exists for it (MQTT 3.1.1, QoS 0, unmapped
         \* error) and the connection is still up.  (In the client role "nack" is not a failure: the
         \* handler itself returns the acknowledgement.)
         Fail(m, "C03:failing-handler-neither-negatively-acknowledged-nor-ended-the-connection")
  ELSE IF \E i \in 1..Len(m.pubs) : ~m.pubs[i].refused /\ m.pubs[i].st = "arrived"
    THEN Fail(m, IF ev.n > 0 THEN "C12:reading-never-resumed"
                 ELSE IF \E i \in 1..Len(m.pubs) : ~m.pubs[i].refused /\ m.pubs[i].st = "arrived"
                                                    /\ m.pubs[i].q > 0 /\ MaybeBusyBefore(m, m.pubs[i].id, m.pubs[i].n)
                   THEN "C11:in-use-identifier-not-answered-with-reason-0x91"
                 ELSE "C03:accepted-publish-never-handled")
  ELSE IF \E i \in 1..Len(m.pubs) : LET p == m.pubs[i] IN
            ~p.refused /\ p.st \in {"ok", "nack"} /\ ((p.q = 1 /\ ~p.acked) \/ (p.q = 2 /\ ~p.recd))
            /\ ~(p.st = "nack" /\ m.ver = 3)
    THEN Fail(m, "C04:response-lost")
  ELSE IF \E i \in 1..Len(m.reqs) : m.reqs[i].st = "wait" /\ m.reqs[i].kind # "pubrel_early"
    THEN Fail(m, IF \E i \in 1..Len(m.reqs) : m.reqs[i].st = "wait" /\ m.reqs[i].kind = "pubrel_nf"
                   THEN "C11:pubrel-for-unknown-id-not-answered-with-0x92" ELSE "C04:response-lost")
  ELSE IF ev.n > 0 /\ ev.s = 0 /\ \E i \in 1..Len(m.pubs) : m.pubs[i].st = "started"
    THEN \* a handler is still waiting for payload bytes that sit unread in the transport
         Fail(m, "C12:reading-never-resumed")
  ELSE IF ev.n > 0 THEN Fail(m, "C16:endpoint-stopped-reading-without-ending-the-connection")
  ELSE m

Step(m, ev) ==
  CASE ev.e = "reset" -> [Init EXCEPT !.ver = ev.q, !.role = ev.x]
    [] m.ended -> m
    [] ev.e = "end" -> End([m EXCEPT !.ended = TRUE], "peer")
    [] ev.e = "cfg" -> OnCfg(m, ev)
    [] ev.e = "in" -> OnIn(m, ev)
    [] ev.e = "out" -> OnOut(m, ev)
    [] ev.e = "connected" -> [m EXCEPT !.est = TRUE]
    [] ev.e = "h_start" -> LET m1 == OnHStart(m, ev) IN
                           IF ev.k \notin {"pub", "hs"} THEN [m1 EXCEPT !.ctlRun = @ \cup {ev.s}] ELSE m1
    [] ev.e = "h_end" -> [OnHEnd(m, ev) EXCEPT !.ctlRun = @ \ {ev.s}]
    [] ev.e = "h_drop" -> [OnHDrop(m, ev) EXCEPT !.ctlRun = @ \ {ev.s}]
    [] ev.e = "ctl" -> OnCtl(m, ev)
    [] ev.e = "ctl_done" -> [m EXCEPT !.ctlDone = TRUE]
    [] ev.e = "pollall_done" ->
         IF m.est /\ m.connDone /\ ev.s # 0 THEN Fail(m, "C07:send-future-left-pending-after-teardown") ELSE m
    [] ev.e = "reader_start" -> [m EXCEPT !.readers = @ \cup {ev.s}]
    [] ev.e = "h_read" /\ ev.s \in m.readers /\ ~(LET i == IdxOf(m.pubs, LAMBDA p : p.h = ev.s /\ p.h # 0) IN
                                                  i > 0 /\ ev.r = 0 /\ ev.n >= 0 /\ ev.n < m.pubs[i].size) ->
         [m EXCEPT !.readers = @ \ {ev.s}]
    [] ev.e = "h_read" ->
         \* a payload reader finished: complete only if it got every declared byte, and the bytes
         \* are the ones that were sent
         LET i == IdxOf(m.pubs, LAMBDA p : p.h = ev.s /\ p.h # 0) IN
         IF i > 0 /\ ev.r = 0 /\ ev.n >= 0 /\ ev.n < m.pubs[i].size
           THEN Fail(m, "C07:payload-reader-saw-truncated-payload-as-complete")
         ELSE IF i > 0 /\ ev.r = 0 /\ ev.n > 0 /\ ev.k \in {"all", "chunks"} /\ m.pubs[i].fill >= 0 /\ ev.q # m.pubs[i].fill
           THEN Fail(m, "C03:handler-read-other-payload-bytes")
           ELSE m
    [] ev.e = "in_props" ->
         \* belongs to the PUBLISH that was just recorded (if it was recorded at all)
         IF m.pubs # << >> /\ m.pubs[Len(m.pubs)].n = m.narr /\ m.pubs[Len(m.pubs)].props = "?"
           THEN [m EXCEPT !.pubs[Len(m.pubs)].fill = ev.id, !.pubs[Len(m.pubs)].props = ev.x,
                          !.pubs[Len(m.pubs)].psize = ev.s,
                          !.pubs[Len(m.pubs)].mei = ev.q, !.pubs[Len(m.pubs)].pfi = ev.r]
           ELSE m
    [] ev.e = "h_props" ->
         LET i == IdxOf(m.pubs, LAMBDA p : p.h = ev.s /\ p.h # 0) IN
         IF i > 0 /\ m.pubs[i].props # "?" /\ m.ver = 5
            /\ (ev.x # m.pubs[i].props \/ ev.q # m.pubs[i].mei \/ ev.r # m.pubs[i].pfi)
           THEN Fail(m, "C03:handler-saw-wrong-properties") ELSE m
    \* C18 at connection level: the generator knows (from Topic.tla) whether every filter of the next SUBSCRIBE /
    \* UNSUBSCRIBE is valid
    [] ev.e = "expect_filters" ->
         IF ev.k = "bad" THEN NeedProto(m, "C18:subscription-with-an-invalid-topic-filter-must-end-the-connection")
         ELSE [m EXCEPT !.strict = 18]
    [] ev.e = "final" -> OnFinal(m, ev)
    [] ev.e = "quiet" /\ ev.k = "alive" /\ m.est /\ m.hfail /\ m.expectStop = "stop_error" /\ m.stops = 0 /\ ~m.noCtl /\ ~m.term ->
         \* a handler has failed, everything runnable has run, and the connection control service has not been told:
         \* the failure is parked somewhere and the connection lives on until something else happens to wake it
         Fail(m, "C07:handler-failed-and-the-connection-is-still-up-at-quiescence")
    [] ev.e = "panic" -> Fail(m, "C16:panic")
    [] ev.e = "conn_done" -> End([m EXCEPT !.connDone = TRUE], "local")
    [] ev.e \in {"peer_close", "io_err", "end"} -> End(m, "peer")
    [] ev.e = "close" -> End([m EXCEPT !.appDisc = TRUE], "local")
    [] ev.e = "expect_disc" -> [m EXCEPT !.expectDisc = ev.n]
    [] ev.e = "cause" /\ ev.k \in {"stop_peer", "stop_proto", "stop_error"} ->
         IF m.expectStop = "none" /\ ~m.term THEN [m EXCEPT !.expectStop = ev.k] ELSE m
    [] ev.e = "cause" ->
         \* the generator is about to inject an error to which MQTT 5 assigns a dedicated code
         IF m.term \/ m.appDisc \/ m.expectDisc >= 0 \/ m.needProto THEN m
         ELSE [m EXCEPT !.expectDisc =
                 CASE ev.k = "keepalive" -> 141 [] ev.k = "toolarge" -> 149 [] ev.k = "recvmax" -> 147
                   [] ev.k = "qos" -> 155 [] ev.k = "retain" -> 154 [] ev.k = "subid" -> 161
                   [] ev.k = "alias" -> 148 [] OTHER -> -1]
    [] ev.e = "app_disc" -> [m EXCEPT !.appDisc = TRUE]
    [] OTHER -> m

RECURSIVE StepAll(_, _)
StepAll(m, evs) == IF evs = << >> THEN m ELSE StepAll(Step(m, Head(evs)), Tail(evs))

Ok(m) == m.bad = "none"
=============================================================================
