------------------------------ MODULE ProtoMon ------------------------------
(***************************************************************************)
(* Monitor for the inbound (dispatcher) properties of ntex-mqtt:           *)
(*   C03  each inbound PUBLISH handled once, acknowledged as QoS demands   *)
(*   C04  responses leave in the order their requests arrived              *)
(*   C11  inbound packet identifiers stay reserved until acknowledged      *)
(*   C12  inbound concurrency limits hold and never wedge the connection   *)
(*   C15  MQTT 5 DISCONNECT: at most once, never after the peer's, cause   *)
(*   C16  no sequence of well-formed packets panics or hangs an endpoint   *)
(*   C17  topic aliases resolve to the right topic                         *)
(*                                                                         *)
(* Total, purely functional state machine over the harness event           *)
(* vocabulary; a violation sets m.bad to "<property>:<reason>".  Only what *)
(* the property statements say is asserted; obligations are lifted as soon *)
(* as the connection is ending for a cause the monitor has seen.           *)
(***************************************************************************)
EXTENDS Naturals, Integers, Sequences, FiniteSets, TLC

IdxOf(seq, P(_)) ==
  IF \E i \in 1..Len(seq) : P(seq[i])
  THEN CHOOSE i \in 1..Len(seq) : P(seq[i]) /\ \A j \in 1..(i-1) : ~P(seq[j])
  ELSE 0

Init ==
  [ bad |-> "none", ver |-> 5, role |-> "server",
    est |-> FALSE,          \* handshake completed
    term |-> FALSE,         \* the connection is ending (cause seen)
    cause |-> "none",       \* first termination cause: peer | local | proto | error | timeout
    \* configuration the monitor computes limits from
    maxReceive |-> 16, maxQos |-> 2, aliasMax |-> 32, recvSize |-> 65535,
    \* publishes: [n, id, q, topic, size, flags, st, h, acked, recd, rel, comp, code, chunked]
    \*   st: arrived | started | ok | err | nack
    pubs |-> << >>,
    \* refusals owed for duplicate ids: [id, kind]  (v5: answered with reason 0x91)
    dups |-> << >>,
    notfound |-> << >>,     \* v5: PUBREL for unknown id -> PUBCOMP 0x92 owed: ids
    maynf |-> << >>,        \* v5: PUBREL for an id used otherwise: PUBCOMP 0x92 tolerated
    needProto |-> FALSE,    \* a protocol-error stop is due by the next quiescence
    needWhy |-> "none",
    inuse |-> {},           \* ids of QoS>0 PUBLISH / SUBSCRIBE / UNSUBSCRIBE exchanges in progress
    reqs |-> << >>,         \* response-bearing requests in arrival order: [kind, id, st]
                            \*   st: wait | answered | failed
    narr |-> 0,
    running |-> 0,          \* publish handlers started and not ended
    maxRunning |-> 0,
    aliases |-> << >>,      \* alias bindings: [a, topic]
    stops |-> 0, stopProto |-> FALSE, stopError |-> FALSE, stopPeer |-> FALSE,
    discOut |-> 0, discIn |-> FALSE, afterDisc |-> FALSE,
    expectDisc |-> -1,      \* v5: reason code the DISCONNECT must carry (-1 = no expectation)
    appDisc |-> FALSE,      \* the application supplied / asked for its own DISCONNECT
    connDone |-> FALSE,
    gateStop |-> FALSE,
    unread |-> 0
  ]

Healthy(m) == m.est /\ ~m.term
Fail(m, why) == IF m.bad = "none" THEN [m EXCEPT !.bad = why] ELSE m
End(m, c) == [m EXCEPT !.term = TRUE, !.cause = IF @ = "none" THEN c ELSE @]
NeedProto(m, why) == [m EXCEPT !.needProto = TRUE, !.needWhy = IF @ = "none" THEN why ELSE @]

HasWild(t) == FALSE   \* (strings are opaque to TLC; wildcard topics are not generated)

AliasTopic(m, a) ==
  LET i == IdxOf(m.aliases, LAMBDA b : b.a = a) IN IF i = 0 THEN "" ELSE m.aliases[i].topic

RespName(kind) ==
  CASE kind = "pub1" -> "PUBACK" [] kind = "pub2" -> "PUBREC" [] kind = "pubrel" -> "PUBCOMP"
    [] kind = "sub" -> "SUBACK" [] kind = "unsub" -> "UNSUBACK" [] kind = "ping" -> "PINGRESP"
    [] OTHER -> "NONE"

----------------------------------------------------------------------------
OnCfg(m, ev) ==
  CASE ev.k = "max_receive" -> [m EXCEPT !.maxReceive = ev.n]
    [] ev.k = "max_qos" -> [m EXCEPT !.maxQos = ev.n]
    [] ev.k = "ack_max_qos" -> [m EXCEPT !.maxQos = ev.n]
    [] ev.k = "max_topic_alias" -> [m EXCEPT !.aliasMax = ev.n]
    [] ev.k = "ack_topic_alias_max" -> [m EXCEPT !.aliasMax = ev.n]
    [] ev.k = "client_topic_alias_max" -> [m EXCEPT !.aliasMax = ev.n]
    [] ev.k = "max_receive_size" -> [m EXCEPT !.recvSize = ev.n]
    [] ev.k = "ack_receive_max" -> [m EXCEPT !.maxReceive = ev.n]
    [] ev.k = "client_receive_max" -> [m EXCEPT !.maxReceive = ev.n]
    [] ev.k = "gate_stop" -> [m EXCEPT !.gateStop = (ev.n # 0)]
    [] OTHER -> m

\* a request that bears a response enters the arrival-order list
AddReq(m, kind, id) ==
  [m EXCEPT !.reqs = Append(@, [kind |-> kind, id |-> id, st |-> "wait", h |-> 0, produced |-> FALSE])]

\* C11: an identifier MUST be refused from the arrival of its packet until the endpoint has
\* produced the final acknowledgement of the exchange (handler finished); until that
\* acknowledgement is actually written (it may sit in the ordered response queue) a reuse MAY
\* be refused as well.  m.inuse is the MAY set.
Must(m, id) ==
  \/ \E i \in 1..Len(m.pubs) :
        LET p == m.pubs[i] IN
        /\ p.id = id /\ p.q > 0 /\ ~p.refused /\ ~p.maybe
        /\ IF p.q = 1 THEN p.st \in {"arrived", "started"}
           ELSE ~p.relProduced /\ ~(m.ver = 5 /\ p.st = "nack")
  \/ \E i \in 1..Len(m.reqs) :
        m.reqs[i].kind \in {"sub", "unsub"} /\ m.reqs[i].id = id /\ ~m.reqs[i].produced
                                              /\ m.reqs[i].st = "wait"

OnInPublish(m, ev) ==
  LET n == m.narr + 1
      m0 == [m EXCEPT !.narr = n]
      alias == ev.s
      \* topic alias resolution (MQTT 5)
      bound == AliasTopic(m, alias)
      topic == IF m.ver = 5 /\ alias > 0 /\ ev.x = "" THEN bound ELSE ev.x
      unresolved == m.ver = 5 /\ alias > 0 /\ ev.x = "" /\ bound = ""
      overMax == m.ver = 5 /\ alias > 0 /\ ev.x # "" /\ bound = "" /\ alias > m.aliasMax
      m1 == IF m.ver = 5 /\ alias > 0 /\ ev.x # "" /\ ~overMax
              THEN [m0 EXCEPT !.aliases =
                      LET i == IdxOf(@, LAMBDA b : b.a = alias) IN
                      IF i = 0 THEN Append(@, [a |-> alias, topic |-> ev.x])
                      ELSE [@ EXCEPT ![i].topic = ev.x]]
              ELSE m0
      rec == [n |-> n, id |-> ev.id, q |-> ev.q, topic |-> topic, size |-> ev.n, flags |-> 0,
              st |-> "arrived", h |-> 0, acked |-> FALSE, recd |-> FALSE, rel |-> FALSE,
              comp |-> FALSE, code |-> 0, refused |-> FALSE, maybe |-> FALSE, relProduced |-> FALSE]
  IN
  IF ~Healthy(m) THEN m0
  ELSE IF ev.q > 0 /\ ev.id \in m.inuse /\ ~Must(m, ev.id) THEN
     \* the previous exchange is finished but its acknowledgement is not on the wire yet:
     \* the endpoint may refuse or accept; nothing is demanded for this packet
     [m1 EXCEPT !.pubs = Append(@, [rec EXCEPT !.maybe = TRUE])]
  ELSE IF ev.q > 0 /\ ev.id \in m.inuse THEN
     \* C11: an in-use identifier: never delivered; v3 stop, v5 reason 0x91
     (IF m.ver = 3
        THEN NeedProto([m1 EXCEPT !.pubs = Append(@, [rec EXCEPT !.refused = TRUE])], "C11:duplicate-id-must-end-v3-connection")
        ELSE [m1 EXCEPT !.pubs = Append(@, [rec EXCEPT !.refused = TRUE]),
                        !.dups = Append(@, [id |-> ev.id, kind |-> "pub"])])
  ELSE IF unresolved \/ overMax THEN
     \* C17: unknown alias / alias above the advertised maximum: protocol error, no handler
     NeedProto([m1 EXCEPT !.pubs = Append(@, [rec EXCEPT !.refused = TRUE])],
               IF unresolved THEN "C17:unbound-alias-must-end-connection" ELSE "C17:alias-above-maximum-must-end-connection")
  ELSE
     LET m2 == [m1 EXCEPT !.pubs = Append(@, rec),
                          !.inuse = IF ev.q > 0 THEN @ \cup {ev.id} ELSE @]
     IN IF ev.q = 1 THEN AddReq(m2, "pub1", ev.id)
        ELSE IF ev.q = 2 THEN AddReq(m2, "pub2", ev.id)
        ELSE m2

OnInPubrel(m, ev) ==
  IF ~Healthy(m) THEN m ELSE
  LET i == IdxOf(m.pubs, LAMBDA p : p.id = ev.id /\ p.q = 2 /\ ~p.refused /\ ~p.maybe /\ ~p.comp /\ ~p.rel) IN
  IF i > 0 /\ (m.pubs[i].recd \/ m.pubs[i].st = "ok")
    THEN \* (PUBREC produced; it may still sit in the ordered response queue)
         AddReq([m EXCEPT !.pubs[i].rel = TRUE], "pubrel", ev.id)
  ELSE IF ev.id \in m.inuse
    THEN \* the identifier is in use, but not by an exchange that waits for PUBREL: the
         \* statement does not pin the answer down (v5: 0x92 is accepted, v3: protocol error)
         [m EXCEPT !.maynf = Append(@, ev.id)]
  ELSE IF m.ver = 3
    THEN NeedProto(m, "C11:pubrel-for-unknown-id-must-end-v3-connection")
    ELSE AddReq([m EXCEPT !.notfound = Append(@, ev.id)], "pubrel_nf", ev.id)

OnInSub(m, ev, kind) ==
  IF ~Healthy(m) THEN m
  ELSE IF m.role = "client" THEN NeedProto(m, "C16:unexpected-packet-must-end-connection")
  ELSE IF ev.id \in m.inuse /\ ~Must(m, ev.id) THEN
     \* may be refused or accepted: remembered so that its response is not "unsolicited"
     [m EXCEPT !.reqs = Append(@, [kind |-> kind, id |-> ev.id, st |-> "maybe", h |-> 0, produced |-> FALSE])]
  ELSE IF ev.id \in m.inuse THEN
     (IF m.ver = 3 THEN NeedProto(m, "C11:duplicate-id-must-end-v3-connection")
      ELSE [m EXCEPT !.dups = Append(@, [id |-> ev.id, kind |-> kind])])
  ELSE AddReq([m EXCEPT !.inuse = @ \cup {ev.id}], kind, ev.id)

OnIn(m, ev) ==
  CASE ev.k = "CONNECT" -> m
    [] ev.k = "PUBLISH" -> OnInPublish(m, ev)
    [] ev.k = "PUBREL" -> OnInPubrel(m, ev)
    [] ev.k = "SUBSCRIBE" -> OnInSub(m, ev, "sub")
    [] ev.k = "UNSUBSCRIBE" -> OnInSub(m, ev, "unsub")
    [] ev.k = "PINGREQ" ->
         IF ~Healthy(m) THEN m
         ELSE IF m.role = "client" THEN NeedProto(m, "C16:unexpected-packet-must-end-connection")
         ELSE AddReq(m, "ping", 0)
    [] ev.k = "DISCONNECT" -> End([m EXCEPT !.discIn = TRUE], "peer")
    [] OTHER -> m

----------------------------------------------------------------------------
OnHStart(m, ev) ==
  IF ev.k = "hs" THEN m
  ELSE IF ev.k # "pub" THEN
    \* protocol-control handlers run one at a time in arrival order (server): the k-th handler
    \* of a kind belongs to the k-th waiting request of that kind
    LET j == IdxOf(m.reqs, LAMBDA r : r.kind = ev.k /\ r.h = 0 /\ r.st \in {"wait", "maybe"}
                                       /\ (ev.id = 0 \/ r.id = ev.id)) IN
    IF j = 0 THEN m ELSE [m EXCEPT !.reqs[j].h = ev.s]
  ELSE
    LET i0 == IdxOf(m.pubs, LAMBDA p : p.st = "arrived" /\ ~p.refused /\ ~p.maybe /\ p.id = ev.id /\ p.q = ev.q)
        i1 == IdxOf(m.pubs, LAMBDA p : p.st = "arrived" /\ ~p.refused /\ p.maybe /\ p.id = ev.id /\ p.q = ev.q)
        i == IF i0 > 0 THEN i0 ELSE i1
        j == IdxOf(m.pubs, LAMBDA p : p.refused /\ p.id = ev.id /\ p.q = ev.q /\ p.st = "arrived")
        run == m.running + 1
        m0 == [m EXCEPT !.running = run, !.maxRunning = IF run > @ THEN run ELSE @]
    IN
    IF ~m.est THEN Fail(m0, "C19:handler-before-handshake")
    ELSE IF i = 0 THEN
       (IF j > 0
          THEN Fail([m0 EXCEPT !.pubs[j].st = "started", !.pubs[j].h = ev.s],
                    IF ev.x = "" \/ m.pubs[j].topic = "" THEN "C17:unresolvable-alias-reached-handler"
                    ELSE "C11:in-use-identifier-delivered-to-handler")
          ELSE IF m.term THEN m0
          ELSE Fail(m0, "C03:handler-invoked-without-matching-publish-or-twice"))
    ELSE
      LET p == m.pubs[i]
          ma == [m0 EXCEPT !.pubs[i].st = "started", !.pubs[i].h = ev.s, !.pubs[i].maybe = FALSE,
                           !.inuse = IF p.q > 0 THEN @ \cup {p.id} ELSE @]
          m1 == IF p.maybe THEN AddReq(ma, IF p.q = 1 THEN "pub1" ELSE "pub2", p.id)
                ELSE IF p.q = 0 THEN ma ELSE ma
      IN IF p.topic # ev.x THEN Fail(m1, IF m.ver = 5 /\ Len(m.aliases) > 0 THEN "C17:handler-saw-wrong-topic" ELSE "C03:handler-saw-wrong-topic")
         ELSE IF p.size # ev.n THEN Fail(m1, "C03:handler-saw-wrong-payload-size")
         ELSE IF m.role = "server" /\ m.ver = 3 /\ m.maxReceive > 0 /\ run > m.maxReceive /\ Healthy(m)
           THEN Fail(m1, "C12:more-concurrent-handlers-than-max-receive")
         ELSE m1

OnHEnd(m, ev) ==
  LET i == IdxOf(m.pubs, LAMBDA p : p.h = ev.s /\ p.st = "started")
      j == IdxOf(m.reqs, LAMBDA r : r.h = ev.s /\ r.h # 0 /\ ~r.produced) IN
  IF i = 0 THEN
     (IF j = 0 THEN m
      ELSE LET r == m.reqs[j]
               m1 == [m EXCEPT !.reqs[j].produced = TRUE,
                               !.reqs[j].st = IF ev.k \in {"ok"} THEN @ ELSE "failed"]
               pi == IdxOf(m.pubs, LAMBDA p : p.id = r.id /\ p.q = 2 /\ p.rel /\ ~p.relProduced /\ ~p.refused)
           IN IF r.kind = "pubrel" /\ pi > 0 THEN [m1 EXCEPT !.pubs[pi].relProduced = TRUE] ELSE m1)
  ELSE LET st == CASE ev.k \in {"ok"} -> "ok" [] ev.k \in {"nack", "nack_ok"} -> "nack" [] OTHER -> "err"
           m1 == [m EXCEPT !.pubs[i].st = st, !.pubs[i].code = ev.r,
                           !.running = IF @ > 0 THEN @ - 1 ELSE 0]
           p == m.pubs[i]
           \* a failing handler: its request will not be answered with success
           ri == IdxOf(m.reqs, LAMBDA r : r.st = "wait" /\ r.id = p.id /\ r.kind \in {"pub1", "pub2"})
       IN IF st = "err" \/ (st = "nack" /\ m.ver = 3)
            THEN (IF ri > 0 THEN [m1 EXCEPT !.reqs[ri].st = "failed"] ELSE m1)
            ELSE m1

OnHDrop(m, ev) ==
  LET i == IdxOf(m.pubs, LAMBDA p : p.h = ev.s /\ p.st = "started") IN
  IF i = 0 THEN m
  ELSE LET m1 == [m EXCEPT !.pubs[i].st = "err", !.running = IF @ > 0 THEN @ - 1 ELSE 0] IN
       IF Healthy(m) THEN Fail(m1, "C07:handler-cancelled-on-healthy-connection") ELSE m1

\* C04: the response to request j is written: no earlier response-bearing request may still wait
Answer(m, kind, id) ==
  LET j == IdxOf(m.reqs, LAMBDA r : r.st \in {"wait", "maybe"} /\ r.kind = kind /\ r.id = id) IN
  IF j = 0 THEN m
  ELSE LET m1 == [m EXCEPT !.reqs[j].st = "answered"] IN
       IF Healthy(m) /\ \E i \in 1..(j-1) : m.reqs[i].st = "wait"
         THEN Fail(m1, "C04:response-overtook-an-earlier-request")
         ELSE m1

OnOutPuback(m, ev) ==
  LET i == IdxOf(m.pubs, LAMBDA p : p.id = ev.id /\ p.q = 1 /\ ~p.acked /\ ~p.refused /\ ~p.maybe)
      d == IdxOf(m.dups, LAMBDA x : x.id = ev.id /\ x.kind = "pub")
      q2 == IdxOf(m.pubs, LAMBDA p : p.id = ev.id /\ p.q = 2 /\ ~p.recd /\ ~p.refused /\ ~p.maybe)
  IN
  IF m.ver = 5 /\ ev.r = 145 /\ d > 0
    THEN [m EXCEPT !.dups = SubSeq(@, 1, d-1) \o SubSeq(@, d+1, Len(@))]
  ELSE IF m.ver = 5 /\ ev.r = 145
          /\ IdxOf(m.pubs, LAMBDA p : p.id = ev.id /\ p.maybe /\ p.st = "arrived") > 0
    THEN LET k == IdxOf(m.pubs, LAMBDA p : p.id = ev.id /\ p.maybe /\ p.st = "arrived") IN
         [m EXCEPT !.pubs[k].refused = TRUE, !.pubs[k].maybe = FALSE]
  ELSE IF i = 0 THEN
    (IF q2 > 0 THEN Fail(m, "C03:qos2-publish-acknowledged-with-puback")
     ELSE IF m.ver = 5 /\ ev.r = 145 THEN Fail(m, "C11:free-identifier-refused-as-in-use")
     ELSE Fail(m, "C03:puback-without-matching-publish-or-duplicate"))
  ELSE
    LET p == m.pubs[i]
        m1 == Answer([m EXCEPT !.pubs[i].acked = TRUE, !.inuse = @ \ {ev.id}], "pub1", ev.id)
    IN IF p.st \in {"arrived", "started"} THEN Fail(m1, "C03:acknowledged-before-handler-completed")
       ELSE IF p.st = "err" THEN Fail(m1, "C03:acknowledged-although-handler-failed")
       ELSE IF p.st = "nack" /\ m.ver = 3 THEN Fail(m1, "C03:acknowledged-although-handler-failed")
       ELSE IF m.ver = 5 /\ p.st = "nack" /\ ev.r # p.code THEN Fail(m1, "C03:negative-ack-code-differs-from-application-mapping")
       ELSE IF m.ver = 5 /\ p.st = "ok" /\ ev.r # 0 THEN Fail(m1, "C03:success-handler-acknowledged-with-error-code")
       ELSE m1

OnOutPubrec(m, ev) ==
  LET i == IdxOf(m.pubs, LAMBDA p : p.id = ev.id /\ p.q = 2 /\ ~p.recd /\ ~p.refused /\ ~p.maybe)
      d == IdxOf(m.dups, LAMBDA x : x.id = ev.id /\ x.kind = "pub")
  IN
  IF m.ver = 5 /\ ev.r = 145 /\ d > 0
    THEN [m EXCEPT !.dups = SubSeq(@, 1, d-1) \o SubSeq(@, d+1, Len(@))]
  ELSE IF i = 0 THEN Fail(m, "C03:pubrec-without-matching-publish-or-duplicate")
  ELSE
    LET p == m.pubs[i]
        m0 == IF m.ver = 5 /\ ev.r >= 128
                THEN [m EXCEPT !.pubs[i].recd = TRUE, !.pubs[i].rel = TRUE, !.pubs[i].comp = TRUE,
                               !.pubs[i].relProduced = TRUE, !.inuse = @ \ {ev.id}]
                ELSE [m EXCEPT !.pubs[i].recd = TRUE]
        m1 == Answer(m0, "pub2", ev.id)
    IN IF p.st \in {"arrived", "started"} THEN Fail(m1, "C03:acknowledged-before-handler-completed")
       ELSE IF p.st = "err" \/ (p.st = "nack" /\ m.ver = 3) THEN Fail(m1, "C03:acknowledged-although-handler-failed")
       ELSE IF m.ver = 5 /\ p.st = "nack" /\ ev.r # p.code THEN Fail(m1, "C03:negative-ack-code-differs-from-application-mapping")
       ELSE IF m.ver = 5 /\ p.st = "ok" /\ ev.r # 0 THEN Fail(m1, "C03:success-handler-acknowledged-with-error-code")
       ELSE m1

OnOutPubcomp(m, ev) ==
  LET i == IdxOf(m.pubs, LAMBDA p : p.id = ev.id /\ p.q = 2 /\ p.rel /\ ~p.comp)
      nf == IdxOf(m.notfound, LAMBDA x : x = ev.id)
  IN
  IF i > 0 THEN Answer([m EXCEPT !.pubs[i].comp = TRUE, !.inuse = @ \ {ev.id}], "pubrel", ev.id)
  ELSE IF m.ver = 5 /\ ev.r = 146 /\ nf > 0
    THEN Answer([m EXCEPT !.notfound = SubSeq(@, 1, nf-1) \o SubSeq(@, nf+1, Len(@))], "pubrel_nf", ev.id)
  ELSE IF m.ver = 5 /\ ev.r = 146 /\ IdxOf(m.maynf, LAMBDA x : x = ev.id) > 0
    THEN LET k == IdxOf(m.maynf, LAMBDA x : x = ev.id) IN
         [m EXCEPT !.maynf = SubSeq(@, 1, k-1) \o SubSeq(@, k+1, Len(@))]
  ELSE IF ~Healthy(m) THEN m
  ELSE Fail(m, "C03:pubcomp-without-matching-pubrel")

OnOutSubAck(m, ev, kind) ==
  LET d == IdxOf(m.dups, LAMBDA x : x.id = ev.id /\ x.kind = kind)
      j == IdxOf(m.reqs, LAMBDA r : r.st \in {"wait", "maybe"} /\ r.kind = kind /\ r.id = ev.id)
      mb == IdxOf(m.reqs, LAMBDA r : r.st = "maybe" /\ r.kind = kind /\ r.id = ev.id)
  IN IF m.ver = 5 /\ ev.r = 145 /\ d = 0 /\ mb > 0
       THEN [m EXCEPT !.reqs[mb].st = "answered"]
     ELSE IF m.ver = 5 /\ ev.r = 145 /\ d > 0
       THEN [m EXCEPT !.dups = SubSeq(@, 1, d-1) \o SubSeq(@, d+1, Len(@))]
     ELSE IF j = 0 THEN (IF Healthy(m) THEN Fail(m, "C04:duplicate-or-unsolicited-response") ELSE m)
     ELSE Answer([m EXCEPT !.inuse = @ \ {ev.id}], kind, ev.id)

OnOutDisconnect(m, ev) ==
  LET m1 == End([m EXCEPT !.discOut = @ + 1, !.afterDisc = FALSE], "local") IN
  IF m.ver # 5 THEN m1
  ELSE IF m.discOut >= 1 THEN Fail(m1, "C15:second-disconnect-written")
  ELSE IF m.discIn /\ ~(m.stopProto \/ m.needProto) THEN Fail(m1, "C15:disconnect-written-after-peers-disconnect")
  ELSE IF m.expectDisc >= 0 /\ ~m.appDisc /\ ev.r # m.expectDisc THEN Fail(m1, "C15:disconnect-does-not-name-the-cause")
  ELSE IF (m.cause \in {"proto", "error", "timeout"} \/ m.needProto) /\ ~m.appDisc /\ ev.r = 0
    THEN Fail(m1, "C15:error-reported-as-normal-disconnection")
  ELSE m1

OnOut(m, ev) ==
  LET m0 == IF m.ver = 5 /\ m.discOut > 0 /\ ev.k # "DISCONNECT"
              THEN Fail(m, "C15:packet-written-after-own-disconnect") ELSE m
  IN
  CASE ev.k = "CONNACK" -> [m0 EXCEPT !.est = (ev.r = 0)]
    [] ev.k = "PUBACK" -> OnOutPuback(m0, ev)
    [] ev.k = "PUBREC" -> OnOutPubrec(m0, ev)
    [] ev.k = "PUBCOMP" -> OnOutPubcomp(m0, ev)
    [] ev.k = "SUBACK" -> OnOutSubAck(m0, ev, "sub")
    [] ev.k = "UNSUBACK" -> OnOutSubAck(m0, ev, "unsub")
    [] ev.k = "PINGRESP" ->
         LET j == IdxOf(m0.reqs, LAMBDA r : r.st = "wait" /\ r.kind = "ping") IN
         IF j = 0 THEN (IF Healthy(m0) THEN Fail(m0, "C04:duplicate-or-unsolicited-response") ELSE m0)
         ELSE Answer(m0, "ping", 0)
    [] ev.k = "DISCONNECT" -> OnOutDisconnect(m0, ev)
    [] OTHER -> m0

OnCtl(m, ev) ==
  CASE ev.k \in {"stop_proto", "stop_error", "stop_peer"} ->
         LET m1 == [m EXCEPT !.stops = @ + 1,
                             !.stopProto = @ \/ ev.k = "stop_proto",
                             !.stopError = @ \/ ev.k = "stop_error",
                             !.stopPeer = @ \/ ev.k = "stop_peer",
                             !.needProto = IF ev.k = "stop_proto" THEN FALSE ELSE @]
             m2 == End(m1, CASE ev.k = "stop_proto" -> "proto" [] ev.k = "stop_error" -> "error" [] OTHER -> "peer")
         IN IF m.stops >= 1 THEN Fail(m2, "C07:more-than-one-stop-notification") ELSE m2
    [] OTHER -> m

OnQuiet(m, ev) == m

\* final{s: gates still open, n: bytes the endpoint has not read}: every gate the harness could
\* open was opened with outcome ok, to a fixpoint
OnFinal(m, ev) ==
  IF m.needProto /\ ~m.stopProto /\ m.est /\ m.cause \in {"none", "proto"} /\ ev.s = 0
    THEN \* (an error result may wait in the ordered response queue until the handlers ahead
         \*  of it complete: the protocol-error stop is due once every gate was opened)
         Fail(m, m.needWhy)
  ELSE IF ~Healthy(m) THEN
     (IF m.est /\ m.stops > 0 /\ ~m.connDone /\ ~m.gateStop /\ ev.s = 0
        THEN Fail(m, "C07:connection-task-did-not-complete-after-stop") ELSE m)
  ELSE IF \E i \in 1..Len(m.pubs) : ~m.pubs[i].refused /\ ~m.pubs[i].maybe /\ m.pubs[i].st = "arrived"
    THEN Fail(m, IF ev.n > 0 THEN "C12:reading-never-resumed" ELSE "C03:accepted-publish-never-handled")
  ELSE IF m.ver = 5 /\ Len(m.dups) > 0
    THEN Fail(m, "C11:in-use-identifier-not-answered-with-reason-0x91")
  ELSE IF m.ver = 5 /\ Len(m.notfound) > 0
    THEN Fail(m, "C11:pubrel-for-unknown-id-not-answered-with-0x92")
  ELSE IF \E i \in 1..Len(m.reqs) : m.reqs[i].st = "wait"
    THEN Fail(m, "C04:response-lost")
  ELSE IF ev.n > 0 THEN Fail(m, "C16:endpoint-stopped-reading-without-ending-the-connection")
  ELSE m

Step(m, ev) ==
  CASE ev.e = "reset" -> [Init EXCEPT !.ver = ev.q, !.role = ev.x]
    [] ev.e = "cfg" -> OnCfg(m, ev)
    [] ev.e = "in" -> OnIn(m, ev)
    [] ev.e = "out" -> OnOut(m, ev)
    [] ev.e = "connected" -> [m EXCEPT !.est = TRUE]
    [] ev.e = "h_start" -> OnHStart(m, ev)
    [] ev.e = "h_end" -> OnHEnd(m, ev)
    [] ev.e = "h_drop" -> OnHDrop(m, ev)
    [] ev.e = "ctl" -> OnCtl(m, ev)
    [] ev.e = "quiet" -> OnQuiet(m, ev)
    [] ev.e = "final" -> OnFinal(m, ev)
    [] ev.e = "panic" -> Fail(m, "C16:panic")
    [] ev.e = "conn_done" -> End([m EXCEPT !.connDone = TRUE], "local")
    [] ev.e \in {"peer_close", "io_err", "end"} -> End(m, "peer")
    [] ev.e = "close" -> End([m EXCEPT !.appDisc = TRUE], "local")
    [] ev.e = "expect_disc" -> [m EXCEPT !.expectDisc = ev.n]
    [] ev.e = "app_disc" -> [m EXCEPT !.appDisc = TRUE]
    [] OTHER -> m

RECURSIVE StepAll(_, _)
StepAll(m, evs) == IF evs = << >> THEN m ELSE StepAll(Step(m, Head(evs)), Tail(evs))

Ok(m) == m.bad = "none"
=============================================================================
