-------------------------------- MODULE Bytes --------------------------------
(***************************************************************************)
(* Byte-level primitives of the MQTT wire format (MQTT 3.1.1 section 1.5 / *)
(* 2.2.3, MQTT 5 section 1.5), written from the OASIS text: big-endian     *)
(* integers, UTF-8 strings and binary data with a two byte length prefix,  *)
(* the variable byte integer, and UTF-8 well-formedness (RFC 3629).        *)
(* Byte strings are sequences of naturals in 0..255.                       *)
(*                                                                         *)
(* Readers take (b, i, lim): read at index i (1-based), never at or beyond *)
(* lim (exclusive end of the enclosing frame / block).  They return        *)
(* [ok |-> TRUE, v, i] or [ok |-> FALSE, why].                             *)
(***************************************************************************)
EXTENDS Naturals, Integers, Sequences, SequencesExt, FiniteSets, TLC

U8(v) == <<v>>
U16(v) == <<v \div 256, v % 256>>
\* four byte integers at or above 2^31 are represented by their two's complement (TLC integers are 32 bit)
U32(v) == <<(v \div 16777216) % 256, (v \div 65536) % 256, (v \div 256) % 256, v % 256>>

RECURSIVE VarEnc(_)
VarEnc(v) == IF v < 128 THEN <<v>> ELSE <<128 + (v % 128)>> \o VarEnc(v \div 128)
VarLen(v) == IF v < 128 THEN 1 ELSE IF v < 16384 THEN 2 ELSE IF v < 2097152 THEN 3 ELSE 4
VarMax == 268435455

Str(s) == U16(Len(s)) \o s

Err(why) == [ok |-> FALSE, why |-> why]
Okv(v, i) == [ok |-> TRUE, v |-> v, i |-> i]

RdU8(b, i, lim) == IF i + 1 > lim THEN Err("length") ELSE Okv(b[i], i + 1)
RdU16(b, i, lim) == IF i + 2 > lim THEN Err("length") ELSE Okv(b[i] * 256 + b[i + 1], i + 2)
RdU32(b, i, lim) ==
  IF i + 4 > lim THEN Err("length")
  ELSE Okv((IF b[i] >= 128 THEN b[i] - 256 ELSE b[i]) * 16777216 + b[i + 1] * 65536 + b[i + 2] * 256 + b[i + 3], i + 4)

\* variable byte integer: at most 4 bytes
RECURSIVE RdVarAt(_, _, _, _, _, _)
RdVarAt(b, i, lim, k, mult, acc) ==
  IF k > 4 THEN Err("varint")
  ELSE IF i + 1 > lim THEN Err("length")
  ELSE IF b[i] < 128 THEN Okv(acc + b[i] * mult, i + 1)
  ELSE RdVarAt(b, i + 1, lim, k + 1, mult * 128, acc + (b[i] - 128) * mult)
RdVar(b, i, lim) == RdVarAt(b, i, lim, 1, 1, 0)

\* UTF-8 well-formedness (RFC 3629): no overlong forms, no surrogates, at most U+10FFFF.
\* A left fold over the bytes with the state "continuation bytes still owed, and the range the next
\* one must lie in" (FoldLeft is evaluated iteratively by TLC, strings may be 65535 bytes long).
Utf8Step(st, c) ==
  IF ~st.ok THEN st
  ELSE IF st.need = 0 THEN
    (IF c < 128 THEN st
     ELSE IF c >= 194 /\ c <= 223 THEN [ok |-> TRUE, need |-> 1, lo |-> 128, hi |-> 191]
     ELSE IF c = 224 THEN [ok |-> TRUE, need |-> 2, lo |-> 160, hi |-> 191]
     ELSE IF (c >= 225 /\ c <= 236) \/ c = 238 \/ c = 239 THEN [ok |-> TRUE, need |-> 2, lo |-> 128, hi |-> 191]
     ELSE IF c = 237 THEN [ok |-> TRUE, need |-> 2, lo |-> 128, hi |-> 159]
     ELSE IF c = 240 THEN [ok |-> TRUE, need |-> 3, lo |-> 144, hi |-> 191]
     ELSE IF c >= 241 /\ c <= 243 THEN [ok |-> TRUE, need |-> 3, lo |-> 128, hi |-> 191]
     ELSE IF c = 244 THEN [ok |-> TRUE, need |-> 3, lo |-> 128, hi |-> 143]
     ELSE [st EXCEPT !.ok = FALSE])
  ELSE IF c >= st.lo /\ c <= st.hi THEN [ok |-> TRUE, need |-> st.need - 1, lo |-> 128, hi |-> 191]
  ELSE [st EXCEPT !.ok = FALSE]
Utf8Ok(s) ==
  LET r == FoldLeft(Utf8Step, [ok |-> TRUE, need |-> 0, lo |-> 128, hi |-> 191], s) IN r.ok /\ r.need = 0

\* binary data / string with two byte length prefix
RdBin(b, i, lim) ==
  IF i + 2 > lim THEN Err("length")
  ELSE LET n == b[i] * 256 + b[i + 1] IN
       IF i + 2 + n > lim THEN Err("length") ELSE Okv(SubSeq(b, i + 2, i + 1 + n), i + 2 + n)
RdStr(b, i, lim) ==
  LET r == RdBin(b, i, lim) IN
  IF ~r.ok THEN r ELSE IF Utf8Ok(r.v) THEN r ELSE Err("utf8")

\* payloads in generated vectors follow a position pattern: the byte at payload offset i is i % 251;
\* large pieces are compared by their checksum
PatSum(from, n) ==  \* sum of (i % 251) for i in from..from+n-1, modulo 65521 (32 bit safe)
  LET S(m) == ((m \div 251) % 65521) * 31375 + ((m % 251) * ((m % 251) - 1)) \div 2 IN
  ((S(from + n) % 65521) + 65521 - (S(from) % 65521)) % 65521
=============================================================================
