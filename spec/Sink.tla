-------------------------------- MODULE Sink --------------------------------
(***************************************************************************)
(* Implementation-shaped model of the outbound side of an ntex-mqtt        *)
(* connection: MqttShared / MqttSink (src/v3/shared.rs, src/v5/shared.rs,  *)
(* src/v3/sink.rs, src/v5/sink.rs), as of the current tree (i.e. with the  *)
(* three "fix:" commits recorded in known_findings.json; the model of the  *)
(* code before them, in which TLC exhibited the defects, is kept in        *)
(* legacy/SinkLegacy.tla).                                                 *)
(*                                                                         *)
(* One action per harness command = one await-delimited section of the     *)
(* code followed by running the connection's own tasks to quiescence (the  *)
(* connection lives on a single-threaded runtime; sender futures are owned *)
(* and polled by the environment, so the window between "woken" and        *)
(* "resumed" is explicit).  DESIGN.md appendix B is the step structure     *)
(* this module transcribes.                                                *)
(*                                                                         *)
(* Every action emits the observable events the real harness records; the  *)
(* monitor SinkMon consumes them (variable mon).                           *)
(***************************************************************************)
EXTENDS Naturals, Integers, Sequences, FiniteSets, TLC, Json

CONSTANTS
  Ver,        \* 3 | 5
  Cap,        \* send window (cap)
  Kinds,      \* sequence: kind of each sender ("q1","q2","sub","unsub","ready")
  IdMax,      \* packet ids wrap at IdMax (65535 in the code)
  MaxUses,    \* how many times a sender index may be (re)used: send-again loops
  MaxBad,     \* how many wrong acknowledgements the peer may send
  UseWrb,     \* BOOLEAN: back-pressure notifications are part of the environment
  UseCancel,  \* BOOLEAN: sender futures may be dropped
  CallerIds,  \* set of caller-chosen ids offered to Send (0 = automatic)
  PreHs       \* BOOLEAN: the behaviour starts inside the handshake service (server role): the sink exists
              \* (Handshake::sink()), the window is still 0 and is opened by set_cap() when the handshake
              \* is acknowledged (action HsDone)

Mon == INSTANCE SinkMon

Senders == 1..Len(Kinds)
RelOf(s) == s + 20                      \* harness slot of the release future of sender s

VARIABLES
  inflight,   \* Seq of [id, tx, tp]: tx = sender index (reply channel), 0 = receiver gone
  ids,        \* inflight_ids
  waiters,    \* Seq of sender indices (readiness channels, FIFO)
  received,   \* QoS 2 exchanges: PUBREC received, PUBREL not yet written
  wrb,        \* WRB_ENABLED
  nextId,     \* inflight_idx
  closed,     \* io closed
  cap,        \* current send window (0 until the handshake is acknowledged, then Cap)
  sd,         \* sender table
  owedP,      \* what the peer still has to answer, wire order: [id, a]
  nbad, uses,
  mon,        \* monitor state (SinkMon)
  hist,       \* command history (replay file); not part of the VIEW
  pred        \* events emitted by the last action (trace validation compares them with the recorded ones); not in the VIEW

vars == <<inflight, ids, waiters, received, wrb, nextId, closed, cap, sd, owedP, nbad, uses, mon, hist, pred>>
view == <<inflight, ids, waiters, received, wrb, nextId, closed, cap, sd, owedP, nbad, uses, mon>>

E(e, k, s, id, q, r, n) == [e |-> e, k |-> k, s |-> s, id |-> id, q |-> q, r |-> r, n |-> n, x |-> ""]
Quiet == E("quiet", "alive", 0, 0, 0, 0, 0)
Emit(evs) == mon' = Mon!StepAll(mon, evs) /\ pred' = evs

NoSender == [pc |-> "idle", w |-> "none", a |-> "none", av |-> "none", id |-> 0, cid |-> 0,
             res |-> "none"]

Init ==
  /\ inflight = << >> /\ ids = {} /\ waiters = << >> /\ received = 0 /\ wrb = FALSE
  /\ nextId = 0 /\ closed = FALSE /\ cap = (IF PreHs THEN 0 ELSE Cap)
  /\ sd = [s \in Senders |-> NoSender]
  /\ owedP = << >> /\ nbad = 0 /\ uses = [s \in Senders |-> 0]
  /\ mon = Mon!StepAll(Mon!Init,
            << [E("reset", "server", 0, 0, Ver, 0, 0) EXCEPT !.x = "server"],
               E("cfg", "max_send", 0, 0, 0, 0, Cap) >>
            \o (IF PreHs THEN << >> ELSE << E("out", "CONNACK", 0, 0, 0, 0, 0) >>))
  /\ hist = << >> /\ pred = << >>

----------------------------------------------------------------------------
\* helpers over the code's data structures

UsedOf(infl, rcv) == Len(infl) + rcv
NotReadyOf(infl, rcv) == UsedOf(infl, rcv) >= cap \/ wrb        \* wait_readiness() parks
NotReady == NotReadyOf(inflight, received)

TpOf(kind) == CASE kind = "q1" -> "Publish" [] kind = "q2" -> "Receive"
                [] kind = "sub" -> "Subscribe" [] kind = "unsub" -> "Unsubscribe"
                [] OTHER -> "none"
AckNameOf(tp) == CASE tp = "Publish" -> "PUBACK" [] tp = "Receive" -> "PUBREC"
                   [] tp = "Complete" -> "PUBCOMP" [] tp = "Subscribe" -> "SUBACK"
                   [] tp = "Unsubscribe" -> "UNSUBACK" [] OTHER -> "NONE"
TpOfAck(a) == CASE a = "PUBACK" -> "Publish" [] a = "PUBREC" -> "Receive"
                [] a = "PUBCOMP" -> "Complete" [] a = "SUBACK" -> "Subscribe"
                [] a = "UNSUBACK" -> "Unsubscribe" [] OTHER -> "none"
OutName(kind) == CASE kind \in {"q1", "q2"} -> "PUBLISH" [] kind = "sub" -> "SUBSCRIBE"
                   [] OTHER -> "UNSUBSCRIBE"
QosOf(kind) == CASE kind = "q1" -> 1 [] kind = "q2" -> 2 [] OTHER -> 0

\* a waiter's channel is live iff its sender future still exists and is parked on it
LiveWaiter(tbl, s) == tbl[s].pc = "parked" /\ tbl[s].w = "pend"

\* wake up to n live waiters (pop dead ones on the way); returns <<waiters', table'>>
RECURSIVE WakeN(_, _, _)
WakeN(ws, tbl, n) ==
  IF n = 0 \/ ws = << >> THEN <<ws, tbl>>
  ELSE LET s == Head(ws) IN
       IF LiveWaiter(tbl, s)
         THEN WakeN(Tail(ws), [tbl EXCEPT ![s].w = "ok"], n - 1)
         ELSE WakeN(Tail(ws), tbl, n)

\* wake_waiter(): wake the next waiter if the window has a free slot
WakeIfFree(ws, tbl, infl, rcv) ==
  IF UsedOf(infl, rcv) < cap /\ ~wrb THEN WakeN(ws, tbl, 1) ELSE <<ws, tbl>>

\* clear_queues(): every readiness channel and every reply channel loses its sender side
Cleared(tbl) ==
  [s \in Senders |->
     LET r == tbl[s] IN
     [r EXCEPT !.w = IF @ = "pend" THEN "cancel" ELSE @,
               !.a = IF @ = "pend" THEN "cancel" ELSE @]]

----------------------------------------------------------------------------
\* packet id + wait_publish_response / wait_response + encode
\* returns [tbl, infl, ids, nid, owed, evs]
Inner(s, tbl, infl, idset, nid, owed) ==
  LET kind == Kinds[s]
      auto == tbl[s].cid = 0
      idx == nid + 1
      pid == IF auto THEN (IF idx = IdMax THEN IdMax ELSE idx) ELSE tbl[s].cid
      nid2 == IF auto THEN (IF idx = IdMax THEN 0 ELSE idx) ELSE nid
      outEv == IF kind \in {"q1", "q2"}
                 THEN E("out", "PUBLISH", 0, pid, QosOf(kind), 0, 1)
                 ELSE E("out", OutName(kind), 0, pid, 0, 0, 0)
  IN IF pid \in idset
       THEN [tbl |-> [tbl EXCEPT ![s].pc = "rdy", ![s].res = "PacketIdInUse", ![s].id = pid],
             infl |-> infl, ids |-> idset, nid |-> nid2, owed |-> owed, evs |-> << >>]
       ELSE [tbl |-> [tbl EXCEPT ![s].pc = "ack", ![s].a = "pend", ![s].id = pid],
             infl |-> Append(infl, [id |-> pid, tx |-> s, tp |-> TpOf(kind)]),
             ids |-> idset \cup {pid}, nid |-> nid2,
             owed |-> IF closed THEN owed ELSE Append(owed, [id |-> pid, a |-> AckNameOf(TpOf(kind))]),
             evs |-> IF closed THEN << >> ELSE << outEv >>]

\* the window check and the encode happen inside the call
Eager(kind) == (Ver = 3 /\ kind \in {"q1", "q2"}) \/ (Ver = 5 /\ kind = "q2")

----------------------------------------------------------------------------
\* Send(s, cid): the application calls the send API (creates the future)
Send(s, cid) ==
  /\ sd[s].pc \in {"idle", "done", "dropped"} /\ uses[s] < MaxUses
  /\ uses' = [uses EXCEPT ![s] = @ + 1]
  /\ LET kind == Kinds[s]
         base == [NoSender EXCEPT !.cid = cid]
         call == E("send_call", kind, s, cid, 0, 0, 0)
     IN
     IF kind \in {"sub", "unsub"}
       THEN \* async fn: nothing happens at call time
            /\ sd' = [sd EXCEPT ![s] = [base EXCEPT !.pc = "lazy"]]
            /\ UNCHANGED <<inflight, ids, waiters, nextId, owedP>>
            /\ Emit(<<call, Quiet>>)
     ELSE IF closed
       THEN /\ sd' = [sd EXCEPT ![s] = [base EXCEPT !.pc = "rdy", !.res = "Disconnected"]]
            /\ UNCHANGED <<inflight, ids, waiters, nextId, owedP>>
            /\ Emit(<<call, Quiet>>)
     ELSE IF kind = "q1" /\ Ver = 5
       THEN \* v5 QoS 1: the window is checked when the packet is encoded (first poll)
            /\ sd' = [sd EXCEPT ![s] = [base EXCEPT !.pc = "lazy"]]
            /\ UNCHANGED <<inflight, ids, waiters, nextId, owedP>>
            /\ Emit(<<call, Quiet>>)
     ELSE IF NotReady
       THEN \* wait_readiness() pushes a waiter at call time
            /\ sd' = [sd EXCEPT ![s] = [base EXCEPT !.pc = "parked", !.w = "pend"]]
            /\ waiters' = Append(waiters, s)
            /\ UNCHANGED <<inflight, ids, nextId, owedP>>
            /\ Emit(<<call, Quiet>>)
     ELSE IF kind = "ready"
       THEN /\ sd' = [sd EXCEPT ![s] = [base EXCEPT !.pc = "rdy", !.res = "ok"]]
            /\ UNCHANGED <<inflight, ids, waiters, nextId, owedP>>
            /\ Emit(<<call, Quiet>>)
     ELSE \* eager: id + encode happen inside the call
            LET r == Inner(s, [sd EXCEPT ![s] = base], inflight, ids, nextId, owedP) IN
            /\ sd' = r.tbl /\ inflight' = r.infl /\ ids' = r.ids /\ nextId' = r.nid
            /\ owedP' = r.owed /\ UNCHANGED waiters
            /\ Emit(<<call>> \o r.evs \o <<Quiet>>)
  /\ UNCHANGED <<received, wrb, closed, nbad>>
  /\ hist' = Append(hist, "s" \o ToString(s) \o ":" \o Kinds[s] \o ":" \o ToString(cid))

\* completion of a reply channel: how the API maps the delivered acknowledgement
MapAck(kind) == IF kind = "q2" THEN "receipt" ELSE "ok"

\* Poll(s): the environment polls the sender future once
Poll(s) ==
  /\ sd[s].pc \in {"lazy", "parked", "ack", "rdy"}
  /\ LET kind == Kinds[s]
         r == sd[s]
         poll(k) == E("send_poll", k, s, 0, 0, 0, 0)
         done(res, id) == E("send_done", res, s, IF Ver = 5 \/ res = "PacketIdInUse" THEN id ELSE 0, 0, 0, 0)
         \* the window is free (or the waiter was notified and re-checked): id, register, encode
         Proceed(tbl0) ==
           LET x == Inner(s, tbl0, inflight, ids, nextId, owedP) IN
           /\ inflight' = x.infl /\ ids' = x.ids /\ nextId' = x.nid /\ owedP' = x.owed
           /\ UNCHANGED waiters
           /\ IF x.tbl[s].pc = "rdy"
                THEN /\ sd' = [x.tbl EXCEPT ![s].pc = "done"]
                     /\ Emit(<<poll("ready"), done("PacketIdInUse", x.tbl[s].id), Quiet>>)
                ELSE /\ sd' = x.tbl
                     /\ Emit(x.evs \o <<poll("pending"), Quiet>>)
         Park ==
           /\ sd' = [sd EXCEPT ![s].pc = "parked", ![s].w = "pend"]
           /\ waiters' = Append(waiters, s)
           /\ Emit(<<poll("pending"), Quiet>>)
           /\ UNCHANGED <<inflight, ids, nextId, owedP>>
         Finish(res, id) ==
           /\ sd' = [sd EXCEPT ![s].pc = "done"]
           /\ Emit(<<poll("ready"), done(res, id), Quiet>>)
           /\ UNCHANGED <<inflight, ids, waiters, nextId, owedP>>
     IN
     CASE r.pc = "rdy" -> Finish(r.res, IF r.res = "PacketIdInUse" THEN r.id ELSE 0)
       [] r.pc = "lazy" ->
            IF closed THEN Finish("Disconnected", 0)
            ELSE IF NotReady THEN Park
            ELSE Proceed(sd)
       [] r.pc = "parked" ->
            (CASE r.w = "pend" ->
                   /\ Emit(<<poll("pending"), Quiet>>)
                   /\ UNCHANGED <<sd, inflight, ids, waiters, nextId, owedP>>
               [] r.w = "cancel" -> Finish("Disconnected", 0)
               [] r.w = "ok" ->
                   \* Waiter: notified; connection gone -> Disconnected; the slot may have been
                   \* taken meanwhile -> queue again
                   IF closed THEN Finish("Disconnected", 0)
                   ELSE IF NotReady THEN Park
                   ELSE IF kind = "ready"
                     THEN \* readiness does not use a slot: pass the notification on
                          LET w == WakeIfFree(waiters, [sd EXCEPT ![s].pc = "done"], inflight, received) IN
                          /\ sd' = w[2] /\ waiters' = w[1]
                          /\ Emit(<<poll("ready"), done("ok", 0), Quiet>>)
                          /\ UNCHANGED <<inflight, ids, nextId, owedP>>
                   ELSE Proceed(sd))
       [] r.pc = "ack" ->
            (CASE r.a = "pend" ->
                   /\ Emit(<<poll("pending"), Quiet>>)
                   /\ UNCHANGED <<sd, inflight, ids, waiters, nextId, owedP>>
               [] r.a = "cancel" -> Finish("Disconnected", 0)
               [] r.a = "ok" ->
                   /\ UNCHANGED <<inflight, ids, waiters, nextId, owedP>>
                   /\ IF MapAck(kind) = "receipt"
                        THEN /\ sd' = [sd EXCEPT ![s].pc = "hold"]
                             /\ Emit(<<poll("ready"), done("receipt", r.id), Quiet>>)
                        ELSE /\ sd' = [sd EXCEPT ![s].pc = "done"]
                             /\ Emit(<<poll("ready"), done("ok", r.id), Quiet>>))
  /\ UNCHANGED <<received, wrb, closed, nbad, uses>>
  /\ hist' = Append(hist, "p" \o ToString(s))

\* Drop(s): the application drops (cancels) the send future
Drop(s) ==
  /\ UseCancel
  /\ sd[s].pc \in {"lazy", "parked", "ack", "rdy"}
  /\ LET tbl == [sd EXCEPT ![s].pc = "dropped"]
         ev == E("send_drop", "", s, 0, 0, 0, 1)
     IN
     IF sd[s].pc = "ack" /\ sd[s].a = "ok" /\ Kinds[s] = "q2" /\ ~closed /\ received > 0
       THEN \* ReceiptWaiter::drop: PUBREC was delivered, the publish is released
            /\ sd' = tbl /\ received' = received - 1
            /\ inflight' = Append(inflight, [id |-> sd[s].id, tx |-> 0, tp |-> "Complete"])
            /\ owedP' = Append(owedP, [id |-> sd[s].id, a |-> "PUBCOMP"])
            /\ Emit(<<ev, E("out", "PUBREL", 0, sd[s].id, 0, 0, 0), Quiet>>)
            /\ UNCHANGED waiters
       ELSE \* Waiter::drop passes an unused notification on
            LET w == IF sd[s].pc = "parked" /\ sd[s].w = "ok"
                       THEN WakeIfFree(waiters, tbl, inflight, received) ELSE <<waiters, tbl>>
            IN /\ sd' = w[2] /\ waiters' = w[1]
               /\ Emit(<<ev, Quiet>>)
               /\ UNCHANGED <<inflight, received, owedP>>
  /\ UNCHANGED <<ids, wrb, nextId, closed, nbad, uses>>
  /\ hist' = Append(hist, "d" \o ToString(s))

----------------------------------------------------------------------------
\* protocol violation detected by pkt_ack(): close() + clear_queues(), the dispatcher stops
\* with a protocol error
Violation(inEv) ==
  /\ closed' = TRUE /\ inflight' = << >> /\ waiters' = << >> /\ received' = 0
  /\ sd' = Cleared(sd)
  /\ Emit(
       <<inEv>> \o (IF Ver = 5 /\ ~closed THEN <<E("out", "DISCONNECT", 0, 0, 0, 131, 0)>> ELSE << >>)
       \o <<E("ctl", "stop_proto", 0, 0, 0, 0, 0), E("conn_done", "ok", 0, 0, 0, 0, 0), Quiet>>)
  /\ UNCHANGED <<ids, wrb, nextId>>

\* the dispatcher hands an acknowledgement (ack name a, id) to pkt_ack_inner;
\* owed = the peer's to-do list after this acknowledgement was sent
AckIn(a, id, owed) ==
  LET inEv == E("in", a, 0, id, 0, 0, 0)
      tpA == TpOfAck(a) IN
  IF inflight = << >> THEN Violation(inEv) /\ owedP' = owed
  ELSE LET h == Head(inflight) rest == Tail(inflight)
           alive == h.tx > 0 /\ sd[h.tx].pc = (IF h.tp = "Complete" THEN "relack" ELSE "ack")
                    /\ sd[h.tx].a = "pend" /\ sd[h.tx].id = id
       IN
    IF h.id # id \/ h.tp # tpA THEN Violation(inEv) /\ owedP' = owed
    ELSE IF tpA = "Receive" THEN
      IF alive
        THEN \* the sender takes the receipt; the exchange keeps its slot until PUBCOMP
             /\ inflight' = rest /\ received' = received + 1
             /\ sd' = [sd EXCEPT ![h.tx].a = "ok", ![h.tx].av = "Receive"]
             /\ Emit(<<inEv, Quiet>>)
             /\ owedP' = owed
             /\ UNCHANGED <<ids, waiters, wrb, nextId, closed>>
        ELSE \* sender is gone: the publish is released on its behalf
             /\ inflight' = Append(rest, [id |-> id, tx |-> 0, tp |-> "Complete"])
             /\ owedP' = Append(owed, [id |-> id, a |-> "PUBCOMP"])
             /\ Emit(<<inEv, E("out", "PUBREL", 0, id, 0, 0, 0), Quiet>>)
             /\ UNCHANGED <<ids, waiters, received, wrb, nextId, closed, sd>>
    ELSE
      LET tbl1 == IF alive THEN [sd EXCEPT ![h.tx].a = "ok", ![h.tx].av = tpA] ELSE sd
          w == WakeN(waiters, tbl1, 1)
      IN /\ inflight' = rest /\ ids' = ids \ {id}
         /\ waiters' = w[1] /\ sd' = w[2]
         /\ Emit(<<inEv, Quiet>>)
         /\ owedP' = owed
         /\ UNCHANGED <<received, wrb, nextId, closed>>

\* the orderly peer answers the oldest packet it received
PeerAck ==
  /\ owedP # << >> /\ ~closed
  /\ AckIn(Head(owedP).a, Head(owedP).id, Tail(owedP))
  /\ UNCHANGED <<nbad, uses>>
  /\ hist' = Append(hist, "a")

\* a peer that answers wrongly: any acknowledgement type and id that is not Head(owedP)
PeerBad(a, id) ==
  /\ nbad < MaxBad /\ ~closed /\ cap > 0
  /\ ~(owedP # << >> /\ Head(owedP).a = a /\ Head(owedP).id = id)
  /\ AckIn(a, id, owedP)
  /\ nbad' = nbad + 1
  /\ UNCHANGED uses
  /\ hist' = Append(hist, "b" \o a \o ":" \o ToString(id))

----------------------------------------------------------------------------
\* QoS 2 receipts
Release(s) ==
  /\ sd[s].pc = "hold"
  /\ LET rel == E("release", "", s, 0, 0, 0, RelOf(s)) IN
     IF closed \/ received = 0
       THEN /\ sd' = [sd EXCEPT ![s].pc = "done"]
            /\ Emit(<<rel, E("send_poll", "ready", RelOf(s), 0, 0, 0, 0),
                       E("send_done", IF closed THEN "Disconnected" ELSE "UnexpectedRelease", RelOf(s), 0, 0, 0, 0), Quiet>>)
            /\ UNCHANGED <<inflight, received, owedP>>
       ELSE \* PUBREL is written now, and PUBCOMP is expected in that order
            /\ received' = received - 1
            /\ inflight' = Append(inflight, [id |-> sd[s].id, tx |-> s, tp |-> "Complete"])
            /\ sd' = [sd EXCEPT ![s].pc = "relack", ![s].a = "pend"]
            /\ owedP' = Append(owedP, [id |-> sd[s].id, a |-> "PUBCOMP"])
            /\ Emit(<<rel, E("out", "PUBREL", 0, sd[s].id, 0, 0, 0),
                                         E("send_poll", "pending", RelOf(s), 0, 0, 0, 0), Quiet>>)
  /\ UNCHANGED <<ids, waiters, wrb, nextId, closed, nbad, uses>>
  /\ hist' = Append(hist, "r" \o ToString(s))

RelPoll(s) ==
  /\ sd[s].pc = "relack" /\ sd[s].a \in {"ok", "cancel"}
  /\ sd' = [sd EXCEPT ![s].pc = "done"]
  /\ Emit(<<E("send_poll", "ready", RelOf(s), 0, 0, 0, 0),
                               E("send_done", IF sd[s].a = "ok" THEN "ok" ELSE "Disconnected", RelOf(s), 0, 0, 0, 0), Quiet>>)
  /\ UNCHANGED <<inflight, ids, waiters, received, wrb, nextId, closed, owedP, nbad, uses>>
  /\ hist' = Append(hist, "p" \o ToString(RelOf(s)))

ReceiptDrop(s) ==
  /\ sd[s].pc = "hold"
  /\ sd' = [sd EXCEPT ![s].pc = "done"]
  /\ LET ev == E("receipt_drop", "", s, 0, 0, 0, 0) IN
     IF closed \/ received = 0
       THEN /\ Emit(<<ev, Quiet>>) /\ UNCHANGED <<inflight, received, owedP>>
       ELSE /\ received' = received - 1
            /\ inflight' = Append(inflight, [id |-> sd[s].id, tx |-> 0, tp |-> "Complete"])
            /\ owedP' = Append(owedP, [id |-> sd[s].id, a |-> "PUBCOMP"])
            /\ Emit(<<ev, E("out", "PUBREL", 0, sd[s].id, 0, 0, 0), Quiet>>)
  /\ UNCHANGED <<ids, waiters, wrb, nextId, closed, nbad, uses>>
  /\ hist' = Append(hist, "x" \o ToString(s))

----------------------------------------------------------------------------
\* write back-pressure notifications (Control::WrBackpressure -> enable/disable_wr_backpressure)
WrbOn ==
  /\ UseWrb /\ ~wrb /\ ~closed /\ cap > 0
  /\ wrb' = TRUE
  /\ Emit(<<E("ctl", "wrb_on", 0, 0, 0, 0, 0), Quiet>>)
  /\ UNCHANGED <<inflight, ids, waiters, received, nextId, closed, sd, owedP, nbad, uses>>
  /\ hist' = Append(hist, "w1")

WrbOff ==
  /\ UseWrb /\ wrb /\ ~closed
  /\ wrb' = FALSE
  /\ LET used == UsedOf(inflight, received)
         n == IF used < cap THEN cap - used ELSE 0
         w == WakeN(waiters, sd, n)
     IN /\ waiters' = IF n = 0 THEN waiters ELSE w[1]
        /\ sd' = IF n = 0 THEN sd ELSE w[2]
  /\ Emit(<<E("ctl", "wrb_off", 0, 0, 0, 0, 0), Quiet>>)
  /\ UNCHANGED <<inflight, ids, received, nextId, closed, owedP, nbad, uses>>
  /\ hist' = Append(hist, "w0")

----------------------------------------------------------------------------
\* the handshake service returns its acknowledgement: CONNACK is written and set_cap() opens the
\* window, waking up to Cap live waiters that queued while it was 0
HsDone ==
  /\ PreHs /\ cap = 0 /\ ~closed
  /\ LET w == WakeN(waiters, sd, Cap) IN waiters' = w[1] /\ sd' = w[2]
  /\ cap' = Cap
  /\ Emit(<<E("h_end", "ok", 1, 0, 0, 0, 0), E("out", "CONNACK", 0, 0, 0, 0, 0), Quiet>>)
  /\ UNCHANGED <<inflight, ids, received, wrb, nextId, closed, owedP, nbad, uses>>
  /\ hist' = Append(hist, "h")

Next ==
  \/ /\ \/ \E s \in Senders, cid \in CallerIds : Send(s, cid)
        \/ \E s \in Senders : Poll(s) \/ Drop(s) \/ Release(s) \/ RelPoll(s) \/ ReceiptDrop(s)
        \/ PeerAck
        \/ \E a \in {"PUBACK", "PUBREC", "PUBCOMP", "SUBACK", "UNSUBACK"}, id \in 1..IdMax : PeerBad(a, id)
        \/ WrbOn \/ WrbOff
     /\ UNCHANGED cap
  \/ HsDone

Spec == Init /\ [][Next]_vars

----------------------------------------------------------------------------
\* properties

MonOk == Mon!Ok(mon)

TypeOk ==
  /\ Len(inflight) + received <= Cap + Len(Kinds)
  /\ received \in 0..Cap
  /\ nextId \in 0..(IdMax - 1)

\* C05 on the code's own accounting: the window (queue entries plus receipts awaiting their
\* release) never exceeds the limit
WindowInv == Len(inflight) + received <= cap

\* C13 as a stable-state invariant of the design: when nothing is runnable (every woken or
\* not-yet-started sender has been polled), the peer has answered everything, back-pressure is
\* off and the connection is healthy, no live sender is parked on the window
Runnable(s) == \/ sd[s].pc \in {"lazy", "rdy"}
               \/ (sd[s].pc = "parked" /\ sd[s].w # "pend")
               \/ (sd[s].pc = "ack" /\ sd[s].a # "pend")
               \/ (sd[s].pc = "relack" /\ sd[s].a # "pend")
               \/ sd[s].pc = "hold"
NoLostWakeup ==
  (~closed /\ cap > 0 /\ ~wrb /\ owedP = << >> /\ nbad = 0 /\ \A s \in Senders : ~Runnable(s))
    => \A s \in Senders : ~(sd[s].pc = "parked" /\ sd[s].w = "pend")

\* replay export: one line per explored transition (hist is outside the VIEW, so the prefix
\* is the first-found = shortest path to the source state).  States in which the monitor has
\* already failed are terminal: the model's verdict for that command sequence is its reason.
ExportNext == mon.bad = "none" /\ Next /\ PrintT(<<"REPLAY", mon'.bad, ToJson(hist')>>)
ExportSpec == Init /\ [][ExportNext]_vars
=============================================================================
