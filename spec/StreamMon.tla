----------------------------- MODULE StreamMon -----------------------------
(***************************************************************************)
(* Monitor for C08: everything an endpoint writes parses, with a decoder   *)
(* that shares nothing with the crate, as a concatenation of complete MQTT *)
(* packets.  Input: the raw bytes captured on the peer side (`out_raw`     *)
(* events carry them as a sequence of integers in field b) plus the        *)
(* application-side events (send results, aborts).                         *)
(*                                                                         *)
(*  - framing: first byte = valid packet type and flags, Remaining Length  *)
(*    a well-formed variable byte integer, frames back to back;            *)
(*  - a streamed PUBLISH carries exactly its declared number of payload    *)
(*    bytes and nothing else inside (the harness fills payloads with the   *)
(*    bytes 0x62 / 0x63, which are no packet type bytes the endpoint uses);*)
(*  - a send that fails locally leaves no bytes behind;                    *)
(*  - the stream may end inside a packet only if the connection was        *)
(*    aborted, and then only inside a PUBLISH.                             *)
(***************************************************************************)
EXTENDS Naturals, Integers, Sequences, FiniteSets, TLC

Init ==
  [ bad |-> "none", ver |-> 5,
    buf |-> << >>,          \* bytes received and not yet parsed into a complete frame
    frames |-> 0,
    aborted |-> FALSE,      \* force_close / streaming abort / stop: the stream may end mid-PUBLISH
    cmdBytes |-> 0, cmdFailed |-> FALSE, cmdOther |-> FALSE,
    dead |-> {},            \* streamed sends whose PUBLISH header was never written (the send failed)
    deadChunk |-> FALSE,    \* the current command feeds a chunk to such a stream
    dropOwed |-> FALSE,     \* a stream handle was dropped while its PUBLISH still owed payload
    stopped |-> FALSE,      \* the connection has ended (Stop notification / connection task done)
    ended |-> FALSE ]

Fail(m, why) == IF m.bad = "none" THEN [m EXCEPT !.bad = why] ELSE m

\* variable byte integer at position i (1-based) of b: <<value, bytes used>>; <<-1, 0>> = need
\* more bytes; <<-2, 0>> = malformed (more than 4 bytes)
RECURSIVE VarIntAt(_, _, _, _, _)
VarIntAt(b, i, k, mult, acc) ==
  IF k > 4 THEN <<-2, 0>>
  ELSE IF i > Len(b) THEN <<-1, 0>>
  ELSE LET x == b[i] IN
       IF x < 128 THEN <<acc + x * mult, k>>
       ELSE VarIntAt(b, i + 1, k + 1, mult * 128, acc + (x - 128) * mult)
VarInt(b, i) == VarIntAt(b, i, 1, 1, 0)

U16(b, i) == b[i] * 256 + b[i + 1]

ValidFirstByte(x) ==
  LET t == x \div 16
      f == x % 16 IN
  CASE t = 3 -> (f \div 2) % 4 # 3                  \* PUBLISH: QoS 3 is illegal
    [] t \in {6, 8, 10} -> f = 2
    [] t \in {1, 2, 4, 5, 7, 9, 11, 12, 13, 14} -> f = 0
    [] t = 15 -> f = 0
    [] OTHER -> FALSE

AllFill(b, from, to) == \A i \in from..to : b[i] \in {98, 99}

\* check one complete PUBLISH frame f (hdr = bytes of fixed header)
PublishOk(ver, f, hdr) ==
  LET q == (f[1] \div 2) % 4
      n == Len(f) IN
  IF hdr + 2 > n THEN FALSE
  ELSE LET tl == U16(f, hdr + 1)
           afterTopic == hdr + 2 + tl + (IF q > 0 THEN 2 ELSE 0) IN
       IF afterTopic > n THEN FALSE
       ELSE IF ver = 5
         THEN LET pv == VarInt(f, afterTopic + 1) IN
              IF pv[1] < 0 THEN FALSE
              ELSE LET pstart == afterTopic + pv[2] + pv[1] IN
                   pstart <= n /\ AllFill(f, pstart + 1, n)
         ELSE AllFill(f, afterTopic + 1, n)

\* parse complete frames off the front of the buffer
RECURSIVE Parse(_)
Parse(m) ==
  IF m.bad # "none" \/ Len(m.buf) < 2 THEN m
  ELSE LET b == m.buf
           rl == VarInt(b, 2) IN
       IF ~ValidFirstByte(b[1]) THEN Fail(m, "C08:invalid-packet-type-or-flags-on-the-wire")
       ELSE IF rl[1] = -2 THEN Fail(m, "C08:malformed-remaining-length-on-the-wire")
       ELSE IF rl[1] = -1 THEN m
       ELSE LET total == 1 + rl[2] + rl[1] IN
            IF Len(b) < total THEN m
            ELSE LET f == SubSeq(b, 1, total)
                     m1 == [m EXCEPT !.buf = SubSeq(b, total + 1, Len(b)), !.frames = @ + 1]
                 IN IF b[1] \div 16 = 3 /\ ~PublishOk(m.ver, f, 1 + rl[2])
                      THEN Fail(m1, "C08:publish-frame-does-not-carry-its-own-payload")
                      ELSE Parse(m1)

CmdEnd(m) ==
  LET m1 == [m EXCEPT !.cmdBytes = 0, !.cmdFailed = FALSE, !.cmdOther = FALSE, !.deadChunk = FALSE] IN
  IF m.cmdFailed /\ ~m.cmdOther /\ m.cmdBytes > 0 /\ ~m.aborted
    THEN Fail(m1, "C08:failed-send-left-bytes-behind")
    ELSE m1

Step(m, ev) ==
  CASE ev.e = "reset" -> [Init EXCEPT !.ver = ev.q]
    [] m.ended -> m
    [] ev.e = "out_raw" ->
         IF m.deadChunk /\ ~m.cmdOther
           THEN Fail(m, "C08:payload-bytes-written-for-a-publish-whose-header-was-never-sent")
           ELSE Parse([m EXCEPT !.buf = @ \o ev.b, !.cmdBytes = @ + Len(ev.b)])
    [] ev.e = "send_call" /\ ev.k = "chunk" -> [m EXCEPT !.deadChunk = (ev.id \in m.dead)]
    [] ev.e = "cmd" -> CmdEnd(m)
    [] ev.e = "send_done" ->
         IF ev.k \in {"Encode", "PacketIdInUse", "ExpectPayload"} THEN [m EXCEPT !.cmdFailed = TRUE, !.dead = @ \cup {ev.s}] ELSE m
    [] ev.e \in {"h_end", "in", "settled", "release", "receipt_drop", "ctl"} ->
         \* something else may legitimately have written during this command
         LET m1 == [m EXCEPT !.cmdOther = TRUE] IN
         IF ev.e = "ctl" /\ ev.k \in {"stop_proto", "stop_error", "stop_peer"}
           THEN [m1 EXCEPT !.aborted = TRUE, !.stopped = TRUE]
         ELSE IF ev.e = "settled" /\ m.dropOwed /\ ~m.stopped
           THEN \* quiescent, the connection is alive, and a PUBLISH whose stream handle is gone will never be
                \* completed: it was "continued with a short payload" instead of being aborted
                Fail(m1, "C08:stream-dropped-with-payload-owed-but-the-connection-goes-on")
         ELSE m1
    [] ev.e = "stream_drop" ->
         [m EXCEPT !.aborted = TRUE, !.cmdOther = TRUE,
                   !.dropOwed = @ \/ (Len(m.buf) > 0 /\ m.buf[1] \div 16 = 3 /\ ev.s \notin m.dead)]
    [] ev.e \in {"close", "peer_close", "io_err", "conn_done"} ->
         [m EXCEPT !.aborted = TRUE, !.cmdOther = TRUE, !.stopped = @ \/ ev.e = "conn_done"]
    [] ev.e = "panic" -> Fail(m, "C08:panic")
    [] ev.e = "end" ->
         LET m1 == CmdEnd([m EXCEPT !.ended = TRUE]) IN
         IF Len(m.buf) = 0 THEN m1
         ELSE IF m.buf[1] \div 16 = 3 THEN m1     \* payload of a streamed PUBLISH still owed
                                                  \* (stream open or connection aborted)
         ELSE Fail(m1, "C08:stream-ends-inside-a-packet")
    [] OTHER -> m

Ok(m) == m.bad = "none"
=============================================================================
