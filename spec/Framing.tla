------------------------------ MODULE Framing ------------------------------
(***************************************************************************)
(* Implementation-shaped model of the streaming frame decoder              *)
(* (src/v3/codec/codec.rs, src/v5/codec/codec.rs: Codec::decode and its    *)
(* DecodeState FrameHeader / Frame / PublishHeader(+Properties) /          *)
(* PublishPayload(remaining)), over an abstract byte stream: only lengths  *)
(* matter.  The transport delivers the stream in arbitrary pieces (Feed),  *)
(* the dispatcher calls decode() at arbitrary moments (Decode = one call,  *)
(* including its internal loop over the header arms).                      *)
(*                                                                         *)
(* C10 as invariants, for every stream in the bounded universe and EVERY   *)
(* way of cutting it (Feed amounts are unconstrained):                     *)
(*   Order      items come out in frame order, each PUBLISH announced once *)
(*   Conserve   the pieces of a PUBLISH never exceed its declared size and *)
(*              add up to it exactly when the decoder has moved on         *)
(*   OneFinal   exactly the last piece is final                            *)
(*   MinChunk   no non-empty piece other than the final one is smaller     *)
(*              than the minimum chunk size                                *)
(*   NoLeak     the consumed position is always inside / at the end of the *)
(*              frame being reported                                       *)
(*   Complete   once everything was fed and decode() returns None, every   *)
(*              frame has been reported completely                         *)
(***************************************************************************)
EXTENDS Naturals, Sequences, FiniteSets, TLC, Json

CONSTANTS
  FrameSeqs,  \* set of streams: sequences of [pub |-> BOOLEAN, h |-> variable header bytes, p |-> payload bytes]
  MinChunks,  \* set of min_chunk_size values (0 = off)
  Eager       \* TRUE: decode() is called until it returns None after every read (what the io layer
              \*       and the harness do); FALSE: reads and calls interleave freely

VARIABLES
  Frames,  \* the stream of this behaviour (chosen initially, never changed)
  MinChunk,
  fed,     \* bytes delivered by the transport so far
  pos,     \* bytes consumed by the decoder so far (the buffer holds fed - pos bytes)
  st,      \* [s |-> "FrameHeader" | "Frame" | "PubHeader" | "PubPayload", k |-> frame index, rem |-> bytes]
  items,   \* what decode() returned so far: [k, kind, n, eof]
  hist     \* the reads so far (cut positions), for the replay export

NF == Len(Frames)
FLen(k) == 2 + Frames[k].h + Frames[k].p        \* fixed header: type byte + one length byte
RECURSIVE Off(_)
Off(k) == IF k = 1 THEN 0 ELSE Off(k - 1) + FLen(k - 1)
Total == Off(NF) + FLen(NF)

vars == <<Frames, MinChunk, fed, pos, st, items, hist>>

Init ==
  /\ Frames \in FrameSeqs /\ MinChunk \in MinChunks
  /\ fed = 0 /\ pos = 0 /\ items = << >> /\ hist = << >>
  /\ st = [s |-> "FrameHeader", k |-> 1, rem |-> 0]

Min(a, b) == IF a < b THEN a ELSE b

\* One call of decode(): the result of running the arms until one returns.
\* r = [st, pos, item] with item = << >> (None) or <<record>> (Some)
RECURSIVE Run(_, _)
Run(s, p) ==
  LET avail == fed - p IN
  CASE s.s = "FrameHeader" ->
         IF s.k > NF \/ avail < 2 THEN [st |-> s, pos |-> p, item |-> << >>]
         ELSE Run([s |-> IF Frames[s.k].pub THEN "PubHeader" ELSE "Frame", k |-> s.k, rem |-> 0], p + 2)
    [] s.s = "Frame" ->
         IF avail < Frames[s.k].h THEN [st |-> s, pos |-> p, item |-> << >>]
         ELSE [st |-> [s |-> "FrameHeader", k |-> s.k + 1, rem |-> 0], pos |-> p + Frames[s.k].h,
               item |-> <<[k |-> s.k, kind |-> "pkt", n |-> 0, eof |-> TRUE]>>]
    [] s.s = "PubHeader" ->
         LET h == Frames[s.k].h
             pay == Frames[s.k].p IN
         IF avail < h THEN [st |-> s, pos |-> p, item |-> << >>]
         ELSE LET len == avail - h IN
              IF len >= pay \/ MinChunk = 0 \/ len >= MinChunk
                THEN LET n == Min(len, pay) IN
                     [st |-> IF pay - n > 0 THEN [s |-> "PubPayload", k |-> s.k, rem |-> pay - n]
                                           ELSE [s |-> "FrameHeader", k |-> s.k + 1, rem |-> 0],
                      pos |-> p + h + n,
                      item |-> <<[k |-> s.k, kind |-> "pub", n |-> n, eof |-> (pay - n = 0)]>>]
                ELSE [st |-> [s |-> "PubPayload", k |-> s.k, rem |-> pay], pos |-> p + h,
                      item |-> <<[k |-> s.k, kind |-> "pub", n |-> 0, eof |-> FALSE]>>]
    [] OTHER ->   \* PubPayload
         IF avail >= s.rem \/ (MinChunk # 0 /\ avail >= MinChunk)
           THEN LET n == Min(avail, s.rem) IN
                [st |-> IF s.rem - n > 0 THEN [s EXCEPT !.rem = s.rem - n]
                                         ELSE [s |-> "FrameHeader", k |-> s.k + 1, rem |-> 0],
                 pos |-> p + n,
                 item |-> <<[k |-> s.k, kind |-> "chunk", n |-> n, eof |-> (s.rem - n = 0)]>>]
           ELSE [st |-> s, pos |-> p, item |-> << >>]

Call == Run(st, pos)
Progress == Call.item # << >> \/ Call.st # st

Decode ==
  /\ Progress
  /\ st' = Call.st /\ pos' = Call.pos /\ items' = items \o Call.item
  /\ UNCHANGED <<Frames, MinChunk, fed, hist>>

Feed(n) ==
  /\ fed + n <= Total
  /\ (Eager => ~Progress)
  /\ fed' = fed + n /\ hist' = Append(hist, fed + n)
  /\ UNCHANGED <<Frames, MinChunk, pos, st, items>>

Next == Decode \/ \E n \in 1..Total : Feed(n)
Spec == Init /\ [][Next]_vars

----------------------------------------------------------------------------
PiecesOf(k) == SelectSeq(items, LAMBDA x : x.k = k /\ x.kind # "pkt")
RECURSIVE Sum(_)
Sum(s) == IF s = << >> THEN 0 ELSE Head(s).n + Sum(Tail(s))
Passed(k) == st.k > k                       \* the decoder has moved on from frame k

TypeOK == pos <= fed /\ fed <= Total /\ st.k \in 1..(NF + 1)

Order ==
  /\ \A i, j \in 1..Len(items) : i < j => items[i].k <= items[j].k
  /\ \A k \in 1..NF :
       LET xs == SelectSeq(items, LAMBDA x : x.k = k) IN
       IF Frames[k].pub
         THEN xs # << >> => (Head(xs).kind = "pub" /\ \A i \in 2..Len(xs) : xs[i].kind = "chunk")
         ELSE Len(xs) <= 1 /\ (xs # << >> => xs[1].kind = "pkt")

Conserve ==
  \A k \in 1..NF : Frames[k].pub =>
     /\ Sum(PiecesOf(k)) <= Frames[k].p
     /\ (Passed(k) => Sum(PiecesOf(k)) = Frames[k].p)

OneFinal ==
  \A k \in 1..NF : Frames[k].pub =>
     LET xs == PiecesOf(k) IN
     /\ \A i \in 1..Len(xs) : xs[i].eof => i = Len(xs)
     /\ (Passed(k) => xs # << >> /\ xs[Len(xs)].eof)

MinChunkInv ==
  \A i \in 1..Len(items) : (items[i].kind # "pkt" /\ ~items[i].eof /\ items[i].n > 0) => items[i].n >= MinChunk

NoLeak ==
  IF st.k > NF THEN pos = Total
  ELSE /\ pos >= Off(st.k)
       /\ pos <= Off(st.k) + FLen(st.k)
       /\ (st.s = "PubPayload" => pos = Off(st.k) + 2 + Frames[st.k].h + (Frames[st.k].p - st.rem))

Complete == (fed = Total /\ ~Progress) => (st.k = NF + 1 /\ pos = Total)

----------------------------------------------------------------------------
\* replay export (Eager = TRUE): one line per explored way of delivering a whole stream: the reads
\* and the items the model has produced when the decoder is quiescent at the end
view == <<Frames, MinChunk, fed, pos, st, items>>
ExportNext == Next /\ ((fed' = Total /\ ~Progress') =>
                        PrintT(<<"FRAMING", ToJson([frames |-> Frames, minc |-> MinChunk, cuts |-> hist', items |-> items'])>>))
ExportSpec == Init /\ [][ExportNext]_vars
=============================================================================
