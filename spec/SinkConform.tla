----------------------------- MODULE SinkConform -----------------------------
(***************************************************************************)
(* Trace validation of recorded executions of the real sink (MqttSink /     *)
(* MqttShared behind a real connection) against the implementation-shaped   *)
(* model Sink.tla.  Same scheme as EndpointConform: one input line per      *)
(* recorded run [run, toks, evs]; each command is executed as the model     *)
(* action it names and the step is enabled only if the events the model     *)
(* emits equal the recorded ones (projection: what was written to the wire, *)
(* what every poll of a send future returned, how it completed).            *)
(* ("CONF", run, "ok", n) / ("CONF", run, "stuck", i): drift is counted in  *)
(* the evidence, it never raises an alarm.                                  *)
(***************************************************************************)
EXTENDS MC_Sink, IOUtils

Runs == ndJsonDeserialize(IOEnv.CONF)

VARIABLES l, ti
cvars == <<vars, l, ti>>

Cmp == {"out", "send_poll", "send_done"}
P(ev) == [e |-> ev.e, k |-> ev.k, s |-> ev.s, id |-> ev.id, q |-> ev.q]
Map(sel) == [i \in 1..Len(sel) |-> P(sel[i])]
\* wire output is observed at the next quiescence: listed after the other events of the command
Proj(evs) == Map(SelectSeq(evs, LAMBDA ev : ev.e \in Cmp /\ ev.e # "out")) \o Map(SelectSeq(evs, LAMBDA ev : ev.e = "out"))

CInit == Init /\ l = 1 /\ ti = 1
Reset ==
  /\ inflight' = << >> /\ ids' = {} /\ waiters' = << >> /\ received' = 0 /\ wrb' = FALSE
  /\ nextId' = 0 /\ closed' = FALSE /\ cap' = (IF PreHs THEN 0 ELSE Cap)
  /\ sd' = [s \in Senders |-> NoSender]
  /\ owedP' = << >> /\ nbad' = 0 /\ uses' = [s \in Senders |-> 0]
  /\ mon' = Mon!StepAll(Mon!Init,
            << [E("reset", "server", 0, 0, Ver, 0, 0) EXCEPT !.x = "server"],
               E("cfg", "max_send", 0, 0, 0, 0, Cap) >>
            \o (IF PreHs THEN << >> ELSE << E("out", "CONNACK", 0, 0, 0, 0, 0) >>))
  /\ hist' = << >> /\ pred' = << >>

TokAct(t) ==
  \/ /\ CASE t.a = "s" -> Send(t.s, t.id)
          [] t.a = "p" -> IF t.s > 20 THEN RelPoll(t.s - 20) ELSE Poll(t.s)
          [] t.a = "d" -> Drop(t.s)
          [] t.a = "a" -> PeerAck
          [] t.a = "b" -> PeerBad(t.k, t.id)
          [] t.a = "r" -> Release(t.s)
          [] t.a = "x" -> ReceiptDrop(t.s)
          [] t.a = "w" -> IF t.s = 1 THEN WrbOn ELSE WrbOff
          [] OTHER -> FALSE
     /\ UNCHANGED cap
  \/ t.a = "h" /\ HsDone

StepTok ==
  /\ l <= Len(Runs) /\ ti <= Len(Runs[l].toks)
  /\ TokAct(Runs[l].toks[ti])
  /\ Proj(pred') = Runs[l].evs[ti]
  /\ ti' = ti + 1 /\ l' = l

EndRun ==
  /\ l <= Len(Runs) /\ ti = Len(Runs[l].toks) + 1
  /\ PrintT(<<"CONF", Runs[l].run, "ok", ti - 1>>)
  /\ Reset /\ l' = l + 1 /\ ti' = 1

Stuck ==
  /\ l <= Len(Runs) /\ ti <= Len(Runs[l].toks)
  /\ ~ENABLED StepTok
  /\ PrintT(<<"CONF", Runs[l].run, "stuck", ti>>)
  /\ Reset /\ l' = l + 1 /\ ti' = 1

StepDbg ==
  /\ l <= Len(Runs) /\ ti <= Len(Runs[l].toks)
  /\ TokAct(Runs[l].toks[ti])
  /\ IF Proj(pred') = Runs[l].evs[ti] THEN TRUE
     ELSE PrintT(<<"DIFF", Runs[l].run, ti, ToJson(Proj(pred')), ToJson(Runs[l].evs[ti])>>)
  /\ ti' = ti + 1 /\ l' = l
DebugSpec == CInit /\ [][StepDbg \/ EndRun]_cvars

CNext == StepTok \/ EndRun \/ Stuck
ConformSpec == CInit /\ [][CNext]_cvars
=============================================================================
