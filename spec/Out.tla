--------------------------------- MODULE Out ---------------------------------
(***************************************************************************)
(* Implementation-shaped model of the outbound WRITE PATH of a connection: *)
(* what MqttSink / MqttShared (src/v3|v5/sink.rs, shared.rs) and the codec *)
(* put on the wire for a sequence of application sends, some of which are   *)
(* streamed in chunks and some of which fail locally.  Functional style     *)
(* (state record -> state record), like Endpoint.tla.                       *)
(*                                                                         *)
(*   streaming mode      MqttShared.streaming_remaining: bytes a streamed   *)
(*                       PUBLISH still owes; while it is non-zero every     *)
(*                       other packet is refused (check_streaming ->        *)
(*                       EncodeError::ExpectPayload); it is entered only    *)
(*                       when the header has been written                   *)
(*   StreamingPayload    usable once its publish was written (otherwise     *)
(*                       StreamingCancelled); a chunk beyond the declared   *)
(*                       size and a handle dropped while bytes are owed     *)
(*                       abort the connection (force_close)                 *)
(*   local failures      packet id in use, topic longer than 65535 bytes,   *)
(*                       packet above the peer's Maximum Packet Size (v5),  *)
(*                       QoS 0 with a packet id: nothing is written, the    *)
(*                       automatic id counter has moved on                  *)
(*   window              not modelled here (Sink.tla): the configurations   *)
(*                       keep fewer sends outstanding than the window       *)
(*                                                                         *)
(* The wire is observed as COMPLETE frames (the harness tokeniser): a       *)
(* streamed PUBLISH shows when its last payload byte has been written.      *)
(***************************************************************************)
EXTENDS Naturals, Integers, Sequences, FiniteSets, TLC

CONSTANTS Ver,         \* 3 | 5
          Role         \* "server" | "client"

E(e, k, s, id, q, r, n) == [e |-> e, k |-> k, s |-> s, id |-> id, q |-> q, r |-> r, n |-> n, x |-> ""]

Init0 == [ nxt    |-> 1,        \* next harness slot for a send future
           cur    |-> 0,        \* slot of the stream handle the application holds (0 = none)
           curOk  |-> FALSE,    \* ... its PUBLISH was written (the handle is usable)
           curH   |-> FALSE,    \* ... the application really got a handle (stream_at_most_once returns none on failure)
           curDone |-> FALSE,   \* ... every declared byte has been delivered through it
           curTold |-> FALSE,   \* ... a handle whose publish was never written has reported StreamingCancelled once
           sr     |-> 0,        \* streaming_remaining
           srId   |-> 0, srQ |-> 0, srLen |-> 0,     \* the streamed PUBLISH that owes them
           inuse  |-> {},       \* inflight_ids
           nextId |-> 0,        \* inflight_idx
           owedP  |-> << >>,    \* acknowledgements the peer still owes: Seq of [id, a]
           emp    |-> 0,        \* empty pieces accepted so far (history that the real endpoint may - wrongly - remember)
           dead   |-> FALSE,    \* force_close() happened
           ev     |-> << >> ]

Emit(st, evs) == [st EXCEPT !.ev = @ \o evs]
Poll(k, s) == E("send_poll", k, s, 0, 0, 0, 0)
Done(k, s, id) == E("send_done", k, s, IF Ver = 5 \/ k = "PacketIdInUse" THEN id ELSE 0, 0, 0, 0)
OutPub(id, q, n) == E("out", "PUBLISH", 0, id, q, 0, n)
OutPkt(k, id) == E("out", k, 0, id, 0, 0, 0)
Ctl(k) == E("ctl", k, 0, 0, 0, 0, 0)

\* an awaited send (QoS 1 / QoS 2 / streamed QoS 1) issued and polled once.
\*   cid   caller-chosen id (0 = automatic)      plen  declared payload size
\*   fails "none" | "encode" (topic too long) | "big" (over Maximum Packet Size, MQTT 5 only)
\*   strm  the payload follows in chunks
AwaitedK(st, q, cid, plen, fails, strm, sub) ==
  LET s == st.nxt
      s0 == [st EXCEPT !.nxt = s + 1, !.cur = IF strm THEN s ELSE @, !.curOk = IF strm THEN FALSE ELSE @,
                        !.curH = IF strm THEN TRUE ELSE @, !.curDone = IF strm THEN FALSE ELSE @, !.curTold = IF strm THEN FALSE ELSE @]
  IN IF st.dead THEN Emit(s0, << Poll("ready", s), Done("Disconnected", s, 0) >>)
     ELSE LET id == IF cid > 0 THEN cid ELSE st.nextId + 1
              s1 == [s0 EXCEPT !.nextId = IF cid > 0 THEN @ ELSE id]
          IN IF st.sr > 0 THEN Emit(s1, << Poll("ready", s), Done("ExpectPayload", s, 0) >>)
             ELSE IF id \in st.inuse THEN Emit(s1, << Poll("ready", s), Done("PacketIdInUse", s, id) >>)
             ELSE IF fails = "encode" \/ (fails = "big" /\ Ver = 5) THEN Emit(s1, << Poll("ready", s), Done("Encode", s, 0) >>)
             ELSE LET s2 == [s1 EXCEPT !.inuse = @ \cup {id}] IN
                  IF strm
                    THEN \* header written, payload owed: the frame is complete (and acknowledged) later
                         Emit([s2 EXCEPT !.sr = plen, !.srId = id, !.srQ = q, !.srLen = plen, !.curOk = TRUE],
                              << Poll("pending", s) >>)
                    ELSE IF sub
                    THEN Emit([s2 EXCEPT !.owedP = Append(@, [id |-> id, a |-> "SUBACK"])],
                              << Poll("pending", s), OutPkt("SUBSCRIBE", id) >>)
                    ELSE Emit([s2 EXCEPT !.owedP = Append(@, [id |-> id, a |-> IF q = 1 THEN "PUBACK" ELSE "PUBREC"])],
                              << Poll("pending", s), OutPub(id, q, plen) >>)
Awaited(st, q, cid, plen, fails, strm) == AwaitedK(st, q, cid, plen, fails, strm, FALSE)

\* QoS 0: answered inside the call (no future to poll).  withId: the application set a packet id (encoder refuses)
AtMostOnce(st, plen, withId, strm) ==
  LET s == st.nxt
      s0 == [st EXCEPT !.nxt = s + 1, !.cur = IF strm THEN s ELSE @, !.curOk = IF strm THEN FALSE ELSE @,
                        !.curH = IF strm THEN FALSE ELSE @, !.curDone = IF strm THEN FALSE ELSE @, !.curTold = IF strm THEN FALSE ELSE @]
  IN IF st.dead THEN Emit(s0, << Done("Disconnected", s, 0) >>)
     ELSE IF st.sr > 0 THEN Emit(s0, << Done("ExpectPayload", s, 0) >>)
     ELSE IF withId THEN Emit(s0, << Done("Encode", s, 0) >>)
     ELSE IF strm THEN Emit([s0 EXCEPT !.sr = plen, !.srId = 0, !.srQ = 0, !.srLen = plen, !.curOk = TRUE, !.curH = TRUE],
                            << Done("ok", s, 0) >>)
     ELSE Emit(s0, << Done("ok", s, 0), OutPub(0, 0, plen) >>)

\* send_at_least_once_no_block (the application has registered publish_ack_cb and has checked is_ready()): answered
\* inside the call like QoS 0, acknowledged through the callback later
NoBlock(st, plen) ==
  LET s == st.nxt
      s0 == [st EXCEPT !.nxt = s + 1]
  IN IF st.dead THEN Emit(s0, << Done("Disconnected", s, 0) >>)
     ELSE LET id == st.nextId + 1
              s1 == [s0 EXCEPT !.nextId = id] IN
          IF st.sr > 0 THEN Emit(s1, << Done("ExpectPayload", s, 0) >>)
          ELSE IF id \in st.inuse THEN Emit(s1, << Done("PacketIdInUse", s, id) >>)
          ELSE Emit([s1 EXCEPT !.inuse = @ \cup {id}, !.owedP = Append(@, [id |-> id, a |-> "PUBACK"])],
                    << Done("ok", s, 0), OutPub(id, 1, plen) >>)

\* StreamingPayload::send(n bytes) on the handle the application holds, as a future of its own (slot 40 + nxt)
Chunk(st, n) ==
  IF st.cur = 0 THEN st
  ELSE LET t == 40 + st.nxt
           s0 == [st EXCEPT !.nxt = @ + 1]
           fin(k) == Emit(s0, << Poll("ready", t), Done(k, t, 0) >>)
       IN IF ~st.curH THEN s0                                           \* no handle: nothing happens
          ELSE IF ~st.curOk /\ ~st.curTold
            THEN Emit([s0 EXCEPT !.curTold = TRUE], << Poll("ready", t), Done("StreamingCancelled", t, 0) >>)
          ELSE IF ~st.curOk THEN fin("Encode")                          \* (the cancellation was reported; now: UnexpectedPayload)
          ELSE IF st.curDone THEN fin("Encode")                         \* UnexpectedPayload: everything was delivered
          ELSE IF st.dead THEN fin("Disconnected")
          ELSE IF st.sr = 0 THEN fin("Encode")
          ELSE IF n > st.sr
            THEN \* more than the publish declared: the connection is aborted
                 Emit([s0 EXCEPT !.dead = TRUE, !.sr = 0], << Poll("ready", t), Done("Encode", t, 0), Ctl("stop_peer") >>)
          ELSE IF n = st.sr
            THEN \* the frame is complete now
                 Emit([s0 EXCEPT !.sr = 0, !.curDone = TRUE,
                                 !.owedP = IF st.srQ > 0 THEN Append(@, [id |-> st.srId, a |-> "PUBACK"]) ELSE @],
                      << Poll("ready", t), Done("ok", t, 0), OutPub(st.srId, st.srQ, st.srLen) >>)
          ELSE Emit([s0 EXCEPT !.sr = @ - n, !.emp = IF n = 0 THEN @ + 1 ELSE @], << Poll("ready", t), Done("ok", t, 0) >>)

\* the application drops the stream handle: bytes still owed -> the connection is aborted
StreamDrop(st) ==
  IF st.cur = 0 THEN st
  ELSE IF ~st.curH THEN [st EXCEPT !.cur = 0]
  ELSE IF st.curOk /\ ~st.curDone /\ st.sr > 0
    THEN Emit([st EXCEPT !.cur = 0, !.dead = TRUE, !.sr = 0], << Ctl("stop_peer") >>)   \* force_close: the dispatcher sees the io gone
  ELSE [st EXCEPT !.cur = 0]

\* the orderly peer acknowledges the oldest complete packet it has received (nothing is polled)
PeerAck(st) ==
  IF st.owedP = << >> \/ st.dead THEN st
  ELSE LET h == Head(st.owedP) IN
       [st EXCEPT !.owedP = Tail(@), !.inuse = IF h.a \in {"PUBACK", "SUBACK"} THEN @ \ {h.id} ELSE @]

\* a packet the DISPATCHER writes on behalf of a handler (PUBACK for an inbound QoS 1 PUBLISH, PINGRESP).  It does not
\* pass the sink's streaming check; the codec refuses it while a payload is owed (ExpectPayload) and the connection is
\* stopped with a protocol error - aborted, not continued with a foreign packet inside the payload
Response(st, k, id) ==
  IF st.dead THEN st
  ELSE IF st.sr > 0 THEN Emit([st EXCEPT !.dead = TRUE, !.sr = 0], << Ctl("stop_proto") >>)
  ELSE Emit(st, << OutPkt(k, id) >>)

\* MqttSink::close(): orderly close by the application; an MQTT 5 endpoint and an MQTT 3.1.1 client say DISCONNECT
\* first (a 3.1.1 server has no DISCONNECT to send) - unless a payload is owed
Close(st) ==
  IF st.dead THEN st
  ELSE Emit([st EXCEPT !.dead = TRUE, !.sr = 0],
            << Ctl("stop_peer") >> \o (IF (Ver = 5 \/ Role = "client") /\ st.sr = 0 THEN << OutPkt("DISCONNECT", 0) >> ELSE << >>))

\* one token of the command alphabet
Do(st, tok) ==
  CASE tok = "q0"     -> AtMostOnce(st, 3, FALSE, FALSE)
    [] tok = "q0id"   -> AtMostOnce(st, 3, TRUE, FALSE)
    [] tok = "s0"     -> AtMostOnce(st, 5, FALSE, TRUE)
    [] tok = "q1"     -> Awaited(st, 1, 0, 1, "none", FALSE)
    [] tok = "q1nb"   -> NoBlock(st, 1)
    [] tok = "q2"     -> Awaited(st, 2, 0, 1, "none", FALSE)
    [] tok = "q1id1"  -> Awaited(st, 1, 1, 1, "none", FALSE)
    [] tok = "q1long" -> Awaited(st, 1, 0, 1, "encode", FALSE)
    [] tok = "q1big"  -> Awaited(st, 1, 0, 200, "big", FALSE)
    [] tok = "s1"     -> Awaited(st, 1, 0, 6, "none", TRUE)
    [] tok = "s1long" -> Awaited(st, 1, 0, 6, "encode", TRUE)
    [] tok = "c0"     -> Chunk(st, 0)          \* an empty piece: nothing is written, the payload is still owed
    [] tok = "c2"     -> Chunk(st, 2)
    [] tok = "c4"     -> Chunk(st, 4)
    [] tok = "c7"     -> Chunk(st, 7)
    [] tok = "sd"     -> StreamDrop(st)
    [] tok = "ack"    -> PeerAck(st)
    [] tok = "in1"    -> Response(st, "PUBACK", 21)
    [] tok = "close"  -> Close(st)
    [] tok = "ctl"    -> IF Role = "server" THEN Response(st, "PINGRESP", 0)       \* inbound PINGREQ
                         ELSE AwaitedK(st, 1, 0, 0, "none", FALSE, TRUE)           \* the client subscribes
    [] OTHER -> st

Evs(st) == st.ev
Next0(st) == [st EXCEPT !.ev = << >>]

\* structural invariants of the write path
WireOk(st) == /\ st.sr >= 0 /\ st.sr <= st.srLen
              /\ (st.dead => st.sr = 0)
              /\ \A i \in 1..Len(st.owedP) : st.owedP[i].id \in st.inuse     \* what the peer still has to acknowledge is reserved
=============================================================================
