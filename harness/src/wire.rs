//! Codec-level driver (C01, C02, C09, C10): abstract packet values <-> crate structs, and the
//! decode / encode / sniff operations the wire judges ask for.
//!
//! Nothing in here knows the MQTT byte layout: `from_json` / `to_json` only move fields between
//! the abstract JSON values of spec/Wire5.tla / spec/Wire3.tla and the crate's public structs.
use std::num::{NonZeroU16, NonZeroU32};

use ntex_bytes::{BytePages, ByteString, Bytes, BytesMut};
use ntex_codec::{Decoder, Encoder};
use ntex_mqtt::{v3::codec as c3, v5::codec as c5};
use serde_json::{Value, json};

// ------------------------------------------------------------------ helpers
fn bytes_of(v: &Value) -> Vec<u8> {
    v.as_array().map(|a| a.iter().map(|x| x.as_u64().unwrap_or(0) as u8).collect()).unwrap_or_default()
}
fn jb(b: &[u8]) -> Value {
    Value::Array(b.iter().map(|x| json!(*x)).collect())
}
fn s_of(v: &Value) -> ByteString {
    ByteString::try_from(Bytes::from(bytes_of(v))).expect("abstract strings are valid UTF-8")
}
fn opt_s(v: &Value) -> Option<ByteString> {
    v.as_array().and_then(|a| a.first()).map(s_of)
}
fn opt_b(v: &Value) -> Option<Bytes> {
    v.as_array().and_then(|a| a.first()).map(|x| Bytes::from(bytes_of(x)))
}
fn js(s: &ByteString) -> Value {
    jb(s.as_bytes())
}
fn jopt_s(s: &Option<ByteString>) -> Value {
    match s {
        Some(s) => json!([js(s)]),
        None => json!([]),
    }
}
fn jopt_b(s: &Option<Bytes>) -> Value {
    match s {
        Some(s) => json!([jb(s)]),
        None => json!([]),
    }
}
fn opt_n(v: &Value) -> Option<i64> {
    v.as_array().and_then(|a| a.first()).and_then(Value::as_i64)
}
fn jopt_n(n: Option<i64>) -> Value {
    match n {
        Some(n) => json!([n]),
        None => json!([]),
    }
}
fn int(v: &Value, k: &str) -> i64 {
    v.get(k).and_then(Value::as_i64).unwrap_or(0)
}
fn up_of(v: &Value) -> c5::UserProperties {
    v.as_array()
        .map(|a| a.iter().map(|kv| (s_of(&kv[0]), s_of(&kv[1]))).collect())
        .unwrap_or_default()
}
fn jup(u: &c5::UserProperties) -> Value {
    Value::Array(u.iter().map(|(k, v)| json!([js(k), js(v)])).collect())
}
fn qos(n: i64) -> c5::QoS {
    match n {
        0 => c5::QoS::AtMostOnce,
        1 => c5::QoS::AtLeastOnce,
        _ => c5::QoS::ExactlyOnce,
    }
}
fn nz16(n: i64) -> NonZeroU16 {
    NonZeroU16::new(n as u16).expect("non-zero id in abstract value")
}

// ------------------------------------------------------------------ v5: abstract -> struct
pub enum Item5 {
    Pkt(c5::Packet),
    Publish(c5::Publish),
}

pub fn from_json5(p: &Value) -> Item5 {
    let t = p["t"].as_str().unwrap_or("");
    let ack = |p: &Value| c5::PublishAck {
        packet_id: nz16(int(p, "id")),
        reason_code: c5::PublishAckReason::try_from(int(p, "rc") as u8).expect("rc"),
        properties: up_of(&p["up"]),
        reason_string: opt_s(&p["rs"]),
    };
    let ack2 = |p: &Value| c5::PublishAck2 {
        packet_id: nz16(int(p, "id")),
        reason_code: c5::PublishAck2Reason::try_from(int(p, "rc") as u8).expect("rc"),
        properties: up_of(&p["up"]),
        reason_string: opt_s(&p["rs"]),
    };
    Item5::Pkt(match t {
        "CONNECT" => {
            let will = p["will"].as_array().and_then(|a| a.first()).map(|w| c5::LastWill {
                qos: qos(int(w, "q")),
                retain: int(w, "retain") == 1,
                topic: s_of(&w["topic"]),
                message: Bytes::from(bytes_of(&w["msg"])),
                will_delay_interval_sec: opt_n(&w["delay"]).map(|n| n as u32),
                correlation_data: opt_b(&w["cd"]),
                message_expiry_interval: NonZeroU32::new(int(w, "mei") as u32),
                content_type: opt_s(&w["ct"]),
                user_properties: up_of(&w["up"]),
                is_utf8_payload: if int(w, "utf8") < 0 { None } else { Some(int(w, "utf8") == 1) },
                response_topic: opt_s(&w["rt"]),
            });
            c5::Packet::Connect(Box::new(c5::Connect {
                clean_start: int(p, "clean") == 1,
                keep_alive: int(p, "ka") as u16,
                session_expiry_interval_secs: int(p, "sei") as u32,
                auth_method: opt_s(&p["am"]),
                auth_data: opt_b(&p["ad"]),
                request_problem_info: int(p, "rpi") == 1,
                request_response_info: int(p, "rri") == 1,
                receive_max: NonZeroU16::new(int(p, "rm") as u16),
                topic_alias_max: int(p, "tam") as u16,
                user_properties: up_of(&p["up"]),
                max_packet_size: NonZeroU32::new(int(p, "mps") as u32),
                last_will: will,
                client_id: s_of(&p["cid"]),
                username: opt_s(&p["user"]),
                password: opt_b(&p["pass"]),
            }))
        }
        "CONNACK" => c5::Packet::ConnectAck(Box::new(c5::ConnectAck {
            session_present: int(p, "sp") == 1,
            reason_code: c5::ConnectAckReason::try_from(int(p, "rc") as u8).expect("rc"),
            session_expiry_interval_secs: opt_n(&p["sei"]).map(|n| n as u32),
            receive_max: nz16(int(p, "rm")),
            max_qos: qos(int(p, "mq")),
            max_packet_size: opt_n(&p["mps"]).map(|n| n as u32),
            assigned_client_id: opt_s(&p["acid"]),
            topic_alias_max: int(p, "tam") as u16,
            retain_available: int(p, "ra") == 1,
            wildcard_subscription_available: int(p, "wsa") == 1,
            subscription_identifiers_available: int(p, "sia") == 1,
            shared_subscription_available: int(p, "ssa") == 1,
            server_keepalive_sec: opt_n(&p["ska"]).map(|n| n as u16),
            response_info: opt_s(&p["ri"]),
            server_reference: opt_s(&p["sr"]),
            auth_method: opt_s(&p["am"]),
            auth_data: opt_b(&p["ad"]),
            reason_string: opt_s(&p["rs"]),
            user_properties: up_of(&p["up"]),
        })),
        "PUBLISH" => {
            return Item5::Publish(c5::Publish {
                dup: int(p, "dup") == 1,
                retain: int(p, "retain") == 1,
                qos: qos(int(p, "q")),
                packet_id: NonZeroU16::new(int(p, "id") as u16),
                topic: s_of(&p["topic"]),
                payload_size: int(p, "psize") as u32,
                properties: c5::PublishProperties {
                    topic_alias: NonZeroU16::new(int(p, "alias") as u16),
                    correlation_data: opt_b(&p["cd"]),
                    message_expiry_interval: NonZeroU32::new(int(p, "mei") as u32),
                    content_type: opt_s(&p["ct"]),
                    user_properties: up_of(&p["up"]),
                    is_utf8_payload: int(p, "utf8") == 1,
                    response_topic: opt_s(&p["rt"]),
                    subscription_ids: p["sids"]
                        .as_array()
                        .map(|a| a.iter().filter_map(|x| NonZeroU32::new(x.as_u64().unwrap_or(0) as u32)).collect())
                        .unwrap_or_default(),
                },
            });
        }
        "PUBACK" => c5::Packet::PublishAck(ack(p)),
        "PUBREC" => c5::Packet::PublishReceived(ack(p)),
        "PUBREL" => c5::Packet::PublishRelease(ack2(p)),
        "PUBCOMP" => c5::Packet::PublishComplete(ack2(p)),
        "SUBSCRIBE" => c5::Packet::Subscribe(c5::Subscribe {
            packet_id: nz16(int(p, "id")),
            id: NonZeroU32::new(int(p, "sid") as u32),
            user_properties: up_of(&p["up"]),
            topic_filters: p["filters"]
                .as_array()
                .map(|a| {
                    a.iter()
                        .map(|f| {
                            (
                                s_of(&f[0]),
                                c5::SubscriptionOptions {
                                    qos: qos(f[1].as_i64().unwrap_or(0)),
                                    no_local: f[2].as_i64() == Some(1),
                                    retain_as_published: f[3].as_i64() == Some(1),
                                    retain_handling: c5::RetainHandling::try_from(f[4].as_u64().unwrap_or(0) as u8)
                                        .expect("rh"),
                                },
                            )
                        })
                        .collect()
                })
                .unwrap_or_default(),
        }),
        "SUBACK" => c5::Packet::SubscribeAck(c5::SubscribeAck {
            packet_id: nz16(int(p, "id")),
            properties: up_of(&p["up"]),
            reason_string: opt_s(&p["rs"]),
            status: bytes_of(&p["codes"])
                .into_iter()
                .map(|c| c5::SubscribeAckReason::try_from(c).expect("code"))
                .collect(),
        }),
        "UNSUBSCRIBE" => c5::Packet::Unsubscribe(c5::Unsubscribe {
            packet_id: nz16(int(p, "id")),
            user_properties: up_of(&p["up"]),
            topic_filters: p["filters"].as_array().map(|a| a.iter().map(s_of).collect()).unwrap_or_default(),
        }),
        "UNSUBACK" => c5::Packet::UnsubscribeAck(c5::UnsubscribeAck {
            packet_id: nz16(int(p, "id")),
            properties: up_of(&p["up"]),
            reason_string: opt_s(&p["rs"]),
            status: bytes_of(&p["codes"])
                .into_iter()
                .map(|c| c5::UnsubscribeAckReason::try_from(c).expect("code"))
                .collect(),
        }),
        "PINGREQ" => c5::Packet::PingRequest,
        "PINGRESP" => c5::Packet::PingResponse,
        "DISCONNECT" => c5::Packet::Disconnect(c5::Disconnect {
            reason_code: c5::DisconnectReasonCode::try_from(int(p, "rc") as u8).expect("rc"),
            session_expiry_interval_secs: opt_n(&p["sei"]).map(|n| n as u32),
            server_reference: opt_s(&p["sr"]),
            reason_string: opt_s(&p["rs"]),
            user_properties: up_of(&p["up"]),
        }),
        "AUTH" => c5::Packet::Auth(c5::Auth {
            reason_code: c5::AuthReasonCode::try_from(int(p, "rc") as u8).expect("rc"),
            auth_method: opt_s(&p["am"]),
            auth_data: opt_b(&p["ad"]),
            reason_string: opt_s(&p["rs"]),
            user_properties: up_of(&p["up"]),
        }),
        other => panic!("unknown abstract packet kind {other}"),
    })
}

// ------------------------------------------------------------------ v5: struct -> abstract
fn b01(b: bool) -> i64 {
    i64::from(b)
}
fn q01(q: c5::QoS) -> i64 {
    u8::from(q) as i64
}

pub fn publish_json5(p: &c5::Publish) -> Value {
    json!({
        "t": "PUBLISH", "dup": b01(p.dup), "retain": b01(p.retain), "q": q01(p.qos),
        "topic": js(&p.topic), "id": p.packet_id.map_or(0, |i| i.get() as i64),
        "utf8": b01(p.properties.is_utf8_payload),
        "mei": p.properties.message_expiry_interval.map_or(0, |i| i.get() as i32 as i64),
        "ct": jopt_s(&p.properties.content_type), "rt": jopt_s(&p.properties.response_topic),
        "cd": jopt_b(&p.properties.correlation_data),
        "sids": Value::Array(p.properties.subscription_ids.iter().map(|i| json!(i.get() as i32)).collect()),
        "alias": p.properties.topic_alias.map_or(0, |i| i.get() as i64),
        "up": jup(&p.properties.user_properties), "psize": p.payload_size,
    })
}

pub fn to_json5(p: &c5::Packet) -> Value {
    let ack = |t: &str, id: NonZeroU16, rc: u8, rs: &Option<ByteString>, up: &c5::UserProperties| {
        json!({"t": t, "id": id.get(), "rc": rc, "rs": jopt_s(rs), "up": jup(up)})
    };
    match p {
        c5::Packet::Connect(c) => json!({
            "t": "CONNECT", "clean": b01(c.clean_start), "ka": c.keep_alive,
            "sei": c.session_expiry_interval_secs as i32, "am": jopt_s(&c.auth_method), "ad": jopt_b(&c.auth_data),
            "rpi": b01(c.request_problem_info), "rri": b01(c.request_response_info),
            "rm": c.receive_max.map_or(0, |i| i.get() as i64), "tam": c.topic_alias_max,
            "up": jup(&c.user_properties), "mps": c.max_packet_size.map_or(0, |i| i.get() as i32 as i64),
            "will": match &c.last_will {
                None => json!([]),
                Some(w) => json!([{
                    "q": q01(w.qos), "retain": b01(w.retain), "topic": js(&w.topic), "msg": jb(&w.message),
                    "utf8": w.is_utf8_payload.map_or(-1, b01),
                    "mei": w.message_expiry_interval.map_or(0, |i| i.get() as i32 as i64),
                    "ct": jopt_s(&w.content_type), "rt": jopt_s(&w.response_topic), "cd": jopt_b(&w.correlation_data),
                    "delay": jopt_n(w.will_delay_interval_sec.map(|i| i as i32 as i64)), "up": jup(&w.user_properties),
                }]),
            },
            "cid": js(&c.client_id), "user": jopt_s(&c.username), "pass": jopt_b(&c.password),
        }),
        c5::Packet::ConnectAck(c) => json!({
            "t": "CONNACK", "sp": b01(c.session_present), "rc": u8::from(c.reason_code),
            "sei": jopt_n(c.session_expiry_interval_secs.map(|i| i as i32 as i64)),
            "acid": jopt_s(&c.assigned_client_id), "ska": jopt_n(c.server_keepalive_sec.map(|i| i as i64)),
            "am": jopt_s(&c.auth_method), "ad": jopt_b(&c.auth_data), "ri": jopt_s(&c.response_info),
            "sr": jopt_s(&c.server_reference), "rs": jopt_s(&c.reason_string), "rm": c.receive_max.get(),
            "tam": c.topic_alias_max, "mq": q01(c.max_qos), "ra": b01(c.retain_available),
            "up": jup(&c.user_properties), "mps": jopt_n(c.max_packet_size.map(|i| i as i32 as i64)),
            "wsa": b01(c.wildcard_subscription_available), "sia": b01(c.subscription_identifiers_available),
            "ssa": b01(c.shared_subscription_available),
        }),
        c5::Packet::PublishAck(a) => ack("PUBACK", a.packet_id, a.reason_code.into(), &a.reason_string, &a.properties),
        c5::Packet::PublishReceived(a) => {
            ack("PUBREC", a.packet_id, a.reason_code.into(), &a.reason_string, &a.properties)
        }
        c5::Packet::PublishRelease(a) => {
            ack("PUBREL", a.packet_id, a.reason_code.into(), &a.reason_string, &a.properties)
        }
        c5::Packet::PublishComplete(a) => {
            ack("PUBCOMP", a.packet_id, a.reason_code.into(), &a.reason_string, &a.properties)
        }
        c5::Packet::Subscribe(s) => json!({
            "t": "SUBSCRIBE", "id": s.packet_id.get(), "sid": s.id.map_or(0, |i| i.get() as i32 as i64),
            "up": jup(&s.user_properties),
            "filters": Value::Array(s.topic_filters.iter().map(|(f, o)| json!([
                js(f), q01(o.qos), b01(o.no_local), b01(o.retain_as_published), u8::from(o.retain_handling)
            ])).collect()),
        }),
        c5::Packet::SubscribeAck(s) => json!({
            "t": "SUBACK", "id": s.packet_id.get(), "rs": jopt_s(&s.reason_string), "up": jup(&s.properties),
            "codes": Value::Array(s.status.iter().map(|c| json!(u8::from(*c))).collect()),
        }),
        c5::Packet::Unsubscribe(s) => json!({
            "t": "UNSUBSCRIBE", "id": s.packet_id.get(), "up": jup(&s.user_properties),
            "filters": Value::Array(s.topic_filters.iter().map(js).collect()),
        }),
        c5::Packet::UnsubscribeAck(s) => json!({
            "t": "UNSUBACK", "id": s.packet_id.get(), "rs": jopt_s(&s.reason_string), "up": jup(&s.properties),
            "codes": Value::Array(s.status.iter().map(|c| json!(u8::from(*c))).collect()),
        }),
        c5::Packet::PingRequest => json!({"t": "PINGREQ"}),
        c5::Packet::PingResponse => json!({"t": "PINGRESP"}),
        c5::Packet::Disconnect(d) => json!({
            "t": "DISCONNECT", "rc": u8::from(d.reason_code),
            "sei": jopt_n(d.session_expiry_interval_secs.map(|i| i as i32 as i64)),
            "sr": jopt_s(&d.server_reference), "rs": jopt_s(&d.reason_string), "up": jup(&d.user_properties),
        }),
        c5::Packet::Auth(a) => json!({
            "t": "AUTH", "rc": u8::from(a.reason_code), "am": jopt_s(&a.auth_method), "ad": jopt_b(&a.auth_data),
            "rs": jopt_s(&a.reason_string), "up": jup(&a.user_properties),
        }),
    }
}

// ------------------------------------------------------------------ v3
pub enum Item3 {
    Pkt(c3::Packet),
    Publish(c3::Publish),
}

pub fn from_json3(p: &Value) -> Item3 {
    let t = p["t"].as_str().unwrap_or("");
    let id = || nz16(int(p, "id"));
    Item3::Pkt(match t {
        "CONNECT" => c3::Packet::Connect(Box::new(c3::Connect {
            clean_session: int(p, "clean") == 1,
            keep_alive: int(p, "ka") as u16,
            last_will: p["will"].as_array().and_then(|a| a.first()).map(|w| c3::LastWill {
                qos: qos(int(w, "q")),
                retain: int(w, "retain") == 1,
                topic: s_of(&w["topic"]),
                message: Bytes::from(bytes_of(&w["msg"])),
            }),
            client_id: s_of(&p["cid"]),
            username: opt_s(&p["user"]),
            password: opt_b(&p["pass"]),
        })),
        "CONNACK" => c3::Packet::ConnectAck(c3::ConnectAck {
            return_code: c3::ConnectAckReason::try_from(int(p, "rc") as u8).expect("rc"),
            session_present: int(p, "sp") == 1,
        }),
        "PUBLISH" => {
            return Item3::Publish(c3::Publish {
                dup: int(p, "dup") == 1,
                retain: int(p, "retain") == 1,
                qos: qos(int(p, "q")),
                topic: s_of(&p["topic"]),
                packet_id: NonZeroU16::new(int(p, "id") as u16),
                payload_size: int(p, "psize") as u32,
            });
        }
        "PUBACK" => c3::Packet::PublishAck { packet_id: id() },
        "PUBREC" => c3::Packet::PublishReceived { packet_id: id() },
        "PUBREL" => c3::Packet::PublishRelease { packet_id: id() },
        "PUBCOMP" => c3::Packet::PublishComplete { packet_id: id() },
        "SUBSCRIBE" => c3::Packet::Subscribe {
            packet_id: id(),
            topic_filters: p["filters"]
                .as_array()
                .map(|a| a.iter().map(|f| (s_of(&f[0]), qos(f[1].as_i64().unwrap_or(0)))).collect())
                .unwrap_or_default(),
        },
        "SUBACK" => c3::Packet::SubscribeAck {
            packet_id: id(),
            status: bytes_of(&p["codes"])
                .into_iter()
                .map(|c| if c == 128 { c3::SubscribeReturnCode::Failure } else { c3::SubscribeReturnCode::Success(qos(c as i64)) })
                .collect(),
        },
        "UNSUBSCRIBE" => c3::Packet::Unsubscribe {
            packet_id: id(),
            topic_filters: p["filters"].as_array().map(|a| a.iter().map(s_of).collect()).unwrap_or_default(),
        },
        "UNSUBACK" => c3::Packet::UnsubscribeAck { packet_id: id() },
        "PINGREQ" => c3::Packet::PingRequest,
        "PINGRESP" => c3::Packet::PingResponse,
        "DISCONNECT" => c3::Packet::Disconnect,
        other => panic!("unknown abstract packet kind {other}"),
    })
}

pub fn publish_json3(p: &c3::Publish) -> Value {
    json!({
        "t": "PUBLISH", "dup": b01(p.dup), "retain": b01(p.retain), "q": q01(p.qos), "topic": js(&p.topic),
        "id": p.packet_id.map_or(0, |i| i.get() as i64), "psize": p.payload_size,
    })
}

pub fn to_json3(p: &c3::Packet) -> Value {
    match p {
        c3::Packet::Connect(c) => json!({
            "t": "CONNECT", "clean": b01(c.clean_session), "ka": c.keep_alive,
            "will": match &c.last_will {
                None => json!([]),
                Some(w) => json!([{"q": q01(w.qos), "retain": b01(w.retain), "topic": js(&w.topic), "msg": jb(&w.message)}]),
            },
            "cid": js(&c.client_id), "user": jopt_s(&c.username), "pass": jopt_b(&c.password),
        }),
        c3::Packet::ConnectAck(c) => {
            json!({"t": "CONNACK", "sp": b01(c.session_present), "rc": u8::from(c.return_code)})
        }
        c3::Packet::PublishAck { packet_id } => json!({"t": "PUBACK", "id": packet_id.get()}),
        c3::Packet::PublishReceived { packet_id } => json!({"t": "PUBREC", "id": packet_id.get()}),
        c3::Packet::PublishRelease { packet_id } => json!({"t": "PUBREL", "id": packet_id.get()}),
        c3::Packet::PublishComplete { packet_id } => json!({"t": "PUBCOMP", "id": packet_id.get()}),
        c3::Packet::Subscribe { packet_id, topic_filters } => json!({
            "t": "SUBSCRIBE", "id": packet_id.get(),
            "filters": Value::Array(topic_filters.iter().map(|(f, q)| json!([js(f), q01(*q)])).collect()),
        }),
        c3::Packet::SubscribeAck { packet_id, status } => json!({
            "t": "SUBACK", "id": packet_id.get(),
            "codes": Value::Array(status.iter().map(|s| match s {
                c3::SubscribeReturnCode::Success(q) => json!(q01(*q)),
                c3::SubscribeReturnCode::Failure => json!(128),
            }).collect()),
        }),
        c3::Packet::Unsubscribe { packet_id, topic_filters } => json!({
            "t": "UNSUBSCRIBE", "id": packet_id.get(),
            "filters": Value::Array(topic_filters.iter().map(js).collect()),
        }),
        c3::Packet::UnsubscribeAck { packet_id } => json!({"t": "UNSUBACK", "id": packet_id.get()}),
        c3::Packet::PingRequest => json!({"t": "PINGREQ"}),
        c3::Packet::PingResponse => json!({"t": "PINGRESP"}),
        c3::Packet::Disconnect => json!({"t": "DISCONNECT"}),
    }
}

// ------------------------------------------------------------------ a codec of either version
pub enum AnyCodec {
    V3(c3::Codec),
    V5(c5::Codec),
}

pub enum AnyDecoded {
    Pkt(Value, u32, AnyPkt),
    Publish(Value, Bytes, u32, AnyPub),
    Chunk(Bytes, bool),
}
#[derive(Clone)]
pub enum AnyPkt {
    V3(c3::Packet),
    V5(c5::Packet),
}
#[derive(Clone)]
pub enum AnyPub {
    V3(c3::Publish),
    V5(c5::Publish),
}

impl AnyCodec {
    pub fn new(ver: i64) -> Self {
        if ver == 3 { AnyCodec::V3(c3::Codec::new()) } else { AnyCodec::V5(c5::Codec::new()) }
    }
    pub fn set_in(&self, max: u32, minc: u32) {
        match self {
            AnyCodec::V3(c) => {
                c.set_max_size(max);
                c.set_min_chunk_size(minc);
            }
            AnyCodec::V5(c) => {
                c.set_max_inbound_size(max);
                c.set_min_chunk_size(minc);
            }
        }
    }
    pub fn decode(&self, src: &mut BytesMut) -> Result<Option<AnyDecoded>, String> {
        match self {
            AnyCodec::V3(c) => match c.decode(src) {
                Ok(None) => Ok(None),
                Err(e) => Err(format!("{e:?}")),
                Ok(Some(c3::Decoded::Packet(p, n))) => Ok(Some(AnyDecoded::Pkt(to_json3(&p), n, AnyPkt::V3(p)))),
                Ok(Some(c3::Decoded::Publish(p, b, n))) => {
                    Ok(Some(AnyDecoded::Publish(publish_json3(&p), b, n, AnyPub::V3(p))))
                }
                Ok(Some(c3::Decoded::PayloadChunk(b, eof))) => Ok(Some(AnyDecoded::Chunk(b, eof))),
            },
            AnyCodec::V5(c) => match c.decode(src) {
                Ok(None) => Ok(None),
                Err(e) => Err(format!("{e:?}")),
                Ok(Some(c5::Decoded::Packet(p, n))) => Ok(Some(AnyDecoded::Pkt(to_json5(&p), n, AnyPkt::V5(p)))),
                Ok(Some(c5::Decoded::Publish(p, b, n))) => {
                    Ok(Some(AnyDecoded::Publish(publish_json5(&p), b, n, AnyPub::V5(p))))
                }
                Ok(Some(c5::Decoded::PayloadChunk(b, eof))) => Ok(Some(AnyDecoded::Chunk(b, eof))),
            },
        }
    }
    fn enc_pkt(&self, p: &AnyPkt, dst: &mut BytePages) -> Result<(), String> {
        match (self, p) {
            (AnyCodec::V3(c), AnyPkt::V3(p)) => {
                c.encodev(c3::Encoded::Packet(p.clone()), dst).map_err(|e| format!("{e:?}"))
            }
            (AnyCodec::V5(c), AnyPkt::V5(p)) => {
                c.encodev(c5::Encoded::Packet(p.clone()), dst).map_err(|e| format!("{e:?}"))
            }
            _ => Err("version mismatch".into()),
        }
    }
    fn enc_pub(&self, p: &AnyPub, first: Option<Bytes>, dst: &mut BytePages) -> Result<(), String> {
        match (self, p) {
            (AnyCodec::V3(c), AnyPub::V3(p)) => {
                c.encodev(c3::Encoded::Publish(p.clone(), first), dst).map_err(|e| format!("{e:?}"))
            }
            (AnyCodec::V5(c), AnyPub::V5(p)) => {
                c.encodev(c5::Encoded::Publish(p.clone(), first), dst).map_err(|e| format!("{e:?}"))
            }
            _ => Err("version mismatch".into()),
        }
    }
    fn enc_chunk(&self, b: Bytes, dst: &mut BytePages) -> Result<(), String> {
        match self {
            AnyCodec::V3(c) => c.encodev(c3::Encoded::PayloadChunk(b), dst).map_err(|e| format!("{e:?}")),
            AnyCodec::V5(c) => c.encodev(c5::Encoded::PayloadChunk(b), dst).map_err(|e| format!("{e:?}")),
        }
    }
}

fn pages_to_vec(p: &mut BytePages) -> Vec<u8> {
    let mut out = Vec::with_capacity(p.len());
    while let Some(b) = p.take() {
        out.extend_from_slice(&b);
    }
    out
}

/// payload pattern: byte at payload offset i
pub fn pat(i: usize) -> u8 {
    (i % 251) as u8
}
fn pattern(from: usize, n: usize) -> Vec<u8> {
    (from..from + n).map(pat).collect()
}
fn bsum(b: &[u8]) -> u64 {
    b.iter().map(|x| *x as u64).sum::<u64>() % 65521
}

// ------------------------------------------------------------------ operations
/// decode a stream delivered in pieces
fn op_dec(v: &Value) -> Value {
    let ver = int(v, "ver");
    let mut stream: Vec<u8> = Vec::new();
    if let Some(segs) = v.get("segs").and_then(Value::as_array) {
        for s in segs {
            stream.extend(bytes_of(&s["b"]));
            stream.extend(pattern(0, int(s, "pay") as usize));
        }
    } else {
        stream.extend(bytes_of(&v["b"]));
        stream.extend(pattern(0, int(v, "pay") as usize));
    }
    let total = stream.len();
    let mut cuts: Vec<usize> = match v.get("cuts") {
        Some(Value::Array(a)) => a.iter().map(|x| x.as_u64().unwrap_or(0) as usize).collect(),
        _ => vec![],
    };
    if let Some(step) = v.get("step").and_then(Value::as_u64) {
        let step = (step as usize).max(1);
        cuts = (1..total).filter(|i| i % step == 0).collect();
    }
    cuts.retain(|c| *c > 0 && *c < total);
    cuts.push(total);
    cuts.dedup();

    let codec = AnyCodec::new(ver);
    codec.set_in(int(v, "max") as u32, int(v, "minc") as u32);
    let small = total <= 4096;
    let mut buf = BytesMut::new();
    let mut items: Vec<Value> = Vec::new();
    let mut fed = 0usize;
    let mut end = json!("MORE");
    let mut err = String::new();
    let mut stable = true;
    let mut calls = 0usize;
    'outer: for c in cuts {
        if c < fed {
            continue;
        }
        buf.extend_from_slice(&stream[fed..c]);
        fed = c;
        loop {
            calls += 1;
            let before = buf.len();
            match codec.decode(&mut buf) {
                Ok(None) => break,
                Err(e) => {
                    end = json!("ERR");
                    err = e;
                    break 'outer;
                }
                Ok(Some(d)) => {
                    let pos = fed - buf.len();
                    match d {
                        AnyDecoded::Pkt(j, n, p) => {
                            // stability: re-encode, decode again
                            let c2 = AnyCodec::new(ver);
                            let mut pages = BytePages::default();
                            let mut re = json!([]);
                            let mut has_re = 0;
                            let mut st = json!("ok");
                            match c2.enc_pkt(&p, &mut pages) {
                                Err(e) => st = json!(format!("reencode:{e}")),
                                Ok(()) => {
                                    let bytes = pages_to_vec(&mut pages);
                                    let mut b2 = BytesMut::from(&bytes[..]);
                                    match AnyCodec::new(ver).decode(&mut b2) {
                                        Ok(Some(AnyDecoded::Pkt(j2, _, _))) if j2 == j && b2.is_empty() => {}
                                        other => {
                                            st = json!(format!(
                                                "redecode:{}",
                                                match other {
                                                    Ok(Some(AnyDecoded::Pkt(j2, _, _))) => j2.to_string(),
                                                    Ok(Some(_)) => "other item".into(),
                                                    Ok(None) => "need more".into(),
                                                    Err(e) => e,
                                                }
                                            ));
                                        }
                                    }
                                    if bytes.len() <= 4096 {
                                        re = jb(&bytes);
                                        has_re = 1;
                                    }
                                }
                            }
                            if st != json!("ok") {
                                stable = false;
                            }
                            items.push(json!({"k":"pkt","p":j,"size":n,"pos":pos,"st":st,"re":re,"has_re":has_re}));
                        }
                        AnyDecoded::Publish(j, b, n, p) => {
                            let c2 = AnyCodec::new(ver);
                            let mut pages = BytePages::default();
                            let mut re = json!([]);
                            let mut has_re = 0;
                            let mut st = json!("ok");
                            match c2.enc_pub(&p, None, &mut pages) {
                                Err(e) => st = json!(format!("reencode:{e}")),
                                Ok(()) => {
                                    let bytes = pages_to_vec(&mut pages);
                                    if bytes.len() <= 4096 {
                                        re = jb(&bytes);
                                        has_re = 1;
                                    }
                                }
                            }
                            if st != json!("ok") {
                                stable = false;
                            }
                            items.push(json!({"k":"pub","p":j,"size":n,"pos":pos,"n":b.len(),"h":bsum(&b),
                                "bytes": if small { jb(&b) } else { json!([]) },"has_bytes": b01(small),"st":st,"re":re,"has_re":has_re}));
                        }
                        AnyDecoded::Chunk(b, eof) => {
                            items.push(json!({"k":"chunk","n":b.len(),"eof":b01(eof),"pos":pos,"h":bsum(&b),
                                "bytes": if small { jb(&b) } else { json!([]) },"has_bytes": b01(small)}));
                        }
                    }
                    if buf.len() == before && calls > 4 * total + 64 {
                        end = json!("LOOP");
                        break 'outer;
                    }
                }
            }
        }
    }
    json!({"i": v["i"], "op":"dec", "items": items, "end": end, "err": err, "left": buf.len(), "fed": fed,
           "total": total, "stable": b01(stable)})
}

/// encode one abstract packet (optionally under an outbound limit / after a CONNECT that
/// declined problem information), then decode the bytes again with a fresh codec
fn op_enc(v: &Value) -> Value {
    let ver = int(v, "ver");
    let p = &v["p"];
    let pay = int(v, "pay") as usize;
    let lim = int(v, "lim") as u32;
    let prefill = int(v, "prefill") as usize;
    let codec = AnyCodec::new(ver);
    if let AnyCodec::V5(c) = &codec {
        if v.get("rpi").and_then(Value::as_i64) == Some(0) {
            // a CONNECT with Request Problem Information = 0 has been received on this connection
            let conn = c5::Packet::Connect(Box::new(c5::Connect {
                clean_start: true,
                keep_alive: 0,
                session_expiry_interval_secs: 0,
                auth_method: None,
                auth_data: None,
                request_problem_info: false,
                request_response_info: false,
                receive_max: None,
                topic_alias_max: 0,
                user_properties: Vec::new(),
                max_packet_size: None,
                last_will: None,
                client_id: ByteString::from_static("c"),
                username: None,
                password: None,
            }));
            let mut pages = BytePages::default();
            c5::Codec::new().encodev(c5::Encoded::Packet(conn), &mut pages).expect("connect");
            let bytes = pages_to_vec(&mut pages);
            let mut b = BytesMut::from(&bytes[..]);
            let _ = c.decode(&mut b);
        }
        if lim > 0 {
            c.set_max_outbound_size(lim);
        }
    }
    let mut dst = BytePages::default();
    if prefill > 0 {
        dst.append(Bytes::from(vec![0xEEu8; prefill]));
    }
    let before = dst.len();
    // echo: abstract -> struct -> abstract
    let (echo, res) = if ver == 3 {
        match from_json3(p) {
            Item3::Pkt(pk) => (to_json3(&pk), codec.enc_pkt(&AnyPkt::V3(pk), &mut dst)),
            Item3::Publish(pk) => (publish_json3(&pk), enc_publish(&codec, AnyPub::V3(pk), pay, v, &mut dst)),
        }
    } else {
        match from_json5(p) {
            Item5::Pkt(pk) => (to_json5(&pk), codec.enc_pkt(&AnyPkt::V5(pk), &mut dst)),
            Item5::Publish(pk) => (publish_json5(&pk), enc_publish(&codec, AnyPub::V5(pk), pay, v, &mut dst)),
        }
    };
    match res {
        Err(e) => json!({"i": v["i"], "op":"enc", "ok":0, "err": e, "grew": dst.len() as i64 - before as i64, "echo": echo}),
        Ok(()) => {
            let all = pages_to_vec(&mut dst);
            let bytes = &all[prefill.min(all.len())..];
            let pre_ok = all.len() >= prefill && all[..prefill].iter().all(|b| *b == 0xEE);
            let hdr_len = bytes.len().saturating_sub(pay);
            let pay_ok = bytes.len() >= pay && bytes[hdr_len..].iter().enumerate().all(|(i, b)| *b == pat(i));
            // decode again with a fresh codec: value and consumption
            let d = AnyCodec::new(ver);
            let mut b2 = BytesMut::from(bytes);
            let mut rt = json!({"t":"none"});
            let mut rt_n = 0usize;
            let mut rt_eof = 0;
            let mut rt_err = String::new();
            loop {
                match d.decode(&mut b2) {
                    Ok(Some(AnyDecoded::Pkt(j, _, _))) => {
                        rt = j;
                        break;
                    }
                    Ok(Some(AnyDecoded::Publish(j, b, _, _))) => {
                        rt = j;
                        rt_n += b.len();
                        if rt_n >= pay {
                            rt_eof = 1;
                            break;
                        }
                    }
                    Ok(Some(AnyDecoded::Chunk(b, eof))) => {
                        rt_n += b.len();
                        if eof {
                            rt_eof = 1;
                            break;
                        }
                    }
                    Ok(None) => {
                        rt_err = "need more".into();
                        break;
                    }
                    Err(e) => {
                        rt_err = e;
                        break;
                    }
                }
            }
            json!({"i": v["i"], "op":"enc", "ok":1, "b": jb(&bytes[..hdr_len]), "len": bytes.len(), "pay_ok": b01(pay_ok),
                   "pre_ok": b01(pre_ok), "echo": echo, "rt": rt, "rt_left": b2.len(), "rt_n": rt_n, "rt_eof": rt_eof,
                   "rt_err": rt_err})
        }
    }
}

fn enc_publish(codec: &AnyCodec, p: AnyPub, pay: usize, v: &Value, dst: &mut BytePages) -> Result<(), String> {
    // `first` = size of the piece passed along with the header (-1: none), the rest in `chunk` sized pieces
    let first = v.get("first").and_then(Value::as_i64).unwrap_or(pay as i64);
    let chunk = v.get("chunk").and_then(Value::as_u64).unwrap_or(65536).max(1) as usize;
    let mut off = 0usize;
    if first < 0 {
        codec.enc_pub(&p, None, dst)?;
    } else {
        let n = (first as usize).min(pay);
        codec.enc_pub(&p, Some(Bytes::from(pattern(0, n))), dst)?;
        off = n;
    }
    while off < pay {
        let n = chunk.min(pay - off);
        codec.enc_chunk(Bytes::from(pattern(off, n)), dst)?;
        off += n;
    }
    Ok(())
}

fn op_sniff(v: &Value) -> Value {
    let stream = bytes_of(&v["b"]);
    let total = stream.len();
    let mut cuts: Vec<usize> = match v.get("cuts") {
        Some(Value::Array(a)) => a.iter().map(|x| x.as_u64().unwrap_or(0) as usize).collect(),
        _ => vec![],
    };
    if let Some(step) = v.get("step").and_then(Value::as_u64) {
        cuts = (1..total).filter(|i| i % (step as usize).max(1) == 0).collect();
    }
    cuts.retain(|c| *c > 0 && *c < total);
    cuts.push(total);
    let mut buf = BytesMut::new();
    let mut fed = 0;
    let mut res = json!("MORE");
    let mut at = 0;
    for c in cuts {
        if c < fed {
            continue;
        }
        buf.extend_from_slice(&stream[fed..c]);
        fed = c;
        match ntex_mqtt::verif_sniff_version(&mut buf) {
            Ok(None) => {}
            Ok(Some(n)) => {
                res = json!(n);
                at = fed;
                break;
            }
            Err(e) => {
                res = json!(format!("ERR:{e:?}"));
                at = fed;
                break;
            }
        }
    }
    json!({"i": v["i"], "op":"sniff", "res": res, "at": at, "left": buf.len(), "fed": fed})
}

pub fn run_vector(v: &Value) -> Value {
    let r = std::panic::catch_unwind(|| match v["op"].as_str().unwrap_or("") {
        "dec" => op_dec(v),
        "enc" => op_enc(v),
        "sniff" => op_sniff(v),
        other => json!({"i": v["i"], "op": other, "tool_error": "unknown op"}),
    });
    match r {
        Ok(v) => v,
        Err(_) => {
            let msg = crate::LAST_PANIC.with(|p| p.borrow().clone());
            json!({"i": v["i"], "op": v["op"], "panic": msg})
        }
    }
}
