//! Deterministic, quiescence-driven runtime for the conformance harness.
//!
//! `Run` is an `ntex_rt::Runner` whose driver loop is `Runtime::poll()` until it reports
//! `Pending` (= no task is runnable = exact quiescence).  A harness future `idle().await`
//! parks itself in a thread-local slot and is woken by the driver precisely at quiescence,
//! so a command sequence fully determines the schedule of the connection's tasks.
use std::cell::{Cell, RefCell};
use std::future::Future;
use std::pin::Pin;
use std::sync::{Arc, Condvar, Mutex};
use std::task::{Context, Poll, Wake, Waker};
use std::{any::Any, io};

use ntex_rt::{BlockFuture, Driver, Notify, PollResult, Runner, Runtime};

thread_local! {
    static IDLE: RefCell<Option<Waker>> = const { RefCell::new(None) };
    static IDLE_GEN: Cell<u64> = const { Cell::new(0) };
    pub static SPINS: Cell<u64> = const { Cell::new(0) };
}

#[derive(Debug, Default)]
struct Signal {
    flag: Mutex<bool>,
    cv: Condvar,
}

#[derive(Debug, Clone)]
struct Handle(Arc<Signal>);

impl Notify for Handle {
    fn notify(&self) -> io::Result<()> {
        *self.0.flag.lock().unwrap() = true;
        self.0.cv.notify_all();
        Ok(())
    }
}

struct Drv(Arc<Signal>);

impl Driver for Drv {
    fn handle(&self) -> Box<dyn Notify> {
        Box::new(Handle(self.0.clone()))
    }

    fn run(&self, rt: &Runtime) -> io::Result<()> {
        let mut again: u64 = 0;
        loop {
            match rt.poll() {
                PollResult::Ready => return Ok(()),
                PollResult::PollAgain => {
                    // a task that keeps waking itself never lets the runtime go idle: after a
                    // generous budget report it (SPIN counter) and let the harness continue
                    again += 1;
                    if again > 20_000 {
                        again = 0;
                        if let Some(w) = IDLE.with(|s| s.borrow_mut().take()) {
                            SPINS.with(|c| c.set(c.get() + 1));
                            IDLE_GEN.with(|g| g.set(g.get() + 1));
                            w.wake();
                        }
                    }
                    continue;
                }
                PollResult::Pending => {
                    again = 0;
                    // exact quiescence: nothing is runnable
                    if let Some(w) = IDLE.with(|s| s.borrow_mut().take()) {
                        IDLE_GEN.with(|g| g.set(g.get() + 1));
                        w.wake();
                        continue;
                    }
                    // nobody waits for quiescence: park until an external wake-up (timer thread)
                    let mut g = self.0.flag.lock().unwrap();
                    while !*g {
                        g = self.0.cv.wait(g).unwrap();
                    }
                    *g = false;
                }
            }
        }
    }
}

pub struct Run;

impl Runner for Run {
    fn block_on(&self, fut: BlockFuture) -> Result<(), Box<dyn Any + Send>> {
        let drv = Drv(Arc::new(Signal::default()));
        let rt = Runtime::new(drv.handle());
        rt.block_on(fut, &drv);
        Ok(())
    }
}

/// Resolves when no other task of the runtime is runnable.
pub fn idle() -> Idle {
    Idle { gen_at: None }
}

pub struct Idle {
    gen_at: Option<u64>,
}

impl Future for Idle {
    type Output = ();
    fn poll(mut self: Pin<&mut Self>, cx: &mut Context<'_>) -> Poll<()> {
        let g = IDLE_GEN.with(Cell::get);
        match self.gen_at {
            Some(at) if g > at => Poll::Ready(()),
            _ => {
                self.gen_at = Some(g);
                IDLE.with(|s| *s.borrow_mut() = Some(cx.waker().clone()));
                Poll::Pending
            }
        }
    }
}

/// Waker that only records that it was invoked (for harness-owned futures).
#[derive(Default)]
pub struct FlagWaker(pub std::sync::atomic::AtomicBool);

impl Wake for FlagWaker {
    fn wake(self: Arc<Self>) {
        self.0.store(true, std::sync::atomic::Ordering::SeqCst);
    }
    fn wake_by_ref(self: &Arc<Self>) {
        self.0.store(true, std::sync::atomic::Ordering::SeqCst);
    }
}

impl FlagWaker {
    pub fn take(&self) -> bool {
        self.0.swap(false, std::sync::atomic::Ordering::SeqCst)
    }
}

/// Run `f` on a fresh deterministic system.
pub fn run<F, Fut, R>(f: F) -> R
where
    F: FnOnce() -> Fut + 'static,
    Fut: Future<Output = R> + 'static,
    R: 'static,
{
    ntex_rt::System::new("mqv", Run).block_on(async move { f().await })
}

/// Poll a boxed future once with a flag waker.
pub fn poll_once<T>(
    fut: &mut Pin<Box<dyn Future<Output = T>>>,
    flag: &Arc<FlagWaker>,
) -> Poll<T> {
    let waker = Waker::from(flag.clone());
    let mut cx = Context::from_waker(&waker);
    fut.as_mut().poll(&mut cx)
}
