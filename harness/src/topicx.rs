//! C18 driver: compares the crate's topic filter code with the tables TLC produced from
//! Topic.tla, and records a sample of real answers for the TLC judge (impl -> spec).
use std::collections::{HashMap, HashSet};
use std::io::Write;
use std::str::FromStr;

use ntex_bytes::ByteString;
use ntex_mqtt::TopicFilter;
use serde_json::{Value, json};

fn codes(s: &str) -> Vec<u32> {
    s.chars().map(|c| c as u32).collect()
}

pub fn run(table: &str, out: &str, sample_every: usize) {
    let t: Value = serde_json::from_reader(std::fs::File::open(table).expect("table")).expect("json");
    let strings: Vec<String> = t["strings"].as_array().unwrap().iter().map(|v| v.as_str().unwrap().to_string()).collect();
    let vf: HashSet<&str> = t["valid_filter"].as_array().unwrap().iter().map(|v| v.as_str().unwrap()).collect();
    let vn: HashSet<&str> = t["valid_name"].as_array().unwrap().iter().map(|v| v.as_str().unwrap()).collect();
    let mut mt: HashMap<&str, HashSet<&str>> = HashMap::new();
    for (f, ts) in t["match"].as_object().unwrap() {
        mt.insert(f.as_str(), ts.as_array().unwrap().iter().map(|v| v.as_str().unwrap()).collect());
    }
    let mut viol: Vec<Value> = Vec::new();
    let mut push = |why: &str, f: &str, t: &str| {
        if viol.len() < 200 {
            viol.push(json!({"why": why, "f": f, "t": t}));
        }
    };
    let mut n_valid = 0u64;
    let mut n_pairs = 0u64;
    let mut n_cover = 0u64;
    let mut n_cover_true = 0u64;
    let mut sample = std::io::BufWriter::new(std::fs::File::create(format!("{out}.sample.ndjson")).unwrap());
    let mut parsed: Vec<(usize, TopicFilter)> = Vec::new();
    let mut counter = 0usize;
    for (i, s) in strings.iter().enumerate() {
        let r = std::panic::catch_unwind(|| {
            let a = TopicFilter::from_str(s).ok();
            let b = TopicFilter::try_from(ByteString::from(s.clone())).ok();
            (a, b, ntex_mqtt::verif_topic_is_valid(s))
        });
        let Ok((a, b, c)) = r else {
            push("C18:panic-in-filter-parsing", s, "");
            continue;
        };
        let expect = vf.contains(s.as_str());
        n_valid += 1;
        if a.is_some() != expect {
            push("C18:from_str-validity-differs-from-section-4.7", s, "");
        }
        if a.is_some() != b.is_some() || a.is_some() != c {
            push("C18:validators-disagree", s, "");
        }
        if let Some(tf) = a {
            if tf.to_string() != *s {
                push("C18:display-does-not-round-trip", s, &tf.to_string());
            }
            parsed.push((i, tf));
        }
    }
    let names: Vec<&String> = strings.iter().filter(|s| vn.contains(s.as_str())).collect();
    for (i, tf) in &parsed {
        let f = strings[*i].as_str();
        let exp = mt.get(f);
        for t in &names {
            let real = tf.matches_topic(t.as_str());
            let e = exp.is_some_and(|m| m.contains(t.as_str()));
            n_pairs += 1;
            if real != e {
                push("C18:matches_topic-differs-from-section-4.7", f, t);
            }
            counter += 1;
            if counter % sample_every == 0 {
                writeln!(sample, "{}", json!({"f": codes(f), "t": codes(t), "m": i32::from(real), "vf": 1, "vn": 1})).unwrap();
            }
        }
    }
    // covering relation: whenever f is reported to cover g, every name matched by g is matched by f
    let empty: HashSet<&str> = HashSet::new();
    for (i, f) in &parsed {
        let fs = strings[*i].as_str();
        let fm = mt.get(fs).unwrap_or(&empty);
        for (j, g) in &parsed {
            n_cover += 1;
            if f.matches_filter(g) {
                n_cover_true += 1;
                let gs = strings[*j].as_str();
                let gm = mt.get(gs).unwrap_or(&empty);
                if let Some(w) = gm.iter().find(|t| !fm.contains(*t)) {
                    push("C18:reported-cover-is-not-a-cover", &format!("{fs} covers {gs}"), w);
                }
            }
        }
    }
    // invalid strings in the judge sample as well
    for s in strings.iter().step_by(7) {
        let ok = TopicFilter::from_str(s).is_ok();
        writeln!(sample, "{}", json!({"f": codes(s), "t": [97], "m": 0, "vf": i32::from(ok), "vn": 0})).unwrap();
    }
    // random longer / unicode pairs: every answer goes to the TLC judge
    if let Some(extra) = t.get("extra_pairs").and_then(Value::as_array) {
        for p in extra {
            let f = p[0].as_str().unwrap();
            let tn = p[1].as_str().unwrap();
            let r = std::panic::catch_unwind(|| {
                TopicFilter::from_str(f).ok().map(|tf| (tf.matches_topic(tn), tf.to_string() == f))
            });
            match r {
                Ok(Some((m, rt))) => {
                    if !rt {
                        push("C18:display-does-not-round-trip", f, "");
                    }
                    let vn = !tn.is_empty() && !tn.contains(['+', '#']);
                    writeln!(sample, "{}", json!({"f": codes(f), "t": codes(tn), "m": i32::from(m), "vf": 1, "vn": i32::from(vn)})).unwrap();
                }
                Ok(None) => {
                    writeln!(sample, "{}", json!({"f": codes(f), "t": codes(tn), "m": 0, "vf": 0, "vn": 0})).unwrap();
                }
                Err(_) => push("C18:panic-in-filter-parsing", f, tn),
            }
        }
    }
    sample.flush().unwrap();
    let res = json!({"strings": n_valid, "pairs": n_pairs, "cover_pairs": n_cover, "cover_true": n_cover_true,
                     "violations": viol});
    std::fs::write(out, serde_json::to_string(&res).unwrap()).unwrap();
}
