//! Connection-level driver: replays a command sequence on a real ntex-mqtt endpoint (v3/v5,
//! server/client) over the in-memory `IoTest` transport under the deterministic runtime, and
//! records the observable trace (one flat JSON record per event).
use std::cell::{Cell, RefCell};
use std::collections::{HashMap, VecDeque};
use std::future::Future;
use std::panic::{AssertUnwindSafe, catch_unwind};
use std::pin::Pin;
use std::rc::Rc;
use std::sync::Arc;
use std::task::Poll;

use ntex_bytes::{ByteString, Bytes};
use ntex_io::{Io, IoBoxed, IoConfig, testing::IoTest};
use ntex_mqtt::{Control, MqttServiceConfig, QoS, Reason, v3, v5};
use ntex_service::cfg::SharedCfg;
use ntex_service::{Pipeline, ServiceFactory, fn_service};
use ntex_util::channel::oneshot;
use ntex_util::time::Seconds;
use serde_json::{Value, json};

use crate::rt::{FlagWaker, idle, poll_once};
use crate::tok::{self, Tokenizer};

// ---------------------------------------------------------------------------------------------
// events

#[derive(Debug, Clone, Default)]
pub struct Ev {
    pub e: &'static str,
    pub k: String,
    pub s: i64,
    pub id: i64,
    pub q: i64,
    pub r: i64,
    pub n: i64,
    pub x: String,
    pub b: Option<Vec<u8>>,
}

impl Ev {
    pub fn new(e: &'static str) -> Ev {
        Ev { e, ..Ev::default() }
    }
    pub fn k(mut self, k: impl Into<String>) -> Ev {
        self.k = k.into();
        self
    }
    pub fn s(mut self, v: i64) -> Ev {
        self.s = v;
        self
    }
    pub fn id(mut self, v: i64) -> Ev {
        self.id = v;
        self
    }
    pub fn q(mut self, v: i64) -> Ev {
        self.q = v;
        self
    }
    pub fn r(mut self, v: i64) -> Ev {
        self.r = v;
        self
    }
    pub fn n(mut self, v: i64) -> Ev {
        self.n = v;
        self
    }
    pub fn x(mut self, v: impl Into<String>) -> Ev {
        self.x = v.into();
        self
    }
    pub fn json(&self) -> Value {
        let mut v = json!({"e": self.e, "k": self.k, "s": self.s, "id": self.id, "q": self.q, "r": self.r,
               "n": self.n, "x": self.x});
        if let Some(b) = &self.b {
            v["b"] = json!(b);
        }
        v
    }
}

// ---------------------------------------------------------------------------------------------
// errors used by the harness services

#[derive(Debug, Clone)]
pub enum TestErr {
    Fail,
    Nack(u8),
}

impl From<()> for TestErr {
    fn from((): ()) -> Self {
        TestErr::Fail
    }
}

impl TryFrom<TestErr> for v5::PublishAck {
    type Error = TestErr;
    fn try_from(err: TestErr) -> Result<Self, Self::Error> {
        match err {
            TestErr::Nack(c) => Ok(v5::PublishAck::new(pub_reason(c))),
            e @ TestErr::Fail => Err(e),
        }
    }
}

fn pub_reason(c: u8) -> v5::codec::PublishAckReason {
    use v5::codec::PublishAckReason as R;
    match c {
        0x10 => R::NoMatchingSubscribers,
        0x80 => R::UnspecifiedError,
        0x83 => R::ImplementationSpecificError,
        0x87 => R::NotAuthorized,
        0x90 => R::TopicNameInvalid,
        0x91 => R::PacketIdentifierInUse,
        0x97 => R::QuotaExceeded,
        0x99 => R::PayloadFormatInvalid,
        _ => R::Success,
    }
}

// ---------------------------------------------------------------------------------------------
// shared run context

#[derive(Debug, Clone)]
pub struct Outcome {
    pub res: String,  // ok | err | nack | disc | disc_with | none | own
    pub read: String, // "" | all | one | drop
    pub code: i64,
    pub rs: i64,  // MQTT 5 acknowledgement: length of the reason string (-1 = none)
    pub up: i64,  // ... number of user properties (each "k<i>" = 8 bytes "vvvvvvvv")
}

impl Outcome {
    fn from(v: &Value) -> Outcome {
        Outcome {
            res: v.get("o").and_then(Value::as_str).unwrap_or("ok").to_string(),
            read: v.get("read").and_then(Value::as_str).unwrap_or("").to_string(),
            code: v.get("code").and_then(Value::as_i64).unwrap_or(0x80),
            rs: v.get("rs").and_then(Value::as_i64).unwrap_or(-1),
            up: v.get("up").and_then(Value::as_i64).unwrap_or(0),
        }
    }
    fn ok() -> Outcome {
        Outcome { res: "ok".into(), read: String::new(), code: 0, rs: -1, up: 0 }
    }
    /// reason string and user properties the application attaches to its acknowledgement
    fn dress(&self, mut a: v5::PublishAck) -> v5::PublishAck {
        if self.rs >= 0 {
            a = a.reason(ByteString::from("r".repeat(self.rs as usize)));
        }
        if self.up > 0 {
            let n = self.up;
            a = a.properties(|p| {
                for i in 0..n {
                    p.push((ByteString::from(format!("k{i}")), ByteString::from("vvvvvvvv")));
                }
            });
        }
        a
    }
}

pub enum SinkH {
    None,
    V3(v3::MqttSink),
    V5(v5::MqttSink),
}

thread_local! {
    pub static EVENTS: RefCell<Vec<Ev>> = const { RefCell::new(Vec::new()) };
}

pub struct Ctx {
    pub t0: std::time::Instant,
    pub gates: RefCell<HashMap<i64, oneshot::Sender<Outcome>>>,
    pub armed: RefCell<VecDeque<Outcome>>,
    pub armed_ctl: RefCell<VecDeque<Outcome>>,
    pub next_h: Cell<i64>,
    pub sink: RefCell<SinkH>,
    pub cfg: Value,
    pub gate_stop: Cell<bool>,
    pub gate_hs: Cell<bool>,
    pub gate_proto: Cell<bool>,
    pub gate_pub: Cell<bool>,
    pub conn_done: Cell<bool>,
}

impl Ctx {
    pub fn emit(&self, ev: Ev) {
        if std::env::var_os("MQV_LIVE").is_some() {
            eprintln!("{:?} {}", std::time::SystemTime::now().duration_since(std::time::UNIX_EPOCH).unwrap().as_millis() % 100000, ev.json());
        }
        EVENTS.with(|e| e.borrow_mut().push(ev));
    }
    pub fn elapsed_ms(&self) -> i64 {
        self.t0.elapsed().as_millis() as i64
    }
    fn new_h(&self) -> i64 {
        let h = self.next_h.get() + 1;
        self.next_h.set(h);
        h
    }
    fn cfg_i(&self, k: &str, d: i64) -> i64 {
        self.cfg.get(k).and_then(Value::as_i64).unwrap_or(d)
    }
    fn cfg_s(&self, k: &str, d: &str) -> String {
        self.cfg.get(k).and_then(Value::as_str).unwrap_or(d).to_string()
    }
    /// outcome "fclose": the handler itself closes the connection (MqttSink::force_close) before it returns
    fn handler_close(&self, out: &Outcome) {
        if out.res == "fclose" {
            self.emit(Ev::new("close").k("force"));
            match &*self.sink.borrow() {
                SinkH::V3(s) => s.force_close(),
                SinkH::V5(s) => s.force_close(),
                SinkH::None => {}
            }
        }
    }
    /// wait for the outcome of handler `h`: pre-armed (completes inside the call) or gated
    async fn outcome(&self, h: i64, gated: bool, ctl: bool) -> Outcome {
        let q = if ctl { &self.armed_ctl } else { &self.armed };
        if let Some(o) = q.borrow_mut().pop_front() {
            return o;
        }
        if !gated {
            return Outcome::ok();
        }
        let (tx, rx) = oneshot::channel();
        self.gates.borrow_mut().insert(h, tx);
        rx.await.unwrap_or(Outcome { res: "cancelled".into(), read: String::new(), code: 0, rs: -1, up: 0 })
    }
}

struct Guard {
    ctx: Rc<Ctx>,
    h: i64,
    done: Cell<bool>,
}

impl Drop for Guard {
    fn drop(&mut self) {
        if !self.done.get() {
            self.ctx.gates.borrow_mut().remove(&self.h);
            self.ctx.emit(Ev::new("h_drop").s(self.h));
        }
    }
}

fn qos_i(q: QoS) -> i64 {
    match q {
        QoS::AtMostOnce => 0,
        QoS::AtLeastOnce => 1,
        QoS::ExactlyOnce => 2,
    }
}

fn qos_of(i: i64) -> QoS {
    match i {
        0 => QoS::AtMostOnce,
        1 => QoS::AtLeastOnce,
        _ => QoS::ExactlyOnce,
    }
}

fn stop_class<E>(r: &Reason<E>) -> (String, String) {
    match r {
        Reason::Error(_) => ("stop_error".into(), String::new()),
        Reason::Protocol(e) => ("stop_proto".into(), format!("{:?}", e.get_ref())),
        Reason::PeerGone(e) => ("stop_peer".into(), format!("{:?}", e.err().map(|e| e.kind()))),
    }
}

/// canonical string of the properties of a PUBLISH as a handler sees them (same format as `in_props`)
fn props_ev(h: i64, pr: &v5::codec::PublishProperties) -> Ev {
    let ups: Vec<String> = pr.user_properties.iter().map(|(k, v)| format!("{k}={v}")).collect();
    let s = |o: &Option<ntex_bytes::ByteString>| o.as_ref().map_or(String::new(), |x| x.to_string());
    let cd = pr.correlation_data.as_ref().map_or(String::new(), |b| String::from_utf8_lossy(b).to_string());
    Ev::new("h_props")
        .s(h)
        .q(pr.message_expiry_interval.map_or(0, |x| i64::from(x.get())))
        .r(i64::from(pr.is_utf8_payload))
        .n(pr.user_properties.len() as i64)
        .x(format!("{}|{}|{}|{}", s(&pr.content_type), s(&pr.response_topic), cd, ups.join(",")))
}

/// checksum of a payload piece (sum of the bytes modulo 65521), compared by PayMon with the
/// closed form for the position pattern
fn bsum(b: &[u8]) -> i64 {
    (b.iter().map(|x| *x as u64).sum::<u64>() % 65521) as i64
}

/// Reading the payload the way the outcome asks for; returns (bytes read, error?)
/// read mode "task": the payload is taken out of the message and read to its end by a task of its own, which
/// outlives the handler (the handler returns at once): what that reader sees when the connection ends - an
/// error, never a clean end - is observable
fn spawn_reader(ctx: &Rc<Ctx>, h: i64, pl: ntex_mqtt::Payload) {
    let c = ctx.clone();
    c.emit(Ev::new("reader_start").s(h));
    ntex_rt::spawn(async move {
        let mut total = 0usize;
        loop {
            match pl.read().await {
                Ok(Some(b)) => {
                    total += b.len();
                    c.emit(Ev::new("h_chunk").s(h).n(b.len() as i64).id(bsum(&b)));
                }
                Ok(None) => {
                    c.emit(Ev::new("h_read").s(h).n(total as i64).r(0).k("task"));
                    break;
                }
                Err(e) => {
                    c.emit(Ev::new("h_read").s(h).n(total as i64).r(1).k("task").x(format!("{e:?}")));
                    break;
                }
            }
        }
    });
}

macro_rules! read_payload {
    ($ctx:expr, $h:expr, $p:expr, $out:expr) => {{
        match $out.read.as_str() {
            "all" => match $p.read_all().await {
                Ok(b) => {
                    let ok = b.iter().all(|c| *c == b[0]);
                    $ctx.emit(Ev::new("h_read").s($h).n(b.len() as i64).r(0).k("all").id(bsum(&b)).q(if ok && !b.is_empty() {
                        b[0] as i64
                    } else if b.is_empty() { 0 } else { -1 }));
                }
                Err(e) => $ctx.emit(Ev::new("h_read").s($h).n(-1).r(1).x(format!("{e:?}"))),
            },
            "chunks" => {
                let mut total = 0usize;
                let mut fill: i64 = 0;
                loop {
                    match $p.read().await {
                        Ok(Some(b)) => {
                            if !b.is_empty() {
                                let same = b.iter().all(|c| *c == b[0]);
                                if !same || (fill != 0 && fill != b[0] as i64) { fill = -1 } else if fill == 0 { fill = b[0] as i64 }
                            }
                            total += b.len();
                            $ctx.emit(Ev::new("h_chunk").s($h).n(b.len() as i64).id(bsum(&b)));
                        }
                        Ok(None) => {
                            $ctx.emit(Ev::new("h_read").s($h).n(total as i64).r(0).k("chunks").q(fill));
                            break;
                        }
                        Err(e) => {
                            $ctx.emit(Ev::new("h_read").s($h).n(total as i64).r(1).x(format!("{e:?}")));
                            break;
                        }
                    }
                }
            }
            "one" => match $p.read().await {
                Ok(Some(b)) => $ctx.emit(Ev::new("h_chunk").s($h).n(b.len() as i64).id(bsum(&b))),
                Ok(None) => $ctx.emit(Ev::new("h_read").s($h).n(0).r(0)),
                Err(e) => $ctx.emit(Ev::new("h_read").s($h).n(-1).r(1).x(format!("{e:?}"))),
            },
            _ => {}
        }
    }};
}

// ---------------------------------------------------------------------------------------------
// v5 server services

async fn hs5(ctx: Rc<Ctx>, h: v5::Handshake) -> Result<v5::HandshakeAck<()>, TestErr> {
    hs5g(ctx, h, ()).await
}

async fn hs5g<St>(ctx: Rc<Ctx>, mut h: v5::Handshake, st: St) -> Result<v5::HandshakeAck<St>, TestErr> {
    let hid = ctx.new_h();
    {
        let p = h.packet();
        ctx.emit(
            Ev::new("h_start")
                .k("hs")
                .s(hid)
                .n(i64::from(p.keep_alive))
                .q(p.receive_max.map_or(0, |v| i64::from(v.get())))
                .r(p.max_packet_size.map_or(0, |v| i64::from(v.get())))
                .x(p.client_id.to_string()),
        );
    }
    *ctx.sink.borrow_mut() = SinkH::V5(h.sink());
    let g = Guard { ctx: ctx.clone(), h: hid, done: Cell::new(false) };
    let out = ctx.outcome(hid, ctx.gate_hs.get(), false).await;
    g.done.set(true);
    ctx.emit(Ev::new("h_end").s(hid).k(out.res.clone()));
    let _ = h.packet_mut();
    match out.res.as_str() {
        "err" => Err(TestErr::Fail),
        "refuse" => Ok(h.failed(v5::codec::ConnectAckReason::NotAuthorized)),
        _ => {
            let mut ack = h.ack(st);
            let ms = ctx.cfg_i("ack_max_send", -1);
            if ms >= 0 {
                ack = ack.max_send(Some(ms as u16));
            }
            let ka = ctx.cfg_i("ack_keep_alive", -1);
            if ka > 0 {
                ack = ack.keep_alive(ka as u16);
            }
            let c = ctx.clone();
            ack = ack.with(move |p| {
                let v = c.cfg_i("ack_receive_max", -1);
                if v > 0 {
                    p.receive_max = std::num::NonZeroU16::new(v as u16).unwrap();
                }
                let v = c.cfg_i("ack_max_qos", -1);
                if v >= 0 {
                    p.max_qos = qos_of(v);
                }
                let v = c.cfg_i("ack_topic_alias_max", -1);
                if v >= 0 {
                    p.topic_alias_max = v as u16;
                }
                let v = c.cfg_i("ack_max_packet_size", -1);
                if v >= 0 {
                    p.max_packet_size = if v == 0 { None } else { Some(v as u32) };
                }
                let v = c.cfg_i("ack_server_keepalive", -1);
                if v >= 0 {
                    p.server_keepalive_sec = Some(v as u16);
                }
                let v = c.cfg_i("ack_retain_available", -1);
                if v >= 0 {
                    p.retain_available = v != 0;
                }
                let v = c.cfg_i("ack_sub_ids_available", -1);
                if v >= 0 {
                    p.subscription_identifiers_available = v != 0;
                }
            });
            Ok(ack)
        }
    }
}

async fn pub5(ctx: Rc<Ctx>, p: v5::Publish) -> Result<v5::PublishAck, TestErr> {
    pub5r(ctx, 0, -1, p).await
}

/// publish handler of connection `conn` (0 = the connection under observation) reached through
/// router resource `res` (-1 = no router, 0 = default service, 1.. = resources)
async fn pub5r(ctx: Rc<Ctx>, conn: i64, res: i64, mut p: v5::Publish) -> Result<v5::PublishAck, TestErr> {
    if conn != 0 {
        return Ok(p.ack());
    }
    let h = ctx.new_h();
    ctx.emit(
        Ev::new("h_start")
            .k("pub")
            .s(h)
            .id(p.id().map_or(0, |v| i64::from(v.get())))
            .q(qos_i(p.qos()))
            .n(p.payload_size() as i64)
            .r(i64::from(p.dup()) * 2 + i64::from(p.retain()) + if res >= 0 { 16 * (res + 1) } else { 0 })
            .x(p.publish_topic().to_string()),
    );
    ctx.emit(props_ev(h, &p.packet().properties));
    let g = Guard { ctx: ctx.clone(), h, done: Cell::new(false) };
    let out = ctx.outcome(h, ctx.gate_pub.get(), false).await;
    if out.read == "task" || ctx.cfg_i("task_reader", 0) != 0 {
        spawn_reader(&ctx, h, p.take_payload());
    } else {
        read_payload!(ctx, h, p, out);
    }
    g.done.set(true);
    ctx.handler_close(&out);
    ctx.emit(Ev::new("h_end").s(h).k(out.res.clone()).r(out.code));
    match out.res.as_str() {
        "err" => Err(TestErr::Fail),
        "nack" => Err(TestErr::Nack(out.code as u8)),
        "nack_ok" => Ok(out.dress(p.ack().reason_code(pub_reason(out.code as u8)))),
        _ => Ok(out.dress(p.ack())),
    }
}

/// publish service whose `shutdown()` completes only on command (cfg `slow_shutdown`): an application service
/// may take its time to shut down; whatever a late handler produces meanwhile must not reach the wire once the
/// endpoint has written its DISCONNECT
struct SlowPub5 {
    ctx: Rc<Ctx>,
}

impl ntex_service::Service<v5::Publish> for SlowPub5 {
    type Response = v5::PublishAck;
    type Error = TestErr;

    async fn call(&self, p: v5::Publish, _: ntex_service::ServiceCtx<'_, Self>) -> Result<v5::PublishAck, TestErr> {
        pub5(self.ctx.clone(), p).await
    }

    async fn shutdown(&self) {
        let h = self.ctx.new_h();
        self.ctx.emit(Ev::new("h_start").k("shutdown").s(h));
        let (tx, rx) = oneshot::channel();
        self.ctx.gates.borrow_mut().insert(h, tx);
        let _ = rx.await;
        self.ctx.emit(Ev::new("h_end").k("ok").s(h));
    }
}

async fn proto5(
    ctx: Rc<Ctx>,
    msg: v5::ProtocolMessage,
) -> Result<v5::ProtocolMessageAck, TestErr> {
    let h = ctx.new_h();
    let (k, id) = match &msg {
        v5::ProtocolMessage::Auth(_) => ("auth", 0),
        v5::ProtocolMessage::PublishRelease(m) => ("pubrel", i64::from(m.packet().packet_id.get())),
        v5::ProtocolMessage::Subscribe(m) => ("sub", i64::from(m.packet().packet_id.get())),
        v5::ProtocolMessage::Unsubscribe(m) => ("unsub", i64::from(m.packet().packet_id.get())),
        v5::ProtocolMessage::Disconnect(_) => ("disc", 0),
        v5::ProtocolMessage::Ping(_) => ("ping", 0),
    };
    ctx.emit(Ev::new("h_start").k(k).s(h).id(id));
    let g = Guard { ctx: ctx.clone(), h, done: Cell::new(false) };
    let out = ctx.outcome(h, ctx.gate_proto.get(), false).await;
    if out.res == "send" {
        let sk = match &*ctx.sink.borrow() {
            SinkH::V5(sk) => Some(sk.clone()),
            _ => None,
        };
        if let Some(sk) = sk {
            let r = sk.publish("t").send_at_least_once(Bytes::from_static(b"x")).await;
            ctx.emit(Ev::new("h_send").s(h).k(if r.is_ok() { "ok" } else { "failed" }));
        }
    }
    g.done.set(true);
    ctx.emit(Ev::new("h_end").s(h).k(out.res.clone()).r(out.code));
    match out.res.as_str() {
        "err" => Err(TestErr::Fail),
        "disc" => Ok(msg.disconnect()),
        "disc_with" => Ok(msg.disconnect_with(v5::codec::Disconnect::new(disc_reason(out.code)))),
        _ => Ok(match msg {
            v5::ProtocolMessage::Auth(m) => m.ack(v5::codec::Auth::default()),
            v5::ProtocolMessage::Subscribe(mut m) => {
                for mut s in &mut m {
                    s.confirm(QoS::AtLeastOnce);
                }
                m.ack()
            }
            v5::ProtocolMessage::Unsubscribe(mut m) => {
                for mut s in &mut m {
                    s.success();
                }
                m.ack()
            }
            m => m.ack(),
        }),
    }
}

fn disc_reason(c: i64) -> v5::codec::DisconnectReasonCode {
    use v5::codec::DisconnectReasonCode as D;
    match c {
        0x00 => D::NormalDisconnection,
        0x04 => D::DisconnectWithWillMessage,
        0x81 => D::MalformedPacket,
        0x82 => D::ProtocolError,
        0x83 => D::ImplementationSpecificError,
        0x87 => D::NotAuthorized,
        0x89 => D::ServerBusy,
        0x8b => D::ServerShuttingDown,
        0x9c => D::UseAnotherServer,
        0x9d => D::ServerMoved,
        _ => D::UnspecifiedError,
    }
}

async fn ctl5(
    ctx: Rc<Ctx>,
    c: Control<TestErr>,
) -> Result<Option<v5::codec::Encoded>, TestErr> {
    let h = ctx.new_h();
    let (is_stop, out) = ctl_common(&ctx, h, &c).await;
    if !is_stop {
        return Ok(None);
    }
    match out.res.as_str() {
        "err" => Err(TestErr::Fail),
        "own" => Ok(Some(v5::codec::Encoded::Packet(v5::codec::Packet::Disconnect(
            v5::codec::Disconnect::new(disc_reason(out.code)),
        )))),
        _ => Ok(None),
    }
}

async fn ctl_common(ctx: &Rc<Ctx>, h: i64, c: &Control<TestErr>) -> (bool, Outcome) {
    match c {
        Control::WrBackpressure(w) => {
            ctx.emit(Ev::new("ctl").k(if w.enabled() { "wrb_on" } else { "wrb_off" }).s(h));
            (false, Outcome::ok())
        }
        Control::Stop(r) => {
            let (k, x) = stop_class(r);
            // r: 1 = keep-alive timeout, 2 = read timeout, 3 = undecodable input, 0 = other
            let code = match r {
                Reason::Protocol(e) => match e.get_ref() {
                    ntex_mqtt::error::ProtocolError::KeepAliveTimeout => 1,
                    ntex_mqtt::error::ProtocolError::ReadTimeout => 2,
                    ntex_mqtt::error::ProtocolError::Decode(_) => 3,
                    _ => 0,
                },
                _ => 0,
            };
            ctx.emit(Ev::new("ctl").k(k).s(h).x(x).r(code).n(ctx.elapsed_ms()));
            let g = Guard { ctx: ctx.clone(), h, done: Cell::new(false) };
            let out = ctx.outcome(h, ctx.gate_stop.get(), true).await;
            g.done.set(true);
            ctx.emit(Ev::new("ctl_done").s(h).k(out.res.clone()));
            (true, out)
        }
    }
}

// ---------------------------------------------------------------------------------------------
// v3 server services

async fn hs3(ctx: Rc<Ctx>, h: v3::Handshake) -> Result<v3::HandshakeAck<()>, TestErr> {
    let hid = ctx.new_h();
    {
        let p = h.packet();
        ctx.emit(
            Ev::new("h_start")
                .k("hs")
                .s(hid)
                .n(i64::from(p.keep_alive))
                .x(p.client_id.to_string()),
        );
    }
    *ctx.sink.borrow_mut() = SinkH::V3(h.sink());
    let g = Guard { ctx: ctx.clone(), h: hid, done: Cell::new(false) };
    let out = ctx.outcome(hid, ctx.gate_hs.get(), false).await;
    g.done.set(true);
    ctx.emit(Ev::new("h_end").s(hid).k(out.res.clone()));
    match out.res.as_str() {
        "err" => Err(TestErr::Fail),
        "refuse" => Ok(h.not_authorized()),
        _ => {
            let mut ack = h.ack((), false);
            let ms = ctx.cfg_i("ack_max_send", -1);
            if ms >= 0 {
                ack = ack.max_send(Some(ms as u16));
            }
            let ka = ctx.cfg_i("ack_keep_alive", -1);
            if ka >= 0 {
                ack = ack.idle_timeout(Seconds(ka as u16));
            }
            if let Some(v) = std::num::NonZeroU32::new(ctx.cfg_i("ack_max_packet_size", 0).max(0) as u32) {
                ack = ack.max_packet_size(v);
            }
            Ok(ack)
        }
    }
}

async fn pub3(ctx: Rc<Ctx>, mut p: v3::Publish) -> Result<(), TestErr> {
    let h = ctx.new_h();
    ctx.emit(
        Ev::new("h_start")
            .k("pub")
            .s(h)
            .id(p.id().map_or(0, |v| i64::from(v.get())))
            .q(qos_i(p.qos()))
            .n(p.payload_size() as i64)
            .r(i64::from(p.dup()) * 2 + i64::from(p.retain()))
            .x(p.publish_topic().to_string()),
    );
    let g = Guard { ctx: ctx.clone(), h, done: Cell::new(false) };
    let out = ctx.outcome(h, ctx.gate_pub.get(), false).await;
    if out.read == "task" || ctx.cfg_i("task_reader", 0) != 0 {
        spawn_reader(&ctx, h, p.take_payload());
    } else {
        read_payload!(ctx, h, p, out);
    }
    g.done.set(true);
    ctx.handler_close(&out);
    ctx.emit(Ev::new("h_end").s(h).k(out.res.clone()).r(out.code));
    match out.res.as_str() {
        "err" | "nack" => Err(TestErr::Fail),
        _ => Ok(()),
    }
}

async fn proto3(
    ctx: Rc<Ctx>,
    msg: v3::ProtocolMessage,
) -> Result<v3::ProtocolMessageAck, TestErr> {
    let h = ctx.new_h();
    let (k, id) = match &msg {
        v3::ProtocolMessage::PublishRelease(_) => ("pubrel", 0),
        v3::ProtocolMessage::Subscribe(_) => ("sub", 0),
        v3::ProtocolMessage::Unsubscribe(_) => ("unsub", 0),
        v3::ProtocolMessage::Disconnect(_) => ("disc", 0),
        v3::ProtocolMessage::Ping(_) => ("ping", 0),
    };
    ctx.emit(Ev::new("h_start").k(k).s(h).id(id));
    let g = Guard { ctx: ctx.clone(), h, done: Cell::new(false) };
    let out = ctx.outcome(h, ctx.gate_proto.get(), false).await;
    if out.res == "send" {
        // the handler publishes through the sink and waits for the acknowledgement before it answers: it ends
        // when the peer acknowledges - or when the connection goes down and the send fails
        let sk = match &*ctx.sink.borrow() {
            SinkH::V3(sk) => Some(sk.clone()),
            _ => None,
        };
        if let Some(sk) = sk {
            let r = sk.publish("t").send_at_least_once(Bytes::from_static(b"x")).await;
            ctx.emit(Ev::new("h_send").s(h).k(if r.is_ok() { "ok" } else { "failed" }));
        }
    }
    g.done.set(true);
    ctx.emit(Ev::new("h_end").s(h).k(out.res.clone()).r(out.code));
    match out.res.as_str() {
        "err" => Err(TestErr::Fail),
        "disc" | "disc_with" => Ok(msg.disconnect()),
        _ => Ok(match msg {
            v3::ProtocolMessage::Subscribe(mut m) => {
                for mut s in m.iter_mut() {
                    s.confirm(QoS::AtLeastOnce);
                }
                m.ack()
            }
            // (ProtocolMessage::ack() answers SUBSCRIBE / UNSUBSCRIBE with a disconnect: "not supported")
            v3::ProtocolMessage::Unsubscribe(m) => m.ack(),
            m => m.ack(),
        }),
    }
}

async fn ctl3(ctx: Rc<Ctx>, c: Control<TestErr>) -> Result<Option<v3::codec::Encoded>, TestErr> {
    let h = ctx.new_h();
    let (is_stop, out) = ctl_common(&ctx, h, &c).await;
    if is_stop && out.res == "err" { Err(TestErr::Fail) } else { Ok(None) }
}

// ---------------------------------------------------------------------------------------------
// client-side services

async fn cproto5(
    ctx: Rc<Ctx>,
    msg: v5::client::ProtocolMessage,
) -> Result<v5::ProtocolMessageAck, TestErr> {
    use v5::client::ProtocolMessage as M;
    let h = ctx.new_h();
    match msg {
        M::Publish(p) => {
            let pk = p.packet();
            ctx.emit(
                Ev::new("h_start")
                    .k("pub")
                    .s(h)
                    .id(pk.packet_id.map_or(0, |v| i64::from(v.get())))
                    .q(qos_i(pk.qos))
                    .n(p.payload_size() as i64)
                    .r(i64::from(pk.dup) * 2 + i64::from(pk.retain))
                    .x(pk.topic.to_string()),
            );
            ctx.emit(props_ev(h, &pk.properties));
            let g = Guard { ctx: ctx.clone(), h, done: Cell::new(false) };
            let out = ctx.outcome(h, ctx.gate_pub.get(), false).await;
            read_payload!(ctx, h, p, out);
            g.done.set(true);
            ctx.emit(Ev::new("h_end").s(h).k(out.res.clone()).r(out.code));
            match out.res.as_str() {
                "err" => Err(TestErr::Fail),
                "nack" | "nack_ok" => Ok(p.ack(pub_reason(out.code as u8))),
                _ => Ok(p.ack(v5::codec::PublishAckReason::Success)),
            }
        }
        other => {
            let (k, id) = match &other {
                M::PublishRelease(m) => ("pubrel", i64::from(m.packet().packet_id.get())),
                M::Disconnect(_) => ("disc", 0),
                M::Ping(_) => ("ping", 0),
                M::Publish(_) => unreachable!(),
            };
            ctx.emit(Ev::new("h_start").k(k).s(h).id(id));
            let g = Guard { ctx: ctx.clone(), h, done: Cell::new(false) };
            let out = ctx.outcome(h, ctx.gate_proto.get(), false).await;
            g.done.set(true);
            ctx.emit(Ev::new("h_end").s(h).k(out.res.clone()).r(out.code));
            match out.res.as_str() {
                "err" => Err(TestErr::Fail),
                "disc" | "disc_with" => {
                    Ok(other.disconnect(v5::codec::Disconnect::new(disc_reason(out.code))))
                }
                _ => Ok(other.ack()),
            }
        }
    }
}

async fn cproto3(
    ctx: Rc<Ctx>,
    msg: v3::client::ProtocolMessage,
) -> Result<v3::ProtocolMessageAck, TestErr> {
    use v3::client::ProtocolMessage as M;
    let h = ctx.new_h();
    match msg {
        M::Publish(p) => {
            let pk = p.packet();
            ctx.emit(
                Ev::new("h_start")
                    .k("pub")
                    .s(h)
                    .id(pk.packet_id.map_or(0, |v| i64::from(v.get())))
                    .q(qos_i(pk.qos))
                    .n(p.payload_size() as i64)
                    .r(i64::from(pk.dup) * 2 + i64::from(pk.retain))
                    .x(pk.topic.to_string()),
            );
            let g = Guard { ctx: ctx.clone(), h, done: Cell::new(false) };
            let out = ctx.outcome(h, ctx.gate_pub.get(), false).await;
            read_payload!(ctx, h, p, out);
            g.done.set(true);
            ctx.emit(Ev::new("h_end").s(h).k(out.res.clone()).r(out.code));
            match out.res.as_str() {
                "err" | "nack" => Err(TestErr::Fail),
                _ => Ok(p.ack()),
            }
        }
        other => {
            let k = match &other {
                M::PublishRelease(_) => "pubrel",
                M::Ping(_) => "ping",
                M::Publish(_) => unreachable!(),
            };
            ctx.emit(Ev::new("h_start").k(k).s(h));
            let g = Guard { ctx: ctx.clone(), h, done: Cell::new(false) };
            let out = ctx.outcome(h, ctx.gate_proto.get(), false).await;
            g.done.set(true);
            ctx.emit(Ev::new("h_end").s(h).k(out.res.clone()).r(out.code));
            match out.res.as_str() {
                "err" => Err(TestErr::Fail),

                _ => Ok(other.ack()),
            }
        }
    }
}

// ---------------------------------------------------------------------------------------------
// sink commands

/// QoS 2 receipt (`PublishReceived` is not nameable from outside the crate): a closure that owns
/// it; calling it releases, dropping it drops the receipt.
pub struct Receipt(Box<dyn FnOnce() -> SFut>);

pub struct SendRes {
    k: String,
    id: i64,
    r: i64,
    receipt: Option<Receipt>,
}

type SFut = Pin<Box<dyn Future<Output = SendRes>>>;

fn err_name(e: &ntex_mqtt::error::SendPacketError) -> String {
    use ntex_mqtt::error::SendPacketError as E;
    match e {
        // (refused because a streamed PUBLISH still owes payload: judged separately - it is legitimate only then)
        E::Encode(ntex_mqtt::error::EncodeError::ExpectPayload) => "ExpectPayload".into(),
        E::Encode(_) => "Encode".into(),
        E::PacketIdInUse(_) => "PacketIdInUse".into(),
        E::UnexpectedRelease => "UnexpectedRelease".into(),
        E::StreamingCancelled => "StreamingCancelled".into(),
        E::Disconnected => "Disconnected".into(),
    }
}

fn res_err(e: &ntex_mqtt::error::SendPacketError) -> SendRes {
    let id = if let ntex_mqtt::error::SendPacketError::PacketIdInUse(i) = e {
        i64::from(i.get())
    } else {
        0
    };
    SendRes { k: err_name(e), id, r: 0, receipt: None }
}

fn res_ok(id: i64, r: i64) -> SendRes {
    SendRes { k: "ok".into(), id, r, receipt: None }
}

/// Streaming payload handle (`v3::StreamingPayload` is not nameable): closure owning it.
type Stream = Rc<dyn Fn(Bytes) -> SFut>;

macro_rules! stream_box {
    ($st:expr) => {{
        let st = Rc::new($st);
        let f: Stream = Rc::new(move |data: Bytes| -> SFut {
            let st = st.clone();
            Box::pin(async move {
                match st.send(data).await {
                    Ok(()) => res_ok(0, 0),
                    Err(e) => res_err(&e),
                }
            })
        });
        f
    }};
}

struct Slot {
    fut: Option<SFut>,
    flag: Arc<FlagWaker>,
    polled: bool,
}

#[derive(Default)]
struct Senders {
    slots: HashMap<i64, Slot>,
    receipts: HashMap<i64, Receipt>,
    streams: HashMap<i64, Stream>,
}

fn topic_of(c: &Value) -> ByteString {
    ByteString::from(c.get("topic").and_then(Value::as_str).unwrap_or("t").to_string())
}

fn payload_of(c: &Value) -> Bytes {
    let n = c.get("plen").and_then(Value::as_i64).unwrap_or(1) as usize;
    Bytes::from(vec![c.get("fill").and_then(Value::as_i64).unwrap_or(0x62) as u8; n])
}

impl SinkH {
    fn credit(&self) -> i64 {
        match self {
            SinkH::None => -1,
            SinkH::V3(s) => s.credit() as i64,
            SinkH::V5(s) => s.credit() as i64,
        }
    }
    fn is_open(&self) -> bool {
        match self {
            SinkH::None => false,
            SinkH::V3(s) => s.is_open(),
            SinkH::V5(s) => s.is_open(),
        }
    }
    fn is_ready(&self) -> bool {
        match self {
            SinkH::None => false,
            SinkH::V3(s) => s.is_ready(),
            SinkH::V5(s) => s.is_ready(),
        }
    }
}

/// Create the future for a `send` command (returns None when the call itself completes, e.g. QoS 0)
fn make_send(ctx: &Rc<Ctx>, snd: &mut Senders, c: &Value) -> Result<Option<SFut>, SendRes> {
    let kind = c.get("k").and_then(Value::as_str).unwrap_or("q1");
    let s = c.get("s").and_then(Value::as_i64).unwrap_or(0);
    let id = c.get("id").and_then(Value::as_i64).unwrap_or(0);
    let sink = ctx.sink.borrow();
    match &*sink {
        SinkH::None => Err(SendRes { k: "NoSink".into(), id: 0, r: 0, receipt: None }),
        SinkH::V5(sink) => {
            let mk = || {
                let mut b = sink.publish(topic_of(c));
                if id > 0 {
                    b = b.packet_id(id as u16);
                }
                if let Some(a) = c.get("alias").and_then(Value::as_i64) {
                    b = b.properties(|p| p.topic_alias = std::num::NonZeroU16::new(a as u16));
                }
                if let Some(n) = c.get("up").and_then(Value::as_i64) {
                    b = b.properties(|p| {
                        for i in 0..n {
                            p.user_properties.push((
                                ByteString::from(format!("k{i}")),
                                ByteString::from("v".repeat(c.get("uplen").and_then(Value::as_i64).unwrap_or(1) as usize)),
                            ));
                        }
                    });
                }
                b
            };
            match kind {
                "q0" => match mk().send_at_most_once(payload_of(c)) {
                    Ok(()) => Err(res_ok(0, 0)),
                    Err(e) => Err(res_err(&e)),
                },
                "q1" => {
                    let f = mk().send_at_least_once(payload_of(c));
                    Ok(Some(Box::pin(async move {
                        match f.await {
                            Ok(a) => res_ok(i64::from(a.packet_id.get()), a.reason_code as u8 as i64),
                            Err(e) => res_err(&e),
                        }
                    })))
                }
                "q1nb" => match mk().send_at_least_once_no_block(payload_of(c)) {
                    Ok(()) => Err(res_ok(0, 0)),
                    Err(e) => Err(res_err(&e)),
                },
                "q2" => {
                    let f = mk().send_exactly_once(payload_of(c));
                    Ok(Some(Box::pin(async move {
                        match f.await {
                            Ok(r) => SendRes {
                                k: "receipt".into(),
                                id: i64::from(r.packet().packet_id.get()),
                                r: r.packet().reason_code as u8 as i64,
                                receipt: Some(Receipt(Box::new(move || -> SFut {
                                    Box::pin(async move {
                                        match r.release().await {
                                            Ok(()) => res_ok(0, 0),
                                            Err(e) => res_err(&e),
                                        }
                                    })
                                }))),
                            },
                            Err(e) => res_err(&e),
                        }
                    })))
                }
                "stream1" => {
                    let size = c.get("plen").and_then(Value::as_i64).unwrap_or(4) as u32;
                    let (f, st) = mk().stream_at_least_once(size);
                    snd.streams.insert(s, stream_box!(st));
                    Ok(Some(Box::pin(async move {
                        match f.await {
                            Ok(a) => res_ok(i64::from(a.packet_id.get()), a.reason_code as u8 as i64),
                            Err(e) => res_err(&e),
                        }
                    })))
                }
                "stream0" => {
                    let size = c.get("plen").and_then(Value::as_i64).unwrap_or(4) as u32;
                    match mk().stream_at_most_once(size) {
                        Ok(st) => {
                            snd.streams.insert(s, stream_box!(st));
                            Err(res_ok(0, 0))
                        }
                        Err(e) => Err(res_err(&e)),
                    }
                }
                "sub" => {
                    let mut b = sink.subscribe(None);
                    if id > 0 {
                        b = b.packet_id(id as u16);
                    }
                    let f = b
                        .topic_filter(topic_of(c), v5::codec::SubscriptionOptions::default())
                        .send();
                    Ok(Some(Box::pin(async move {
                        match f.await {
                            Ok(a) => res_ok(
                                i64::from(a.packet_id.get()),
                                a.status.first().map_or(0, |c| *c as u8 as i64),
                            ),
                            Err(e) => res_err(&e),
                        }
                    })))
                }
                "unsub" => {
                    let mut b = sink.unsubscribe();
                    if id > 0 {
                        b = b.packet_id(id as u16);
                    }
                    let f = b.topic_filter(topic_of(c)).send();
                    Ok(Some(Box::pin(async move {
                        match f.await {
                            Ok(a) => res_ok(
                                i64::from(a.packet_id.get()),
                                a.status.first().map_or(0, |c| *c as u8 as i64),
                            ),
                            Err(e) => res_err(&e),
                        }
                    })))
                }
                "ready" => {
                    // `ready()` is eager (checks at call time) but its `impl Future` captures the
                    // `&self` lifetime under edition-2024 rules; keep the sink alive next to it.
                    let keep = Rc::new(sink.clone());
                    let f = unsafe { &*Rc::as_ptr(&keep) }.ready();
                    Ok(Some(Box::pin(async move {
                        let r = f.await;
                        drop(keep);
                        if r { res_ok(0, 0) } else { SendRes { k: "Disconnected".into(), id: 0, r: 0, receipt: None } }
                    })))
                }
                _ => panic!("unknown send kind {kind}"),
            }
        }
        SinkH::V3(sink) => {
            let mk = || {
                let mut b = sink.publish(topic_of(c));
                if id > 0 {
                    b = b.packet_id(id as u16);
                }
                b
            };
            match kind {
                "q0" => match mk().send_at_most_once(payload_of(c)) {
                    Ok(()) => Err(res_ok(0, 0)),
                    Err(e) => Err(res_err(&e)),
                },
                "q1" => {
                    let f = mk().send_at_least_once(payload_of(c));
                    Ok(Some(Box::pin(async move {
                        match f.await {
                            Ok(()) => res_ok(0, 0),
                            Err(e) => res_err(&e),
                        }
                    })))
                }
                "q1nb" => match mk().send_at_least_once_no_block(payload_of(c)) {
                    Ok(()) => Err(res_ok(0, 0)),
                    Err(e) => Err(res_err(&e)),
                },
                "q2" => {
                    let f = mk().send_exactly_once(payload_of(c));
                    Ok(Some(Box::pin(async move {
                        match f.await {
                            Ok(r) => SendRes {
                                k: "receipt".into(),
                                id: 0,
                                r: 0,
                                receipt: Some(Receipt(Box::new(move || -> SFut {
                                    Box::pin(async move {
                                        match r.release().await {
                                            Ok(()) => res_ok(0, 0),
                                            Err(e) => res_err(&e),
                                        }
                                    })
                                }))),
                            },
                            Err(e) => res_err(&e),
                        }
                    })))
                }
                "stream1" => {
                    let size = c.get("plen").and_then(Value::as_i64).unwrap_or(4) as u32;
                    let (f, st) = mk().stream_at_least_once(size);
                    snd.streams.insert(s, stream_box!(st));
                    Ok(Some(Box::pin(async move {
                        match f.await {
                            Ok(()) => res_ok(0, 0),
                            Err(e) => res_err(&e),
                        }
                    })))
                }
                "stream0" => {
                    let size = c.get("plen").and_then(Value::as_i64).unwrap_or(4) as u32;
                    match mk().stream_at_most_once(size) {
                        Ok(st) => {
                            snd.streams.insert(s, stream_box!(st));
                            Err(res_ok(0, 0))
                        }
                        Err(e) => Err(res_err(&e)),
                    }
                }
                "sub" => {
                    let mut b = sink.subscribe();
                    if id > 0 {
                        b = b.packet_id(id as u16);
                    }
                    let f = b.topic_filter(topic_of(c), QoS::AtLeastOnce).send();
                    Ok(Some(Box::pin(async move {
                        match f.await {
                            Ok(a) => res_ok(0, a.len() as i64),
                            Err(e) => res_err(&e),
                        }
                    })))
                }
                "unsub" => {
                    let mut b = sink.unsubscribe();
                    if id > 0 {
                        b = b.packet_id(id as u16);
                    }
                    let f = b.topic_filter(topic_of(c)).send();
                    Ok(Some(Box::pin(async move {
                        match f.await {
                            Ok(()) => res_ok(0, 0),
                            Err(e) => res_err(&e),
                        }
                    })))
                }
                "ready" => {
                    // `ready()` is eager (checks at call time) but its `impl Future` captures the
                    // `&self` lifetime under edition-2024 rules; keep the sink alive next to it.
                    let keep = Rc::new(sink.clone());
                    let f = unsafe { &*Rc::as_ptr(&keep) }.ready();
                    Ok(Some(Box::pin(async move {
                        let r = f.await;
                        drop(keep);
                        if r { res_ok(0, 0) } else { SendRes { k: "Disconnected".into(), id: 0, r: 0, receipt: None } }
                    })))
                }
                _ => panic!("unknown send kind {kind}"),
            }
        }
    }
}

// ---------------------------------------------------------------------------------------------
// the run itself

fn mqtt_cfg(cfg: &Value) -> (MqttServiceConfig, IoConfig) {
    let gi = |k: &str, d: i64| cfg.get(k).and_then(Value::as_i64).unwrap_or(d);
    let mut m = MqttServiceConfig::new()
        .set_max_size(gi("max_size", 0) as u32)
        .set_max_receive(gi("max_receive", 16) as u16)
        .set_max_receive_size(gi("max_receive_size", 65535) as usize)
        .set_max_topic_alias(gi("max_topic_alias", 32) as u16)
        .set_max_send(gi("max_send", 16) as u16)
        .set_min_chunk_size(gi("min_chunk", 32 * 1024) as u32)
        .set_max_payload_buffer_size(gi("max_payload_buffer", 32 * 1024) as usize)
        .set_connect_timeout(Seconds(gi("connect_timeout", 0) as u16))
        .set_handshake_timeout(Seconds(gi("handshake_timeout", 0) as u16));
    if gi("max_qos", -1) >= 0 {
        m = m.set_max_qos(qos_of(gi("max_qos", 2)));
    }
    if gi("version_timeout", -1) >= 0 {
        m = m.protocol_version_timeout(Seconds(gi("version_timeout", 5) as u16));
    }
    let hq = gi("handle_qos_after_disconnect", -1);
    if hq >= 0 {
        m = m.set_handle_qos_after_disconnect(Some(qos_of(hq)));
    }
    let mut io = IoConfig::new()
        .set_disconnect_timeout(Seconds(gi("disconnect_timeout", 0) as u16))
        .set_keepalive_timeout(Seconds(gi("io_keepalive", 0) as u16));
    let hw = gi("wr_high", 0);
    if hw > 0 {
        io = io.set_write_buf(hw as usize, gi("wr_low", hw / 4) as usize, 16);
    }
    let rate = gi("read_rate", 0);
    if rate > 0 {
        io = io.set_frame_read_rate(
            Seconds(gi("read_rate_timeout", 1) as u16),
            Seconds(gi("read_rate_max", 0) as u16),
            rate as u32,
        );
    }
    (m, io)
}

struct Peer {
    io: IoTest,
    tok_out: Tokenizer,
    raw: bool,
    /// answers the peer still owes, in the order the packets arrived: (ack type, id)
    owed: Vec<(&'static str, u16)>,
}

impl Peer {
    fn drain(&mut self, ctx: &Ctx) {
        let b = self.io.read_any();
        if b.is_empty() {
            return;
        }
        if self.raw {
            let mut ev = Ev::new("out_raw").n(b.len() as i64);
            ev.b = Some(b.to_vec());
            ctx.emit(ev);
        }
        for t in self.tok_out.feed(&b) {
            match t.k {
                "PUBLISH" if t.qos == 1 => self.owed.push(("puback", t.id)),
                "PUBLISH" if t.qos == 2 => self.owed.push(("pubrec", t.id)),
                "PUBREL" => self.owed.push(("pubcomp", t.id)),
                // inbound QoS 2: an orderly peer answers PUBREC (success) with PUBREL
                "PUBREC" if t.reason < 0x80 => self.owed.push(("pubrel", t.id)),
                "SUBSCRIBE" => self.owed.push(("suback", t.id)),
                "UNSUBSCRIBE" => self.owed.push(("unsuback", t.id)),
                _ => {}
            }
            ctx.emit(tok_ev("out", &t));
        }
    }

    fn note_in(&mut self, t: &tok::Tok) {
        let k = match t.k {
            "PUBACK" => "puback",
            "PUBREC" => "pubrec",
            "PUBCOMP" => "pubcomp",
            "SUBACK" => "suback",
            "UNSUBACK" => "unsuback",
            "PUBREL" => "pubrel",
            _ => return,
        };
        if let Some(i) = self.owed.iter().position(|(a, id)| *a == k && *id == t.id) {
            self.owed.remove(i);
        }
    }

    /// write the correct answers to the first `n` owed packets (one transport write)
    fn ack_owed(&mut self, ctx: &Ctx, tok_in: &mut Tokenizer, ver: u8, n: usize) -> usize {
        self.ack_owed_rc(ctx, tok_in, ver, n, 0)
    }

    /// rc != 0 (MQTT 5): the acknowledgements carry that reason code (PUBACK / PUBREC / PUBCOMP)
    fn ack_owed_rc(&mut self, ctx: &Ctx, tok_in: &mut Tokenizer, ver: u8, n: usize, rc: i64) -> usize {
        let n = n.min(self.owed.len());
        let mut bytes = Vec::new();
        for (k, id) in self.owed.drain(..n) {
            if rc != 0 && ver == 5 && matches!(k, "puback" | "pubrec" | "pubcomp") {
                bytes.extend(tok::build(ver, &json!({"t": k, "id": id, "rc": rc})));
            } else {
                bytes.extend(tok::build(ver, &json!({"t": k, "id": id})));
            }
        }
        for t in tok_in.feed(&bytes) {
            ctx.emit(tok_ev("in", &t));
        }
        if n > 0 {
            self.io.write(&bytes);
        }
        n
    }
}

fn tok_ev(e: &'static str, t: &tok::Tok) -> Ev {
    match t.k {
        // CONNECT: n = keep alive, q = receive max, r = max packet size, s = topic alias max, id = level
        "CONNECT" => Ev::new(e)
            .k(t.k)
            .n(i64::from(t.ka))
            .q(i64::from(t.props.rm))
            .r(i64::from(t.props.mps))
            .s(i64::from(t.props.tam))
            .id(i64::from(t.level))
            .x(t.props.sei.to_string()),
        // CONNACK: r = reason, q = receive max, n = server keep alive (-1 none), s = topic alias
        // max, id = max qos (-1 none), x = max packet size
        "CONNACK" => Ev::new(e)
            .k(t.k)
            .r(i64::from(t.reason))
            .q(i64::from(t.props.rm))
            .n(i64::from(t.props.ska))
            .s(i64::from(t.props.tam))
            .id(i64::from(t.props.mq))
            .x(t.props.mps.to_string()),
        "DISCONNECT" | "AUTH" => Ev::new(e)
            .k(t.k)
            .r(i64::from(t.reason))
            .n(if t.props.len == 0 { -1 } else { t.props.sei }),
        _ => Ev::new(e)
            .k(t.k)
            .id(i64::from(t.id))
            .q(i64::from(t.qos))
            .r(i64::from(t.reason))
            .n(t.plen as i64)
            .s(i64::from(t.alias))
            .x(t.topic.clone()),
    }
}

const BIG: usize = 1 << 30;

pub async fn run_conn(ctx: Rc<Ctx>, cmds: Vec<Value>) {
    let role = ctx.cfg_s("role", "server");
    let ver = ctx.cfg_i("ver", 5) as u8;
    let (mcfg, iocfg) = mqtt_cfg(&ctx.cfg);
    let cfg: SharedCfg = SharedCfg::new("T").add(mcfg).add(iocfg).into();

    let (peer_io, ep_io) = IoTest::create();
    peer_io.remote_buffer_cap(BIG);
    ep_io.remote_buffer_cap(BIG);
    let mut peer = Peer {
        io: peer_io,
        tok_out: Tokenizer::new(ver),
        raw: ctx.cfg_i("raw", 0) != 0,
        owed: Vec::new(),
    };
    let mut tok_in = Tokenizer::new(ver);
    let mut peer_keep: Option<IoTest> = None;
    #[allow(unused_assignments, unused_mut)]
    let mut warm_keep: Option<IoTest> = None;

    // start the endpoint
    let c = ctx.clone();
    match (role.as_str(), ver) {
        ("server", 5) if ctx.cfg_i("router", 0) != 0 || ctx.cfg.get("warm").is_some() => {
            // session state = connection number (client id "w" = the warm-up connection)
            let (c1, c2, c3) = (ctx.clone(), ctx.clone(), ctx.clone());
            let mkres = |res: i64| {
                let c = ctx.clone();
                ntex_service::fn_factory_with_config(move |ses: v5::Session<i64>| {
                    let c = c.clone();
                    let conn = *ses;
                    async move {
                        Ok::<_, TestErr>(fn_service(move |p: v5::Publish| pub5r(c.clone(), conn, res, p)))
                    }
                })
            };
            let hs = move |h: v5::Handshake| {
                let c = c1.clone();
                async move {
                    if h.packet().client_id.as_str() == "w" {
                        Ok::<_, TestErr>(h.ack(1i64))
                    } else {
                        hs5g(c, h, 0i64).await
                    }
                }
            };
            let warm: Vec<Value> = ctx.cfg.get("warm").and_then(Value::as_array).cloned().unwrap_or_default();
            let io = IoBoxed::from(Io::new(ep_io, cfg.clone()));
            macro_rules! start {
                ($publish:expr) => {{
                    let server = v5::MqttServer::new(hs)
                        .protocol(move |m: v5::ProtocolMessage| proto5(c2.clone(), m))
                        .control(move |m: Control<TestErr>| ctl5(c3.clone(), m))
                        .publish($publish);
                    let svc = ServiceFactory::<IoBoxed, SharedCfg>::create(&server, cfg.clone()).await;
                    let svc = Pipeline::new(svc.expect("server create"));
                    if !warm.is_empty() {
                        // a concurrent connection through the same server instance
                        let (wpeer, wep) = IoTest::create();
                        wpeer.remote_buffer_cap(BIG);
                        wep.remote_buffer_cap(BIG);
                        let wio = IoBoxed::from(Io::new(wep, cfg.clone()));
                        let svc2 = svc.clone();
                        ntex_rt::spawn(async move {
                            let _ = svc2.call(wio).await;
                        });
                        wpeer.write(tok::build(5, &json!({"t": "connect", "cid": "w", "ka": 0})));
                        idle().await;
                        for p in &warm {
                            wpeer.write(tok::build(5, p));
                            idle().await;
                        }
                        let _ = wpeer.read_any();
                        warm_keep = Some(wpeer);
                    }
                    ntex_rt::spawn(async move {
                        let r = svc.call(io).await;
                        c.conn_done.set(true);
                        c.emit(Ev::new("conn_done").k(match &r {
                            Ok(()) => "ok".to_string(),
                            Err(e) => format!("err:{}", short(&format!("{e:?}"))),
                        }));
                    });
                }};
            }
            if ctx.cfg_i("router", 0) != 0 {
                start!(v5::Router::new(mkres(0)).resource("a", mkres(1)).resource("b", mkres(2)))
            } else {
                start!(mkres(-1))
            }
        }
        ("server", 5) if ctx.cfg_i("slow_shutdown", 0) != 0 => {
            let (c1, c2, c3, c4) = (ctx.clone(), ctx.clone(), ctx.clone(), ctx.clone());
            let server = v5::MqttServer::new(move |h: v5::Handshake| hs5(c1.clone(), h))
                .protocol(move |m: v5::ProtocolMessage| proto5(c2.clone(), m))
                .control(move |m: Control<TestErr>| ctl5(c3.clone(), m))
                .publish(ntex_service::fn_factory_with_config(move |_: v5::Session<()>| {
                    let c = c4.clone();
                    async move { Ok::<_, TestErr>(SlowPub5 { ctx: c }) }
                }));
            let svc = ServiceFactory::<IoBoxed, SharedCfg>::create(&server, cfg.clone()).await;
            let svc = Pipeline::new(svc.expect("server create"));
            let io = IoBoxed::from(Io::new(ep_io, cfg.clone()));
            ntex_rt::spawn(async move {
                let r = svc.call(io).await;
                c.conn_done.set(true);
                c.emit(Ev::new("conn_done").k(match &r {
                    Ok(()) => "ok".to_string(),
                    Err(e) => format!("err:{}", short(&format!("{e:?}"))),
                }));
            });
        }
        ("server", 5) if ctx.cfg_i("default_ctl", 0) != 0 => {
            // the crate's default protocol-control and connection-control services (the application installs none)
            let (c1, c4) = (ctx.clone(), ctx.clone());
            let server = v5::MqttServer::new(move |h: v5::Handshake| hs5(c1.clone(), h))
                .publish(move |p: v5::Publish| pub5(c4.clone(), p));
            let svc = ServiceFactory::<IoBoxed, SharedCfg>::create(&server, cfg.clone()).await;
            let svc = Pipeline::new(svc.expect("server create"));
            let io = IoBoxed::from(Io::new(ep_io, cfg.clone()));
            ntex_rt::spawn(async move {
                let r = svc.call(io).await;
                c.conn_done.set(true);
                c.emit(Ev::new("conn_done").k(match &r {
                    Ok(()) => "ok".to_string(),
                    Err(e) => format!("err:{}", short(&format!("{e:?}"))),
                }));
            });
        }
        ("server", 3) if ctx.cfg_i("default_ctl", 0) != 0 => {
            let (c1, c4) = (ctx.clone(), ctx.clone());
            let server = v3::MqttServer::new(move |h: v3::Handshake| hs3(c1.clone(), h))
                .publish(move |p: v3::Publish| pub3(c4.clone(), p));
            let svc = ServiceFactory::<IoBoxed, SharedCfg>::create(&server, cfg.clone()).await;
            let svc = Pipeline::new(svc.expect("server create"));
            let io = IoBoxed::from(Io::new(ep_io, cfg.clone()));
            ntex_rt::spawn(async move {
                let r = svc.call(io).await;
                c.conn_done.set(true);
                c.emit(Ev::new("conn_done").k(match &r {
                    Ok(()) => "ok".to_string(),
                    Err(e) => format!("err:{}", short(&format!("{e:?}"))),
                }));
            });
        }
        ("server", 5) => {
            let (c1, c2, c3, c4) = (ctx.clone(), ctx.clone(), ctx.clone(), ctx.clone());
            let server = v5::MqttServer::new(move |h: v5::Handshake| hs5(c1.clone(), h))
                .protocol(move |m: v5::ProtocolMessage| proto5(c2.clone(), m))
                .control(move |m: Control<TestErr>| ctl5(c3.clone(), m))
                .publish(move |p: v5::Publish| pub5(c4.clone(), p));
            let svc = ServiceFactory::<IoBoxed, SharedCfg>::create(&server, cfg.clone()).await;
            let svc = Pipeline::new(svc.expect("server create"));
            let io = IoBoxed::from(Io::new(ep_io, cfg.clone()));
            ntex_rt::spawn(async move {
                let r = svc.call(io).await;
                c.conn_done.set(true);
                c.emit(Ev::new("conn_done").k(match &r {
                    Ok(()) => "ok".to_string(),
                    Err(e) => format!("err:{}", short(&format!("{e:?}"))),
                }));
            });
        }
        ("server", 3) => {
            let (c1, c2, c3, c4) = (ctx.clone(), ctx.clone(), ctx.clone(), ctx.clone());
            let server = v3::MqttServer::new(move |h: v3::Handshake| hs3(c1.clone(), h))
                .protocol(move |m: v3::ProtocolMessage| proto3(c2.clone(), m))
                .control(move |m: Control<TestErr>| ctl3(c3.clone(), m))
                .publish(move |p: v3::Publish| pub3(c4.clone(), p));
            let svc = ServiceFactory::<IoBoxed, SharedCfg>::create(&server, cfg.clone()).await;
            let svc = Pipeline::new(svc.expect("server create"));
            let io = IoBoxed::from(Io::new(ep_io, cfg.clone()));
            ntex_rt::spawn(async move {
                let r = svc.call(io).await;
                c.conn_done.set(true);
                c.emit(Ev::new("conn_done").k(match &r {
                    Ok(()) => "ok".to_string(),
                    Err(e) => format!("err:{}", short(&format!("{e:?}"))),
                }));
            });
        }
        ("both", _) => {
            let (c1, c2, c3, c4) = (ctx.clone(), ctx.clone(), ctx.clone(), ctx.clone());
            let (d1, d2, d3, d4) = (ctx.clone(), ctx.clone(), ctx.clone(), ctx.clone());
            let server = ntex_mqtt::MqttServer::new()
                .v3(v3::MqttServer::new(move |h: v3::Handshake| {
                    c1.emit(Ev::new("route").n(3));
                    hs3(c1.clone(), h)
                })
                .protocol(move |m: v3::ProtocolMessage| proto3(c2.clone(), m))
                .control(move |m: Control<TestErr>| ctl3(c3.clone(), m))
                .publish(move |p: v3::Publish| pub3(c4.clone(), p)))
                .v5(v5::MqttServer::new(move |h: v5::Handshake| {
                    d1.emit(Ev::new("route").n(5));
                    hs5(d1.clone(), h)
                })
                .protocol(move |m: v5::ProtocolMessage| proto5(d2.clone(), m))
                .control(move |m: Control<TestErr>| ctl5(d3.clone(), m))
                .publish(move |p: v5::Publish| pub5(d4.clone(), p)));
            let svc = ServiceFactory::<IoBoxed, SharedCfg>::create(&server, cfg.clone()).await;
            let svc = Pipeline::new(svc.expect("server create"));
            let io = IoBoxed::from(Io::new(ep_io, cfg.clone()));
            ntex_rt::spawn(async move {
                let r = svc.call(io).await;
                c.conn_done.set(true);
                c.emit(Ev::new("conn_done").k(match &r {
                    Ok(()) => "ok".to_string(),
                    Err(e) => format!("err:{}", short(&format!("{e:?}"))),
                }));
            });
        }
        ("client", 5) => {
            let ep = RefCell::new(Some(ep_io));
            let cfg2 = cfg.clone();
            let connector = v5::client::MqttConnector::<String, _>::new().connector(fn_service(
                move |_: ntex_net::connect::Connect<String>| {
                    let io = ep.borrow_mut().take().expect("single connect");
                    let cfg = cfg2.clone();
                    async move { Ok::<_, ntex_net::connect::ConnectError>(Io::new(io, cfg)) }
                },
            ));
            let svc = Pipeline::new(connector.create(cfg.clone()).await.expect("connector"));
            let mut conn = v5::client::Connect::new("x".to_string());
            let ka = ctx.cfg_i("client_keep_alive", 0);
            conn = conn.keep_alive(Seconds(ka as u16));
            let rm = ctx.cfg_i("client_receive_max", 0);
            if rm > 0 {
                conn = conn.max_receive(rm as u16);
            }
            let tam = ctx.cfg_i("client_topic_alias_max", -1);
            if tam >= 0 {
                conn = conn.packet(|p| p.topic_alias_max = tam as u16);
            }
            let mps = ctx.cfg_i("client_max_packet_size", 0);
            if mps > 0 {
                conn = conn.max_packet_size(mps as u32);
            }
            ntex_rt::spawn(async move {
                match svc.call(conn).await {
                    Ok(client) => {
                        *c.sink.borrow_mut() = SinkH::V5(client.sink());
                        c.emit(Ev::new("connected"));
                        let (c2, c3) = (c.clone(), c.clone());
                        let r = if c.cfg_i("router", 0) != 0 {
                            let (r1, r2) = (c.clone(), c.clone());
                            client
                                .resource("a", fn_service(move |p: v5::Publish| pub5r(r1.clone(), 0, 1, p)))
                                .resource("b", fn_service(move |p: v5::Publish| pub5r(r2.clone(), 0, 2, p)))
                                .start(fn_service(move |m: v5::client::ProtocolMessage| cproto5(c2.clone(), m)))
                                .await
                        } else {
                            client
                                .start_with_control(
                                    fn_service(move |m: v5::client::ProtocolMessage| cproto5(c2.clone(), m)),
                                    fn_service(move |m: Control<TestErr>| ctl5(c3.clone(), m)),
                                )
                                .await
                        };
                        c.conn_done.set(true);
                        c.emit(Ev::new("conn_done").k(match &r {
                            Ok(()) => "ok".to_string(),
                            Err(e) => format!("err:{}", short(&format!("{e:?}"))),
                        }));
                    }
                    Err(e) => {
                        c.conn_done.set(true);
                        c.emit(Ev::new("conn_done").k(format!("connect_err:{}", short(&format!("{e:?}")))));
                    }
                }
            });
        }
        ("client", 3) => {
            let ep = RefCell::new(Some(ep_io));
            let cfg2 = cfg.clone();
            let connector = v3::client::MqttConnector::<String, _>::new().connector(fn_service(
                move |_: ntex_net::connect::Connect<String>| {
                    let io = ep.borrow_mut().take().expect("single connect");
                    let cfg = cfg2.clone();
                    async move { Ok::<_, ntex_net::connect::ConnectError>(Io::new(io, cfg)) }
                },
            ));
            let svc = Pipeline::new(connector.create(cfg.clone()).await.expect("connector"));
            let mut conn = v3::client::Connect::new("x".to_string());
            let ka = ctx.cfg_i("client_keep_alive", 0);
            conn = conn.keep_alive(Seconds(ka as u16));
            ntex_rt::spawn(async move {
                match svc.call(conn).await {
                    Ok(client) => {
                        *c.sink.borrow_mut() = SinkH::V3(client.sink());
                        c.emit(Ev::new("connected"));
                        let (c2, c3) = (c.clone(), c.clone());
                        let r = if c.cfg_i("router", 0) != 0 {
                            // publishes reach `v3::Publish` handlers through the client's topic router
                            let r1 = c.clone();
                            client
                                .resource("t", fn_service(move |p: v3::Publish| pub3(r1.clone(), p)))
                                .start(fn_service(move |m: v3::client::ProtocolMessage| cproto3(c2.clone(), m)))
                                .await
                        } else {
                            client
                                .start_with_control(
                                    fn_service(move |m: v3::client::ProtocolMessage| cproto3(c2.clone(), m)),
                                    fn_service(move |m: Control<TestErr>| ctl3(c3.clone(), m)),
                                )
                                .await
                        };
                        c.conn_done.set(true);
                        c.emit(Ev::new("conn_done").k(match &r {
                            Ok(()) => "ok".to_string(),
                            Err(e) => format!("err:{}", short(&format!("{e:?}"))),
                        }));
                    }
                    Err(e) => {
                        c.conn_done.set(true);
                        c.emit(Ev::new("conn_done").k(format!("connect_err:{}", short(&format!("{e:?}")))));
                    }
                }
            });
        }
        _ => panic!("unknown endpoint {role}/{ver}"),
    }

    let mut snd = Senders::default();
    let autopoll = ctx.cfg_i("autopoll", 0) != 0;

    idle().await;
    peer.drain(&ctx);

    for (ci, c) in cmds.iter().enumerate() {
        let cmd = c.get("c").and_then(Value::as_str).unwrap_or("");
        let s = c.get("s").and_then(Value::as_i64).unwrap_or(0);
        ctx.emit(Ev::new("cmd").k(cmd).n(ci as i64).s(s));
        match cmd {
            "in" => {
                // one or several packet descriptors written in one transport write, optional cuts
                let mut bytes = Vec::new();
                let mut descs: Vec<&Value> = Vec::new();
                if let Some(arr) = c.get("pkts").and_then(Value::as_array) {
                    descs.extend(arr.iter());
                } else if let Some(p) = c.get("p") {
                    descs.push(p);
                }
                for p in descs {
                    let b = tok::build(ver_of(p, ver), p);
                    match p.get("t").and_then(Value::as_str).unwrap_or("") {
                        // the `in` event of a PUBLISH is the moment its header is written, also
                        // when only a part of the declared payload goes with it
                        "publish" => {
                            let q = p.get("q").and_then(Value::as_i64).unwrap_or(0);
                            ctx.emit(
                                Ev::new("in")
                                    .k("PUBLISH")
                                    .id(if q > 0 { p.get("id").and_then(Value::as_i64).unwrap_or(1) } else { 0 })
                                    .q(q)
                                    .n(p.get("plen").and_then(Value::as_i64).unwrap_or(0))
                                    .s(p.get("alias").and_then(Value::as_i64).unwrap_or(0))
                                    .r(p.get("dup").and_then(Value::as_i64).unwrap_or(0) * 2
                                        + p.get("retain").and_then(Value::as_i64).unwrap_or(0))
                                    .x(p.get("topic").and_then(Value::as_str).unwrap_or("t")),
                            );
                            // what the handler has to see besides topic / flags / size: the fill byte of
                            // the payload and (MQTT 5) the properties, as one canonical string
                            let gs = |k: &str| p.get(k).and_then(Value::as_str).unwrap_or("").to_string();
                            let gn = |k: &str| p.get(k).and_then(Value::as_i64).unwrap_or(0);
                            let ups: Vec<String> = (0..gn("up")).map(|i| format!("k{i}=v{i}")).collect();
                            ctx.emit(
                                Ev::new("in_props")
                                    // s: Remaining Length of the frame (what the in-flight limiter charges)
                                    .s({
                                        let plen = gn("plen").max(0) as usize;
                                        let sent = p.get("send").and_then(Value::as_i64).map_or(plen, |v| v.max(0) as usize).min(plen);
                                        let mut hdr = 1;
                                        while hdr < b.len() && hdr < 5 && b[hdr] & 0x80 != 0 {
                                            hdr += 1;
                                        }
                                        (b.len() - sent + plen).saturating_sub(hdr + 1) as i64
                                    })
                                    .id(p.get("fill").and_then(Value::as_i64).unwrap_or(0x61))
                                    .q(gn("mei"))
                                    .r(gn("pfi"))
                                    .n(gn("up"))
                                    .x(format!("{}|{}|{}|{}", gs("ct"), gs("rt"), gs("cd"), ups.join(","))),
                            );
                        }
                        "payload" => ctx.emit(Ev::new("in_chunk").n(b.len() as i64)),
                        _ => {
                            for t in tok_in.feed(&b) {
                                peer.note_in(&t);
                                ctx.emit(tok_ev("in", &t));
                            }
                        }
                    }
                    bytes.extend(b);
                }
                let cuts: Vec<usize> = c
                    .get("cuts")
                    .and_then(Value::as_array)
                    .map(|a| a.iter().filter_map(Value::as_u64).map(|x| x as usize).collect())
                    .unwrap_or_default();
                if let Some(k) = c.get("upto").and_then(Value::as_u64) {
                    bytes.truncate(k as usize);
                }
                // "from": the first bytes were delivered by an earlier command (a frame sent in slices)
                if let Some(k) = c.get("from").and_then(Value::as_u64) {
                    bytes.drain(..(k as usize).min(bytes.len()));
                }
                if peer_keep.is_some() {
                    ctx.emit(Ev::new("in_dropped"));
                } else if cuts.is_empty() {
                    peer.io.write(&bytes);
                } else {
                    let mut at = 0;
                    for cut in cuts.iter().copied().chain(std::iter::once(bytes.len())) {
                        let cut = cut.min(bytes.len());
                        if cut > at {
                            peer.io.write(&bytes[at..cut]);
                            at = cut;
                            idle().await;
                            peer.drain(&ctx);
                        }
                    }
                }
            }
            "send" => match make_send(&ctx, &mut snd, c) {
                Ok(Some(f)) => {
                    ctx.emit(
                        Ev::new("send_call")
                            .s(s)
                            .k(c.get("k").and_then(Value::as_str).unwrap_or("q1"))
                            .n(c.get("plen").and_then(Value::as_i64).unwrap_or(0))
                            .id(c.get("id").and_then(Value::as_i64).unwrap_or(0)),
                    );
                    snd.slots.insert(
                        s,
                        Slot { fut: Some(f), flag: Arc::new(FlagWaker::default()), polled: false },
                    );
                }
                Ok(None) => {}
                Err(r) => {
                    ctx.emit(
                        Ev::new("send_call")
                            .s(s)
                            .k(c.get("k").and_then(Value::as_str).unwrap_or("q1"))
                            .n(c.get("plen").and_then(Value::as_i64).unwrap_or(0))
                            .id(c.get("id").and_then(Value::as_i64).unwrap_or(0)),
                    );
                    ctx.emit(Ev::new("send_done").s(s).k(r.k).id(r.id).r(r.r));
                }
            },
            "poll" => poll_slot(&ctx, &mut snd, s),
            "drop" => {
                if let Some(mut sl) = snd.slots.remove(&s) {
                    let was = sl.fut.take().is_some();
                    ctx.emit(Ev::new("send_drop").s(s).n(i64::from(was)));
                }
            }
            "release" => {
                let t = c.get("t").and_then(Value::as_i64).unwrap_or(s + 20);
                if let Some(r) = snd.receipts.remove(&s) {
                    ctx.emit(Ev::new("release").s(s).n(t));
                    let f: SFut = (r.0)();
                    snd.slots.insert(
                        t,
                        Slot { fut: Some(f), flag: Arc::new(FlagWaker::default()), polled: false },
                    );
                    // `release()` is an async fn: nothing happens until its first poll
                    poll_slot(&ctx, &mut snd, t);
                }
            }
            "rdrop" => {
                if let Some(r) = snd.receipts.remove(&s) {
                    ctx.emit(Ev::new("receipt_drop").s(s));
                    drop(r);
                }
            }
            "chunk" => {
                // StreamingPayload::send(n bytes) as its own future slot `t`
                let t = c.get("t").and_then(Value::as_i64).unwrap_or(s + 40);
                let n = c.get("n").and_then(Value::as_i64).unwrap_or(1) as usize;
                let data = Bytes::from(vec![c.get("fill").and_then(Value::as_i64).unwrap_or(0x63) as u8; n]);
                let f: Option<SFut> = snd.streams.get(&s).map(|st| st(data));
                if let Some(f) = f {
                    ctx.emit(Ev::new("send_call").s(t).k("chunk").n(n as i64).id(s));
                    snd.slots.insert(
                        t,
                        Slot { fut: Some(f), flag: Arc::new(FlagWaker::default()), polled: false },
                    );
                    poll_slot(&ctx, &mut snd, t);
                }
            }
            "sdrop" => {
                if snd.streams.remove(&s).is_some() {
                    ctx.emit(Ev::new("stream_drop").s(s));
                }
            }
            "complete" => {
                let mut h = c.get("h").and_then(Value::as_i64).unwrap_or(0);
                if let Some(j) = c.get("j").and_then(Value::as_i64) {
                    let mut hs: Vec<i64> = ctx.gates.borrow().keys().copied().collect();
                    hs.sort_unstable();
                    // j = 99: the newest gate
                    h = if j == 99 { hs.last().copied().unwrap_or(0) } else { hs.get(j as usize).copied().unwrap_or(0) };
                }
                let tx = ctx.gates.borrow_mut().remove(&h);
                if let Some(tx) = tx {
                    let _ = tx.send(Outcome::from(c));
                } else {
                    ctx.emit(Ev::new("complete_miss").s(h));
                }
            }
            "arm" => {
                for _ in 0..c.get("count").and_then(Value::as_i64).unwrap_or(1) {
                    if c.get("ctl").and_then(Value::as_i64).unwrap_or(0) != 0 {
                        ctx.armed_ctl.borrow_mut().push_back(Outcome::from(c));
                    } else {
                        ctx.armed.borrow_mut().push_back(Outcome::from(c));
                    }
                }
            }
            "gate" => {
                let on = c.get("on").and_then(Value::as_i64).unwrap_or(1) != 0;
                match c.get("what").and_then(Value::as_str).unwrap_or("pub") {
                    "pub" => ctx.gate_pub.set(on),
                    "proto" => ctx.gate_proto.set(on),
                    "stop" => ctx.gate_stop.set(on),
                    "hs" => ctx.gate_hs.set(on),
                    _ => {}
                }
            }
            "cap" => {
                // bytes the endpoint may still write to the transport (0 = stalled)
                let n = c.get("n").and_then(Value::as_i64).unwrap_or(BIG as i64) as usize;
                // (n: what the transport still takes; -1 = everything again)
                ctx.emit(Ev::new("cap").n(c.get("n").and_then(Value::as_i64).unwrap_or(-1)));
                peer.io.remote_buffer_cap(n);
            }
            "peer_close" => {
                if peer_keep.is_none() {
                    let keep = peer.io.clone();
                    let old = std::mem::replace(&mut peer.io, keep);
                    drop(old);
                    peer_keep = Some(peer.io.clone());
                    ctx.emit(Ev::new("peer_close"));
                }
            }
            "io_err" => {
                let dir = c.get("dir").and_then(Value::as_str).unwrap_or("read");
                let e = std::io::Error::new(std::io::ErrorKind::ConnectionReset, "injected");
                if dir == "read" {
                    peer.io.read_error(e);
                } else {
                    peer.io.write_error(e);
                }
                ctx.emit(Ev::new("io_err").k(dir));
            }
            "close" => {
                let variant = c.get("k").and_then(Value::as_str).unwrap_or("close");
                ctx.emit(Ev::new("close").k(variant));
                let sink = ctx.sink.borrow();
                match &*sink {
                    SinkH::V3(sk) => match variant {
                        "force" => sk.force_close(),
                        _ => sk.close(),
                    },
                    SinkH::V5(sk) => match variant {
                        "force" => sk.force_close(),
                        "reason" => sk.close_with_reason(v5::codec::Disconnect::new(disc_reason(
                            c.get("code").and_then(Value::as_i64).unwrap_or(0x8b),
                        ))),
                        "no_reason" => sk.close_with_no_reason(),
                        _ => sk.close(),
                    },
                    SinkH::None => {}
                }
            }
            "ack_cb" => {
                // the application registers the acknowledgement callback that non-blocking QoS 1 sends need
                let sink = ctx.sink.borrow();
                match &*sink {
                    SinkH::V3(sk) => {
                        let cx = ctx.clone();
                        sk.publish_ack_cb(move |id, disc| cx.emit(Ev::new("ack_cb").id(i64::from(id.get())).r(i64::from(disc))));
                    }
                    SinkH::V5(sk) => {
                        let cx = ctx.clone();
                        sk.publish_ack_cb(move |ack, disc| {
                            cx.emit(Ev::new("ack_cb").id(i64::from(ack.packet_id.get())).r(i64::from(disc)).q(i64::from(u8::from(ack.reason_code))))
                        });
                    }
                    SinkH::None => {}
                }
            }
            #[cfg(ntex_mqtt_verif)]
            "wrb" => {
                let on = c.get("on").and_then(Value::as_i64).unwrap_or(1) != 0;
                ctx.emit(Ev::new("ctl").k(if on { "wrb_on" } else { "wrb_off" }).s(-1));
                let sink = ctx.sink.borrow();
                match &*sink {
                    SinkH::V3(sk) => sk.verif_wr_backpressure(on),
                    SinkH::V5(sk) => sk.verif_wr_backpressure(on),
                    SinkH::None => {}
                }
            }
            #[cfg(ntex_mqtt_verif)]
            "next_id" => {
                let n = c.get("n").and_then(Value::as_i64).unwrap_or(0) as u16;
                let sink = ctx.sink.borrow();
                match &*sink {
                    SinkH::V3(sk) => sk.verif_set_next_id(n),
                    SinkH::V5(sk) => sk.verif_set_next_id(n),
                    SinkH::None => {}
                }
            }
            "ack" => {
                // orderly peer: answer the next n owed packets correctly, in one write
                let n = c.get("n").and_then(Value::as_i64).unwrap_or(1) as usize;
                let rc = c.get("rc").and_then(Value::as_i64).unwrap_or(0);
                if peer_keep.is_none() {
                    peer.ack_owed_rc(&ctx, &mut tok_in, ver, n, rc);
                }
            }
            "settle" => {
                // poll every runnable sender, let the orderly peer answer everything, repeat
                let release = c.get("release").and_then(Value::as_i64).unwrap_or(1) != 0;
                let mut rounds = 0;
                for _ in 0..64 {
                    let mut acted = false;
                    let mut keys: Vec<i64> = snd
                        .slots
                        .iter()
                        .filter(|(_, sl)| {
                            sl.fut.is_some()
                                && (!sl.polled || sl.flag.0.load(std::sync::atomic::Ordering::SeqCst))
                        })
                        .map(|(k, _)| *k)
                        .collect();
                    keys.sort_unstable();
                    for k in keys {
                        poll_slot(&ctx, &mut snd, k);
                        acted = true;
                    }
                    idle().await;
                    peer.drain(&ctx);
                    if release {
                        let mut rk: Vec<i64> = snd.receipts.keys().copied().collect();
                        rk.sort_unstable();
                        for k in rk {
                            let r = snd.receipts.remove(&k).unwrap();
                            let t = k + 20;
                            ctx.emit(Ev::new("release").s(k).n(t));
                            snd.slots.insert(
                                t,
                                Slot {
                                    fut: Some((r.0)()),
                                    flag: Arc::new(FlagWaker::default()),
                                    polled: false,
                                },
                            );
                            poll_slot(&ctx, &mut snd, t);
                            acted = true;
                        }
                        idle().await;
                        peer.drain(&ctx);
                    }
                    if peer_keep.is_none() && !peer.owed.is_empty() {
                        let n = peer.owed.len();
                        peer.ack_owed(&ctx, &mut tok_in, ver, n);
                        acted = true;
                        idle().await;
                        peer.drain(&ctx);
                    }
                    if !acted {
                        break;
                    }
                    rounds += 1;
                }
                let mut pending: i64 = 0;
                for (k, sl) in &snd.slots {
                    if sl.fut.is_some() && (0..60).contains(k) {
                        pending |= 1 << k;
                    }
                }
                ctx.emit(Ev::new("settled").s(pending).n(rounds).r(snd.receipts.len() as i64));
            }
            "pollall" => {
                // poll every sender future the harness still holds until none makes progress
                for _ in 0..32 {
                    let mut keys: Vec<i64> =
                        snd.slots.iter().filter(|(_, sl)| sl.fut.is_some()).map(|(k, _)| *k).collect();
                    keys.sort_unstable();
                    let before = keys.len();
                    for k in keys {
                        poll_slot(&ctx, &mut snd, k);
                    }
                    idle().await;
                    peer.drain(&ctx);
                    let after = snd.slots.values().filter(|sl| sl.fut.is_some()).count();
                    if after == before || after == 0 {
                        break;
                    }
                }
                let mut pending: i64 = 0;
                for (k, sl) in &snd.slots {
                    if sl.fut.is_some() && (0..60).contains(k) {
                        pending |= 1 << k;
                    }
                }
                ctx.emit(Ev::new("pollall_done").s(pending).r(snd.receipts.len() as i64));
            }
            "drain" => {
                // open every gate (outcome ok) until no gate is left; then report what the
                // endpoint has left unread
                let mut rounds = 0;
                for _ in 0..256 {
                    let mut hs: Vec<i64> = ctx.gates.borrow().keys().copied().collect();
                    if hs.is_empty() {
                        break;
                    }
                    hs.sort_unstable();
                    for h in hs {
                        let tx = ctx.gates.borrow_mut().remove(&h);
                        if let Some(tx) = tx {
                            let _ = tx.send(Outcome {
                                res: "ok".into(),
                                read: c.get("read").and_then(Value::as_str).unwrap_or("").to_string(),
                                code: 0,
                                rs: -1,
                                up: 0,
                            });
                        }
                        idle().await;
                        peer.drain(&ctx);
                    }
                    rounds += 1;
                }
                let unread = if peer_keep.is_none() { peer.io.remote_buffer(|b| b.len()) } else { 0 };
                let open = ctx.gates.borrow().len();
                ctx.emit(Ev::new("final").s(open as i64).n(unread as i64).r(rounds));
            }
            "sleep" => {
                // real time passes (C20 only): the runtime parks until the timer thread wakes it
                let ms = c.get("ms").and_then(Value::as_i64).unwrap_or(1000) as u64;
                ntex_util::time::sleep(ntex_util::time::Millis(ms as u32)).await;
                peer.drain(&ctx);
                ctx.emit(Ev::new("tick").n(ctx.elapsed_ms()));
            }
            "mark" => {
                // scenario marker for the monitors (what the generator injected)
                let e: &'static str = match c.get("e").and_then(Value::as_str).unwrap_or("") {
                    "expect_disc" => "expect_disc",
                    "app_disc" => "app_disc",
                    "cause" => "cause",
                    "expect_filters" => "expect_filters",
                    _ => "mark",
                };
                ctx.emit(
                    Ev::new(e)
                        .n(c.get("n").and_then(Value::as_i64).unwrap_or(0))
                        .r(c.get("r").and_then(Value::as_i64).unwrap_or(0))
                        .k(c.get("k").and_then(Value::as_str).unwrap_or("")),
                );
            }
            "idle" | "" => {}
            other => panic!("unknown command {other}"),
        }
        // run the connection's tasks to quiescence
        idle().await;
        peer.drain(&ctx);
        if autopoll {
            loop {
                let woken: Vec<i64> = {
                    let mut v: Vec<i64> = snd
                        .slots
                        .iter()
                        .filter(|(_, sl)| sl.fut.is_some() && (!sl.polled || sl.flag.0.load(std::sync::atomic::Ordering::SeqCst)))
                        .map(|(k, _)| *k)
                        .collect();
                    v.sort_unstable();
                    v
                };
                if woken.is_empty() {
                    break;
                }
                for s in woken {
                    poll_slot(&ctx, &mut snd, s);
                }
                idle().await;
                peer.drain(&ctx);
            }
        }
        // a busy-looping connection task was cut short by the driver
        let spins = crate::rt::SPINS.with(|c| c.replace(0));
        if spins > 0 {
            ctx.emit(Ev::new("spin").n(spins as i64));
        }
        // quiescence snapshot
        let (credit, open, ready) = {
            let sk = ctx.sink.borrow();
            (sk.credit(), sk.is_open(), sk.is_ready())
        };
        let mut woken: i64 = 0;
        let mut pending: i64 = 0;
        for (k, sl) in &snd.slots {
            if sl.fut.is_some() && (0..30).contains(k) {
                pending |= 1 << k;
                if sl.flag.0.load(std::sync::atomic::Ordering::SeqCst) {
                    woken |= 1 << k;
                }
            }
        }
        ctx.emit(
            Ev::new("quiet")
                .n(credit)
                .r(i64::from(open))
                .q(i64::from(ready))
                .s(pending)
                .id(woken)
                .k(if ctx.conn_done.get() { "done" } else { "alive" }),
        );
        if ctx.conn_done.get() && c.get("c").and_then(Value::as_str) == Some("__never") {
            break;
        }
    }
    // end of run: drop everything the harness still holds, let the connection finish
    let left = peer.tok_out.partial();
    if left > 0 {
        ctx.emit(Ev::new("out_partial").n(left as i64));
    }
    drop(snd);
    idle().await;
    peer.drain(&ctx);
    ctx.emit(Ev::new("end").k(if ctx.conn_done.get() { "done" } else { "alive" }));
    drop(warm_keep);
}

fn ver_of(p: &Value, d: u8) -> u8 {
    p.get("ver").and_then(Value::as_u64).map_or(d, |v| v as u8)
}

fn short(s: &str) -> String {
    s.chars().take(80).collect()
}

fn poll_slot(ctx: &Rc<Ctx>, snd: &mut Senders, s: i64) {
    let Some(sl) = snd.slots.get_mut(&s) else {
        ctx.emit(Ev::new("send_poll").s(s).k("none"));
        return;
    };
    let Some(fut) = sl.fut.as_mut() else {
        ctx.emit(Ev::new("send_poll").s(s).k("finished"));
        return;
    };
    let woken = sl.flag.take();
    sl.polled = true;
    let flag = sl.flag.clone();
    let r = catch_unwind(AssertUnwindSafe(|| poll_once(fut, &flag)));
    match r {
        Ok(Poll::Pending) => {
            ctx.emit(Ev::new("send_poll").s(s).k("pending").r(i64::from(woken)));
        }
        Ok(Poll::Ready(res)) => {
            sl.fut = None;
            ctx.emit(Ev::new("send_poll").s(s).k("ready").r(i64::from(woken)));
            ctx.emit(Ev::new("send_done").s(s).k(res.k.clone()).id(res.id).r(res.r));
            if let Some(rc) = res.receipt {
                snd.receipts.insert(s, rc);
            }
        }
        Err(p) => {
            sl.fut = None;
            let msg = p
                .downcast_ref::<String>()
                .cloned()
                .or_else(|| p.downcast_ref::<&str>().map(|s| (*s).to_string()))
                .unwrap_or_default();
            ctx.emit(Ev::new("panic").k("sender").s(s).x(msg));
        }
    }
}

pub fn new_ctx(cfg: Value) -> Rc<Ctx> {
    let gi = |k: &str, d: i64| cfg.get(k).and_then(Value::as_i64).unwrap_or(d);
    Rc::new(Ctx {
        t0: std::time::Instant::now(),
        gates: RefCell::new(HashMap::new()),
        armed: RefCell::new(VecDeque::new()),
        armed_ctl: RefCell::new(VecDeque::new()),
        next_h: Cell::new(0),
        sink: RefCell::new(SinkH::None),
        gate_stop: Cell::new(gi("gate_stop", 0) != 0),
        gate_hs: Cell::new(gi("gate_hs", 0) != 0),
        gate_proto: Cell::new(gi("gate_proto", 0) != 0),
        gate_pub: Cell::new(gi("gate_pub", 1) != 0),
        conn_done: Cell::new(false),
        cfg,
    })
}
