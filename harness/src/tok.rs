//! Independent MQTT frame tokeniser and a minimal packet writer for the *peer* side of the
//! harness.  Nothing here uses the crate under test: it is written from the OASIS layout
//! (type nibble, Remaining Length, packet identifier, reason code) so that what the monitors
//! see on the wire does not depend on ntex-mqtt's own codec.
use serde_json::Value;

pub fn type_name(b: u8) -> &'static str {
    match b >> 4 {
        1 => "CONNECT",
        2 => "CONNACK",
        3 => "PUBLISH",
        4 => "PUBACK",
        5 => "PUBREC",
        6 => "PUBREL",
        7 => "PUBCOMP",
        8 => "SUBSCRIBE",
        9 => "SUBACK",
        10 => "UNSUBSCRIBE",
        11 => "UNSUBACK",
        12 => "PINGREQ",
        13 => "PINGRESP",
        14 => "DISCONNECT",
        15 => "AUTH",
        _ => "RESERVED",
    }
}

#[derive(Debug, Clone, Default)]
pub struct Tok {
    pub k: &'static str,
    pub id: u16,
    pub qos: u8,
    pub dup: bool,
    pub retain: bool,
    pub reason: u8,
    pub len: usize,  // whole frame length
    pub plen: usize, // payload length (PUBLISH) / number of codes (SUBACK) / filters
    pub topic: String,
    pub alias: u16,
    pub flags: u8,
    pub has_reason_string: bool,
    pub user_props: usize,
    pub props: Props,
    pub ka: u16,
    pub level: u8,
}

/// Decode a variable byte integer; Ok(Some((value, nbytes))), Ok(None) = need more, Err = malformed
pub fn varint(b: &[u8]) -> Result<Option<(usize, usize)>, ()> {
    let mut v = 0usize;
    let mut shift = 0;
    for (i, &x) in b.iter().enumerate() {
        if i >= 4 {
            return Err(());
        }
        v |= ((x & 0x7f) as usize) << shift;
        if x & 0x80 == 0 {
            return Ok(Some((v, i + 1)));
        }
        shift += 7;
    }
    if b.len() >= 4 { Err(()) } else { Ok(None) }
}

pub fn put_varint(out: &mut Vec<u8>, mut v: usize) {
    loop {
        let mut b = (v % 128) as u8;
        v /= 128;
        if v > 0 {
            b |= 0x80;
        }
        out.push(b);
        if v == 0 {
            break;
        }
    }
}

fn u16at(b: &[u8], i: usize) -> u16 {
    if i + 1 < b.len() { ((b[i] as u16) << 8) | b[i + 1] as u16 } else { 0 }
}

#[derive(Debug, Clone, Default)]
pub struct Props {
    pub len: usize,
    pub alias: u16,
    pub rs: bool,
    pub up: usize,
    pub rm: u16,
    pub mps: u32,
    pub tam: u16,
    pub ska: i32,
    pub mq: i32,
    pub sei: i64,
    pub subid: u32,
}

/// Scan v5 properties in `b` (which starts with the property-length varint).
fn scan_props(b: &[u8]) -> Props {
    let mut p = Props { ska: -1, mq: -1, sei: -1, ..Props::default() };
    let Ok(Some((plen, n))) = varint(b) else {
        p.len = b.len();
        return p;
    };
    p.len = n + plen;
    let end = (n + plen).min(b.len());
    let mut i = n;
    let u32at = |i: usize| -> u32 { (u32::from(u16at(b, i)) << 16) | u32::from(u16at(b, i + 2)) };
    while i < end {
        let id = b[i];
        i += 1;
        match id {
            0x24 => {
                p.mq = i32::from(*b.get(i).unwrap_or(&0));
                i += 1;
            }
            0x01 | 0x17 | 0x19 | 0x25 | 0x28 | 0x29 | 0x2a => i += 1,
            0x13 => {
                p.ska = i32::from(u16at(b, i));
                i += 2;
            }
            0x21 => {
                p.rm = u16at(b, i);
                i += 2;
            }
            0x22 => {
                p.tam = u16at(b, i);
                i += 2;
            }
            0x23 => {
                p.alias = u16at(b, i);
                i += 2;
            }
            0x11 => {
                p.sei = i64::from(u32at(i));
                i += 4;
            }
            0x27 => {
                p.mps = u32at(i);
                i += 4;
            }
            0x02 | 0x18 => i += 4,
            0x0b => {
                if let Ok(Some((v, k))) = varint(&b[i.min(b.len())..]) {
                    p.subid = v as u32;
                    i += k;
                } else {
                    break;
                }
            }
            0x1f => {
                p.rs = true;
                i += 2 + u16at(b, i) as usize;
            }
            0x03 | 0x08 | 0x09 | 0x12 | 0x15 | 0x16 | 0x1a | 0x1c => {
                i += 2 + u16at(b, i) as usize;
            }
            0x26 => {
                p.up += 1;
                i += 2 + u16at(b, i) as usize;
                i += 2 + u16at(b, i) as usize;
            }
            _ => break,
        }
    }
    p
}

/// Stateful tokeniser over a byte stream.
#[derive(Default)]
pub struct Tokenizer {
    pub ver: u8,
    pub buf: Vec<u8>,
    pub bad: bool,
}

impl Tokenizer {
    pub fn new(ver: u8) -> Self {
        Tokenizer { ver, buf: Vec::new(), bad: false }
    }

    pub fn feed(&mut self, data: &[u8]) -> Vec<Tok> {
        self.buf.extend_from_slice(data);
        let mut out = Vec::new();
        loop {
            if self.bad || self.buf.len() < 2 {
                break;
            }
            let (rl, n) = match varint(&self.buf[1..]) {
                Ok(Some(x)) => x,
                Ok(None) => break,
                Err(()) => {
                    self.bad = true;
                    break;
                }
            };
            let total = 1 + n + rl;
            if self.buf.len() < total {
                break;
            }
            let frame: Vec<u8> = self.buf.drain(..total).collect();
            out.push(self.token(&frame, 1 + n));
        }
        out
    }

    /// (frame header known?, bytes still owed to complete the current partial frame)
    pub fn partial(&self) -> usize {
        self.buf.len()
    }

    fn token(&self, f: &[u8], hdr: usize) -> Tok {
        let b0 = f[0];
        let body = &f[hdr..];
        let v5 = self.ver == 5;
        let mut t = Tok { k: type_name(b0), len: f.len(), flags: b0 & 0x0f, ..Tok::default() };
        match b0 >> 4 {
            3 => {
                t.dup = b0 & 8 != 0;
                t.retain = b0 & 1 != 0;
                t.qos = (b0 >> 1) & 3;
                let tl = u16at(body, 0) as usize;
                let mut i = 2 + tl;
                if i <= body.len() {
                    t.topic = String::from_utf8_lossy(&body[2..i]).into_owned();
                }
                if t.qos > 0 {
                    t.id = u16at(body, i);
                    i += 2;
                }
                if v5 && i <= body.len() {
                    let p = scan_props(&body[i..]);
                    t.alias = p.alias;
                    t.user_props = p.up;
                    i += p.len;
                    t.props = p;
                }
                t.plen = body.len().saturating_sub(i);
            }
            4..=7 => {
                t.id = u16at(body, 0);
                if v5 && body.len() > 2 {
                    t.reason = body[2];
                    if body.len() > 3 {
                        let p = scan_props(&body[3..]);
                        t.has_reason_string = p.rs;
                        t.user_props = p.up;
                    }
                }
            }
            8 | 10 => {
                t.id = u16at(body, 0);
            }
            9 | 11 => {
                t.id = u16at(body, 0);
                let mut i = 2;
                if v5 && i <= body.len() {
                    let p = scan_props(&body[i..]);
                    t.has_reason_string = p.rs;
                    t.user_props = p.up;
                    i += p.len;
                }
                t.plen = body.len().saturating_sub(i);
                if i < body.len() {
                    t.reason = body[i];
                }
            }
            1 => {
                let nl = u16at(body, 0) as usize;
                let i = 2 + nl;
                if i + 4 <= body.len() {
                    t.level = body[i];
                    t.flags = body[i + 1];
                    t.ka = u16at(body, i + 2);
                    if t.level == 5 {
                        t.props = scan_props(&body[i + 4..]);
                    }
                }
            }
            2 => {
                if body.len() >= 2 {
                    t.flags = body[0];
                    t.reason = body[1];
                }
                if v5 && body.len() > 2 {
                    let p = scan_props(&body[2..]);
                    t.has_reason_string = p.rs;
                    t.user_props = p.up;
                    t.props = p;
                }
            }
            14 | 15 => {
                if v5 && !body.is_empty() {
                    t.reason = body[0];
                    if body.len() > 1 {
                        let p = scan_props(&body[1..]);
                        t.has_reason_string = p.rs;
                        t.user_props = p.up;
                        t.props = p;
                    }
                }
            }
            _ => {}
        }
        t
    }
}

// ---------------------------------------------------------------------------------------------
// peer-side packet writer (descriptor -> bytes)

fn put_str(out: &mut Vec<u8>, s: &str) {
    out.push((s.len() >> 8) as u8);
    out.push(s.len() as u8);
    out.extend_from_slice(s.as_bytes());
}

fn frame(b0: u8, body: Vec<u8>, extra_len: usize) -> Vec<u8> {
    let mut out = vec![b0];
    put_varint(&mut out, body.len() + extra_len);
    out.extend_from_slice(&body);
    out
}

fn gi(v: &Value, k: &str, d: i64) -> i64 {
    v.get(k).and_then(Value::as_i64).unwrap_or(d)
}
fn gs<'a>(v: &'a Value, k: &str, d: &'a str) -> &'a str {
    v.get(k).and_then(Value::as_str).unwrap_or(d)
}

fn props_from(v: &Value) -> Vec<u8> {
    // generic v5 property list from {"rm":..,"mps":..,"tam":..,"sei":..,"rpi":..,"ska":..,"mq":..,
    // "ra":..,"alias":..,"rs":"..","up":n,"subid":n}
    let mut p = Vec::new();
    if let Some(x) = v.get("sei").and_then(Value::as_i64) {
        p.push(0x11);
        p.extend_from_slice(&(x as u32).to_be_bytes());
    }
    if let Some(x) = v.get("rm").and_then(Value::as_i64) {
        p.push(0x21);
        p.extend_from_slice(&(x as u16).to_be_bytes());
    }
    if let Some(x) = v.get("mps").and_then(Value::as_i64) {
        p.push(0x27);
        p.extend_from_slice(&(x as u32).to_be_bytes());
    }
    if let Some(x) = v.get("tam").and_then(Value::as_i64) {
        p.push(0x22);
        p.extend_from_slice(&(x as u16).to_be_bytes());
    }
    if let Some(x) = v.get("rpi").and_then(Value::as_i64) {
        p.push(0x17);
        p.push(x as u8);
    }
    if let Some(x) = v.get("ska").and_then(Value::as_i64) {
        p.push(0x13);
        p.extend_from_slice(&(x as u16).to_be_bytes());
    }
    if let Some(x) = v.get("mq").and_then(Value::as_i64) {
        p.push(0x24);
        p.push(x as u8);
    }
    if let Some(x) = v.get("ra").and_then(Value::as_i64) {
        p.push(0x25);
        p.push(x as u8);
    }
    if let Some(x) = v.get("alias").and_then(Value::as_i64) {
        p.push(0x23);
        p.extend_from_slice(&(x as u16).to_be_bytes());
    }
    if let Some(x) = v.get("subid").and_then(Value::as_i64) {
        p.push(0x0b);
        put_varint(&mut p, x as usize);
    }
    if let Some(x) = v.get("rs").and_then(Value::as_str) {
        p.push(0x1f);
        put_str(&mut p, x);
    }
    // publish properties the handler must see unchanged
    if let Some(x) = v.get("pfi").and_then(Value::as_i64) {
        p.push(0x01);
        p.push(x as u8);
    }
    if let Some(x) = v.get("mei").and_then(Value::as_i64) {
        p.push(0x02);
        p.extend_from_slice(&(x as u32).to_be_bytes());
    }
    if let Some(x) = v.get("ct").and_then(Value::as_str) {
        p.push(0x03);
        put_str(&mut p, x);
    }
    if let Some(x) = v.get("rt").and_then(Value::as_str) {
        p.push(0x08);
        put_str(&mut p, x);
    }
    if let Some(x) = v.get("cd").and_then(Value::as_str) {
        p.push(0x09);
        put_str(&mut p, x);
    }
    for i in 0..gi(v, "up", 0) {
        p.push(0x26);
        put_str(&mut p, &format!("k{i}"));
        put_str(&mut p, &format!("v{i}"));
    }
    let mut out = Vec::new();
    put_varint(&mut out, p.len());
    out.extend_from_slice(&p);
    out
}

/// Build the bytes of a packet from its JSON descriptor.  For PUBLISH, `plen` payload bytes are
/// declared; `send` (default = plen) of them are included in the returned bytes (the rest is
/// delivered later with a `payload` descriptor).
pub fn build(ver: u8, v: &Value) -> Vec<u8> {
    let v5 = ver == 5;
    let t = gs(v, "t", "");
    match t {
        "raw" => hex_decode(gs(v, "hex", "")),
        "payload" => {
            let n = gi(v, "n", 0) as usize;
            if gi(v, "pat", 0) == 1 {
                // position pattern: byte at payload offset i is i % 251
                let off = gi(v, "off", 0) as usize;
                (off..off + n).map(|i| (i % 251) as u8).collect()
            } else {
                vec![gi(v, "fill", 0x61) as u8; n]
            }
        }
        "connect" => {
            let level = gi(v, "level", if v5 { 5 } else { 4 }) as u8;
            let mut b = Vec::new();
            put_str(&mut b, gs(v, "proto", "MQTT"));
            b.push(level);
            let mut flags = gi(v, "cflags", -1);
            if flags < 0 {
                flags = if gi(v, "clean", 1) != 0 { 2 } else { 0 };
            }
            b.push(flags as u8);
            b.extend_from_slice(&(gi(v, "ka", 0) as u16).to_be_bytes());
            if level == 5 {
                b.extend_from_slice(&props_from(v));
            }
            put_str(&mut b, gs(v, "cid", "c"));
            frame(0x10 | (gi(v, "hflags", 0) as u8), b, 0)
        }
        "connack" => {
            let mut b = vec![gi(v, "sp", 0) as u8, gi(v, "rc", 0) as u8];
            if v5 {
                b.extend_from_slice(&props_from(v));
            }
            frame(0x20, b, 0)
        }
        "publish" => {
            let q = gi(v, "q", 0) as u8;
            let b0 = 0x30
                | (q << 1)
                | if gi(v, "dup", 0) != 0 { 8 } else { 0 }
                | if gi(v, "retain", 0) != 0 { 1 } else { 0 };
            let mut b = Vec::new();
            put_str(&mut b, gs(v, "topic", "t"));
            if q > 0 {
                b.extend_from_slice(&(gi(v, "id", 1) as u16).to_be_bytes());
            }
            if v5 {
                b.extend_from_slice(&props_from(v));
            }
            let plen = gi(v, "plen", 0) as usize;
            let send = gi(v, "send", plen as i64) as usize;
            let fill = gi(v, "fill", 0x61) as u8;
            let mut out = frame(b0, b, plen);
            if gi(v, "pat", 0) == 1 {
                out.extend((0..send.min(plen)).map(|i| (i % 251) as u8));
            } else {
                out.extend(std::iter::repeat_n(fill, send.min(plen)));
            }
            out
        }
        "puback" | "pubrec" | "pubrel" | "pubcomp" => {
            let b0 = match t {
                "puback" => 0x40,
                "pubrec" => 0x50,
                "pubrel" => 0x62,
                _ => 0x70,
            };
            let mut b = (gi(v, "id", 1) as u16).to_be_bytes().to_vec();
            if v5 {
                let rc = gi(v, "rc", 0);
                let has_props = v.get("rs").is_some() || gi(v, "up", 0) > 0;
                if rc != 0 || has_props || gi(v, "long", 0) != 0 {
                    b.push(rc as u8);
                    if has_props || gi(v, "long", 0) != 0 {
                        b.extend_from_slice(&props_from(v));
                    }
                }
            }
            frame(b0, b, 0)
        }
        "subscribe" => {
            let mut b = (gi(v, "id", 1) as u16).to_be_bytes().to_vec();
            if v5 {
                b.extend_from_slice(&props_from(v));
            }
            let empty = vec![];
            let fs = v.get("filters").and_then(Value::as_array).unwrap_or(&empty);
            if fs.is_empty() {
                put_str(&mut b, "a/b");
                b.push(gi(v, "opts", 1) as u8);
            }
            for f in fs {
                put_str(&mut b, f.as_str().unwrap_or("a"));
                b.push(gi(v, "opts", 1) as u8);
            }
            frame(0x82, b, 0)
        }
        "unsubscribe" => {
            let mut b = (gi(v, "id", 1) as u16).to_be_bytes().to_vec();
            if v5 {
                b.extend_from_slice(&props_from(v));
            }
            let empty = vec![];
            let fs = v.get("filters").and_then(Value::as_array).unwrap_or(&empty);
            if fs.is_empty() {
                put_str(&mut b, "a/b");
            }
            for f in fs {
                put_str(&mut b, f.as_str().unwrap_or("a"));
            }
            frame(0xa2, b, 0)
        }
        "suback" | "unsuback" => {
            let mut b = (gi(v, "id", 1) as u16).to_be_bytes().to_vec();
            if v5 {
                b.extend_from_slice(&props_from(v));
            }
            let n = gi(v, "codes", 1);
            if t == "suback" || v5 {
                for _ in 0..n {
                    b.push(gi(v, "rc", 0) as u8);
                }
            }
            frame(if t == "suback" { 0x90 } else { 0xb0 }, b, 0)
        }
        "pingreq" => vec![0xc0, 0],
        "pingresp" => vec![0xd0, 0],
        "disconnect" => {
            let mut b = Vec::new();
            if v5 {
                let rc = gi(v, "rc", 0);
                let has_props = v.get("sei").is_some() || v.get("rs").is_some();
                if rc != 0 || has_props {
                    b.push(rc as u8);
                    if has_props {
                        b.extend_from_slice(&props_from(v));
                    }
                }
            }
            frame(0xe0, b, 0)
        }
        "auth" => {
            let mut b = Vec::new();
            let rc = gi(v, "rc", 0);
            if rc != 0 || v.get("method").is_some() {
                b.push(rc as u8);
                let mut p = Vec::new();
                if let Some(m) = v.get("method").and_then(Value::as_str) {
                    p.push(0x15);
                    put_str(&mut p, m);
                }
                put_varint(&mut b, p.len());
                b.extend_from_slice(&p);
            }
            frame(0xf0, b, 0)
        }
        _ => panic!("unknown packet descriptor {v}"),
    }
}

pub fn hex_decode(s: &str) -> Vec<u8> {
    let s: Vec<u8> = s.bytes().filter(|c| !c.is_ascii_whitespace()).collect();
    s.chunks(2)
        .map(|c| u8::from_str_radix(std::str::from_utf8(c).unwrap(), 16).unwrap())
        .collect()
}

pub fn hex_encode(b: &[u8]) -> String {
    let mut s = String::with_capacity(b.len() * 2);
    for x in b {
        s.push_str(&format!("{x:02x}"));
    }
    s
}
