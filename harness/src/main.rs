//! mqv — conformance harness for the TLA+ specifications of ntex-mqtt.
mod conn;
mod rt;
mod tok;
mod topicx;
mod wire;

use std::io::{BufRead, BufWriter, Write};
use std::sync::{Arc, Mutex};

use serde_json::{Value, json};

thread_local! {
    pub(crate) static LAST_PANIC: std::cell::RefCell<String> = const { std::cell::RefCell::new(String::new()) };
}

fn run_one(run: &Value) -> Vec<Value> {
    let cfg = run.get("cfg").cloned().unwrap_or(json!({}));
    let cmds: Vec<Value> = run.get("cmds").and_then(Value::as_array).cloned().unwrap_or_default();
    let id = run.get("run").and_then(Value::as_i64).unwrap_or(0);
    let mut out = Vec::new();
    let role = cfg.get("role").and_then(Value::as_str).unwrap_or("server").to_string();
    let ver = cfg.get("ver").and_then(Value::as_i64).unwrap_or(5);
    out.push(json!({"e":"reset","k":format!("{role}{ver}"),"s":0,"id":0,"q":ver,"r":0,"n":id,"x":role}));
    if let Some(obj) = cfg.as_object() {
        for (k, v) in obj {
            if let Some(n) = v.as_i64() {
                out.push(json!({"e":"cfg","k":k,"s":0,"id":0,"q":0,"r":0,"n":n,"x":""}));
            }
        }
    }
    let cfg2 = cfg.clone();
    let handle = std::thread::Builder::new()
        .stack_size(16 << 20)
        .spawn(move || {
            let r = std::panic::catch_unwind(std::panic::AssertUnwindSafe(|| {
                rt::run(move || async move {
                    let ctx = conn::new_ctx(cfg2);
                    conn::run_conn(ctx, cmds).await;
                });
            }));
            let mut evs: Vec<Value> =
                conn::EVENTS.with(|e| e.borrow_mut().drain(..).map(|e| e.json()).collect());
            if r.is_err() {
                let msg = LAST_PANIC.with(|p| p.borrow().clone());
                evs.push(json!({"e":"panic","k":"task","s":0,"id":0,"q":0,"r":0,"n":0,"x":msg}));
            }
            evs
        })
        .expect("spawn");
    match handle.join() {
        Ok(evs) => out.extend(evs),
        Err(_) => out.push(json!({"e":"panic","k":"thread","s":0,"id":0,"q":0,"r":0,"n":0,"x":""})),
    }
    out
}

fn main() {
    let args: Vec<String> = std::env::args().collect();
    if args.len() < 2 {
        eprintln!("usage: mqv conn <runs.ndjson> <trace.ndjson> [jobs]");
        std::process::exit(2);
    }
    std::panic::set_hook(Box::new(|info| {
        let msg = format!("{info}");
        LAST_PANIC.with(|p| *p.borrow_mut() = msg.replace('\n', " "));
    }));
    match args[1].as_str() {
        "conn" => {
            let inp = std::fs::File::open(&args[2]).expect("open runs");
            let runs: Vec<Value> = std::io::BufReader::new(inp)
                .lines()
                .map_while(Result::ok)
                .filter(|l| !l.trim().is_empty())
                .map(|l| serde_json::from_str(&l).expect("run json"))
                .collect();
            let jobs: usize = args.get(4).and_then(|s| s.parse().ok()).unwrap_or(8);
            let n = runs.len();
            let runs = Arc::new(runs);
            let results: Arc<Mutex<Vec<Option<Vec<Value>>>>> = Arc::new(Mutex::new(vec![None; n]));
            let next = Arc::new(std::sync::atomic::AtomicUsize::new(0));
            let mut ths = Vec::new();
            for _ in 0..jobs.max(1) {
                let (runs, results, next) = (runs.clone(), results.clone(), next.clone());
                ths.push(std::thread::spawn(move || {
                    loop {
                        let i = next.fetch_add(1, std::sync::atomic::Ordering::SeqCst);
                        if i >= runs.len() {
                            break;
                        }
                        let evs = run_one(&runs[i]);
                        results.lock().unwrap()[i] = Some(evs);
                    }
                }));
            }
            for t in ths {
                t.join().expect("worker");
            }
            let mut w = BufWriter::new(std::fs::File::create(&args[3]).expect("create trace"));
            for r in results.lock().unwrap().iter() {
                for e in r.as_ref().expect("run result") {
                    writeln!(w, "{e}").unwrap();
                }
            }
            w.flush().unwrap();
        }
        "codec" => {
            let inp = std::fs::File::open(&args[2]).expect("open vectors");
            let vecs: Vec<Value> = std::io::BufReader::new(inp)
                .lines()
                .map_while(Result::ok)
                .filter(|l| !l.trim().is_empty())
                .map(|l| serde_json::from_str(&l).expect("vector json"))
                .collect();
            let jobs: usize = args.get(4).and_then(|s| s.parse().ok()).unwrap_or(8);
            let n = vecs.len();
            let vecs = Arc::new(vecs);
            let results: Arc<Mutex<Vec<Option<Value>>>> = Arc::new(Mutex::new(vec![None; n]));
            let next = Arc::new(std::sync::atomic::AtomicUsize::new(0));
            let mut ths = Vec::new();
            for _ in 0..jobs.max(1) {
                let (vecs, results, next) = (vecs.clone(), results.clone(), next.clone());
                ths.push(
                    std::thread::Builder::new()
                        .stack_size(16 << 20)
                        .spawn(move || {
                            loop {
                                let i = next.fetch_add(64, std::sync::atomic::Ordering::SeqCst);
                                if i >= vecs.len() {
                                    break;
                                }
                                let hi = (i + 64).min(vecs.len());
                                let out: Vec<Value> = (i..hi).map(|k| wire::run_vector(&vecs[k])).collect();
                                let mut r = results.lock().unwrap();
                                for (k, o) in (i..hi).zip(out) {
                                    r[k] = Some(o);
                                }
                            }
                        })
                        .expect("spawn"),
                );
            }
            for t in ths {
                t.join().expect("worker");
            }
            let mut w = BufWriter::new(std::fs::File::create(&args[3]).expect("create out"));
            for r in results.lock().unwrap().iter() {
                writeln!(w, "{}", r.as_ref().expect("result")).unwrap();
            }
            w.flush().unwrap();
        }
        "topic" => {
            let every: usize = args.get(4).and_then(|s| s.parse().ok()).unwrap_or(50);
            topicx::run(&args[2], &args[3], every);
        }
        other => {
            eprintln!("unknown subcommand {other}");
            std::process::exit(2);
        }
    }
}
