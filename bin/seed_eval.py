#!/usr/bin/env python3
"""apply a seeded change to /repo, run the given checks, undo; record the outcome in seeded/<name>/meta.json
usage: seed_eval.py <name> <worktree-or-existing> <target-property> <check-id>... [--tier quick]"""
import json, os, subprocess, sys, time, shutil
ROOT = os.path.dirname(os.path.dirname(os.path.abspath(__file__)))
def sh(cmd, **kw):
    return subprocess.run(cmd, shell=isinstance(cmd, str), stdout=subprocess.PIPE, stderr=subprocess.STDOUT, text=True, **kw)
def main():
    args = [a for a in sys.argv[1:] if not a.startswith("--")]
    tier = "quick"
    if "--tier" in sys.argv:
        tier = sys.argv[sys.argv.index("--tier") + 1]
        args = [a for a in args if a != tier]
    name, wt, target = args[0], args[1], args[2]
    checks = args[3:]
    d = os.path.join(ROOT, "seeded", name)
    os.makedirs(d, exist_ok=True)
    pd = os.path.join(d, "patch.diff")
    if os.path.isdir(wt) and os.path.exists(os.path.join(wt, ".git")):
        diff = sh(["git", "-C", wt, "diff", "--", "src"]).stdout
        open(pd, "w").write(diff)
        for f, t in (("tests/seed_demo.rs", "demonstration.rs"), ("SEED_REPORT.md", "demonstration.md")):
            if os.path.exists(os.path.join(wt, f)):
                shutil.copy(os.path.join(wt, f), os.path.join(d, t))
    st = sh("git -C /repo status --porcelain").stdout.strip()
    if st:
        print("refusing: /repo is not clean:\n" + st); return 2
    r = sh(["git", "-C", "/repo", "apply", pd])
    if r.returncode != 0:
        print("patch does not apply:", r.stdout); return 2
    results = {}
    try:
        for c in checks:
            t0 = time.time()
            r = sh(["python3", os.path.join(ROOT, "bin", "check.py"), c, "--tier", tier], cwd=ROOT)
            lines = [l for l in r.stdout.splitlines() if l.startswith(("VIOLATION", "  reason", "OK ", "KNOWN", "TOOL"))]
            results[c] = dict(exit=r.returncode, wall=round(time.time() - t0, 1), lines=lines[:8])
            print(c, "exit", r.returncode, "|", " ; ".join(lines[:3])[:400])
    finally:
        sh("git -C /repo checkout -- .")
    mp = os.path.join(d, "meta.json")
    meta = json.load(open(mp)) if os.path.exists(mp) else dict(name=name, target_property=target, runs=[])
    meta["runs"].append(dict(at=time.strftime("%Y-%m-%d %H:%M"), tier=tier, results=results,
                             caught_by=[c for c, x in results.items() if x["exit"] == 1]))
    meta["caught"] = any(r["caught_by"] for r in meta["runs"][-1:])
    json.dump(meta, open(mp, "w"), indent=1)
    return 0
sys.exit(main())
