#!/bin/bash
# Evaluate seeded changes without touching /repo:  vp run --with-repo -- bash bin/seedrun.sh <tier> <seed>:<Cxx>[,<Cyy>...] ...
# For every seed the patch is applied to the run's private snapshot of /repo ($VP_RUN_REPO), the named checks are
# run against it (VERIF_REPO), and the snapshot is restored.  Prints "SEED <name> <check> exit=<rc> <first lines>".
set -u
tier=$1; shift
export VERIF_REPO="$VP_RUN_REPO"
sed -i "s#path = \"/repo\"#path = \"$VP_RUN_REPO\"#" harness/Cargo.toml
python3 bin/setup.py || exit 2
for item in "$@"; do
  seed=${item%%:*}; checks=${item#*:}
  git -C "$VP_RUN_REPO" checkout -q -- . 
  if ! git -C "$VP_RUN_REPO" apply /verif/seeded/$seed/patch.diff; then echo "SEED $seed patch-does-not-apply"; continue; fi
  for c in ${checks//,/ }; do
    out=$(python3 bin/check.py $c --tier $tier 2>&1); rc=$?
    echo "SEED $seed $c exit=$rc $(echo "$out" | grep -E '^(VIOLATION|  reason|OK|TOOL)' | head -4 | tr '\n' ' ' | cut -c1-700)"
  done
  git -C "$VP_RUN_REPO" checkout -q -- .
done
