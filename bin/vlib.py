#!/usr/bin/env python3
"""Shared machinery of the checks: TLC runner (with spec-only caching), harness runner,
trace judge, evidence writer, known-findings handling."""
import hashlib, json, os, re, shutil, subprocess, sys, time, random, glob

ROOT = os.path.dirname(os.path.dirname(os.path.abspath(__file__)))
SPEC = os.path.join(ROOT, "spec")
WORK = os.path.join(ROOT, "work")
CACHE = os.path.join(WORK, "cache")
HARNESS = os.path.join(ROOT, "harness")
MQV = os.path.join(HARNESS, "target", "debug", "mqv")
REPO = os.environ.get("VERIF_REPO", "/repo")      # background sweeps (bin/bgrun.sh) point this at a snapshot of /repo
NCPU = os.cpu_count() or 8


class ToolError(Exception):
    pass


def sh(cmd, **kw):
    return subprocess.run(cmd, stdout=subprocess.PIPE, stderr=subprocess.STDOUT, text=True, **kw)


def sha(*parts):
    h = hashlib.sha256()
    for p in parts:
        h.update(p if isinstance(p, bytes) else str(p).encode())
        h.update(b"\0")
    return h.hexdigest()[:24]


def repo_tree_hash():
    """content hash of everything the harness build depends on in /repo"""
    h = hashlib.sha256()
    files = [os.path.join(REPO, "Cargo.toml"), os.path.join(REPO, "Cargo.lock")]
    for d, _, fs in os.walk(os.path.join(REPO, "src")):
        for f in fs:
            files.append(os.path.join(d, f))
    for f in sorted(files):
        try:
            with open(f, "rb") as fh:
                h.update(f.encode()); h.update(fh.read())
        except OSError:
            pass
    for d, _, fs in os.walk(os.path.join(HARNESS, "src")):
        for f in sorted(fs):
            with open(os.path.join(d, f), "rb") as fh:
                h.update(fh.read())
    return h.hexdigest()[:24]


def build_harness():
    """cargo build (offline); rebuilds from /repo's current working tree (path dependency)"""
    env = dict(os.environ, CARGO_NET_OFFLINE="true")
    t0 = time.time()
    r = sh(["cargo", "build", "--offline"], cwd=HARNESS, env=env)
    if r.returncode != 0:
        sys.stderr.write(r.stdout[-6000:])
        raise ToolError("harness build failed (does /repo still compile?)")
    return time.time() - t0


def spec_hash(files):
    h = hashlib.sha256()
    for f in sorted(files):
        with open(f, "rb") as fh:
            h.update(os.path.basename(f).encode()); h.update(fh.read())
    return h.hexdigest()[:24]


def prune_cache(limit=3 << 30):
    """keep the spec-only TLC cache below `limit` bytes: oldest entries go first"""
    try:
        ents = []
        for d in os.listdir(CACHE):
            dp = os.path.join(CACHE, d)
            sz = sum(os.path.getsize(os.path.join(dp, f)) for f in os.listdir(dp))
            ents.append((os.path.getmtime(dp), sz, dp))
        tot = sum(e[1] for e in ents)
        for _, sz, dp in sorted(ents):
            if tot <= limit:
                break
            shutil.rmtree(dp, ignore_errors=True)
            tot -= sz
    except OSError:
        pass


TLC_STATS = re.compile(r"(\d+) states generated, (\d+) distinct states found")


def tlc(module, cfg_text, name, workers=8, timeout=1800, env=None, simulate=None, cache=True,
        extra=None, java_opts=None, out_path=None):
    """Run TLC on SPEC/<module>.tla with the given cfg text.  Output goes to a file; returns
    dict(out=path, generated, distinct, wall, cached).  Spec-only runs are cached by content."""
    os.makedirs(CACHE, exist_ok=True)
    tla_files = glob.glob(os.path.join(SPEC, "*.tla"))
    key = sha(spec_hash(tla_files), cfg_text, module, simulate or "", json.dumps(extra or []))
    cdir = os.path.join(CACHE, key)
    outp = out_path or os.path.join(cdir, "out.txt")
    meta = os.path.join(cdir, "meta.json")
    if cache and os.path.exists(meta) and os.path.exists(outp):
        m = json.load(open(meta))
        m["cached"] = True
        m["out"] = outp
        return m
    prune_cache()
    os.makedirs(cdir, exist_ok=True)
    cfgp = os.path.join(SPEC, f"_{name}_{key}.cfg")
    with open(cfgp, "w") as f:
        f.write(cfg_text)
    metadir = os.path.join(WORK, "tlcmeta", f"{name}_{key}_{os.getpid()}")
    cmd = ["timeout", str(timeout), "tlc", "-workers", str(workers), "-metadir", metadir, "-cleanup",
           "-noGenerateSpecTE", "-config", os.path.basename(cfgp)]
    if simulate:
        cmd += ["-simulate", simulate]
    cmd += (extra or [])
    cmd += [module + ".tla"]
    e = dict(os.environ)
    if java_opts:
        e["JAVA_TOOL_OPTIONS"] = java_opts
    if env:
        e.update(env)
    t0 = time.time()
    with open(outp, "w") as fo:
        r = subprocess.run(cmd, cwd=SPEC, stdout=fo, stderr=subprocess.STDOUT, env=e)
    wall = time.time() - t0
    try:
        os.remove(cfgp)
    except OSError:
        pass
    shutil.rmtree(metadir, ignore_errors=True)
    gen = dist = 0
    err = None
    tail = []
    with open(outp, errors="replace") as f:
        for line in f:
            if line.startswith("<<"):
                continue
            m = TLC_STATS.search(line)
            if m:
                gen, dist = int(m.group(1)), int(m.group(2))
            if line.startswith("Error:") and err is None:
                err = line.strip()
            tail.append(line)
            if len(tail) > 60:
                tail.pop(0)
    res = dict(out=outp, generated=gen, distinct=dist, wall=round(wall, 2), cached=False, rc=r.returncode,
               error=err, name=name)
    if r.returncode == 124:
        raise ToolError(f"TLC timed out on {name}")
    if err and "Invariant" not in err and "violated" not in err:
        sys.stderr.write("".join(tail))
        raise ToolError(f"TLC failed on {name}: {err}")
    if cache:
        json.dump(res, open(meta, "w"))
    return res


PRINT_RE = re.compile(r'^<<"([A-Z]+)", (.*)>>\s*$')


def prints(path, tag):
    """yield the argument tuples of PrintT(<<tag, ...>>) lines as python lists (strings/ints)"""
    with open(path, errors="replace") as f:
        for line in f:
            if not line.startswith('<<"' + tag + '"'):
                continue
            m = PRINT_RE.match(line)
            if not m:
                continue
            body = m.group(2)
            if "TRUE" in body or "FALSE" in body:
                body = re.sub(r'(?<=, )TRUE\b', "true", body)
                body = re.sub(r'(?<=, )FALSE\b', "false", body)
            try:
                yield json.loads("[" + body + "]")
            except json.JSONDecodeError:
                continue


def run_harness(sub, runs, name, jobs=None):
    """write runs (list of dict) as ndjson, run the harness, return the trace path"""
    d = os.path.join(WORK, "runs")
    os.makedirs(d, exist_ok=True)
    rp = os.path.join(d, f"{name}.runs.ndjson")
    tp = os.path.join(d, f"{name}.trace.ndjson")
    with open(rp, "w") as f:
        for r in runs:
            f.write(json.dumps(r, separators=(",", ":")) + "\n")
    t0 = time.time()
    r = sh([MQV, sub, rp, tp, str(jobs or NCPU)])
    if r.returncode != 0:
        sys.stderr.write(r.stdout[-4000:])
        raise ToolError(f"harness {sub} failed rc={r.returncode}")
    return tp, time.time() - t0


def split_trace(tp, parts):
    """split an ndjson trace into <= parts files on run boundaries (lines starting a reset)"""
    with open(tp) as f:
        lines = f.readlines()
    starts = [i for i, l in enumerate(lines) if l.startswith('{"e":"reset"')]
    if not starts:
        return [tp]
    parts = max(1, min(parts, len(starts)))
    per = (len(starts) + parts - 1) // parts
    outs = []
    for p in range(parts):
        a = starts[p * per] if p * per < len(starts) else None
        if a is None:
            break
        b = starts[(p + 1) * per] if (p + 1) * per < len(starts) else len(lines)
        op = f"{tp}.part{p}"
        with open(op, "w") as f:
            f.writelines(lines[a:b])
        outs.append(op)
    return outs


JUDGE_CFG = "SPECIFICATION Spec\nCHECK_DEADLOCK FALSE\n"


def judge(module, trace, name, parallel=None, extra_env=None, parts=None):
    """run the TLC trace judge on the trace (split over processes); returns merged verdict dict"""
    if parts is None:
        nlines = sum(1 for _ in open(trace))
        parts = split_trace(trace, parallel or max(1, min(NCPU, 8, nlines // 30000 + 1)))
    procs = []
    for i, p in enumerate(parts):
        outp = p + ".judge.txt"
        cfgp = os.path.join(SPEC, f"_judge_{name}_{os.getpid()}_{i}.cfg")
        open(cfgp, "w").write(JUDGE_CFG)
        metadir = os.path.join(WORK, "tlcmeta", f"judge_{name}_{os.getpid()}_{i}")
        e = dict(os.environ, TRACE=p,
                 JAVA_TOOL_OPTIONS="-Xss1g -Xmx3g -Dtlc2.tool.queue.IStateQueue=StateDeque")
        if extra_env:
            e.update(extra_env)
        fo = open(outp, "w")
        # at most 12 judge processes at a time (each may take a few GB of heap)
        while sum(1 for q in procs if q[0].poll() is None) >= 12:
            time.sleep(0.5)
        pr = subprocess.Popen(["timeout", "1800", "tlc", "-workers", "1", "-metadir", metadir, "-cleanup",
                               "-noGenerateSpecTE", "-config", os.path.basename(cfgp), module + ".tla"],
                              cwd=SPEC, stdout=fo, stderr=subprocess.STDOUT, env=e)
        procs.append((pr, fo, outp, cfgp, metadir))
    res = dict(runs=0, events=0, viol=[])
    for pr, fo, outp, cfgp, metadir in procs:
        pr.wait()
        fo.close()
        try:
            os.remove(cfgp)
        except OSError:
            pass
        shutil.rmtree(metadir, ignore_errors=True)
        got = False
        for args in prints(outp, "JUDGE"):
            j = json.loads(args[0])
            res["runs"] += j["runs"]
            res["events"] += j["events"]
            res["viol"] += j["viol"]
            got = True
        if not got:
            sys.stderr.write(open(outp, errors="replace").read()[-3000:])
            raise ToolError(f"judge {module} produced no verdict for {outp}")
    for p in parts:
        if p != trace:
            for q in (p, p + ".judge.txt"):
                try:
                    os.remove(q)
                except OSError:
                    pass
    return res


# ---------------------------------------------------------------------------------------------
# event-level conformance: recorded runs validated against the implementation-shaped model by TLC

CONF_CMP = ("out", "h_start", "h_end", "h_read", "ctl", "ctl_done", "conn_done", "h_drop")


def events_by_cmd(tp):
    """trace file -> {run: {cmd index: [event, ...]}}"""
    runs = {}
    cur = None
    ci = -1
    with open(tp) as f:
        for line in f:
            e = json.loads(line)
            if e["e"] == "reset":
                cur = runs.setdefault(e["n"], {})
                ci = -1
            elif e["e"] == "cmd":
                ci = e["n"]
            elif cur is not None:
                cur.setdefault(ci, []).append(e)
    return runs


def conform(spec, cfg_text, runs, tp, name, workers=1):
    """spec = dict(module, tok2rec, decode, tail, cmp, project).  Every run that was derived from a model behaviour
    (tokens, default variant) is replayed through the model by TLC (module *Conform.tla): each token is
    executed as the model action it names and the events the model emits must equal the recorded ones.
    Returns dict(runs, ok, stuck=[(run, token index)], steps)."""
    cmpk = spec.get("cmp", CONF_CMP)
    proj = spec.get("project", lambda e: dict(e=e["e"], k=e["k"], s=e["s"], id=e["id"], q=e["q"], r=e["r"]))
    cand = [r for r in runs if r.get("tokens") is not None and r.get("variant") in spec.get("variants", (None,))]
    if name.endswith("_noconf"):
        cand = []
    if not cand:
        return dict(runs=0, ok=0, stuck=[], steps=0)
    evs = events_by_cmd(tp)
    d = os.path.join(WORK, "runs")
    cp = os.path.join(d, f"{name}.conf.ndjson")
    dec, tail = spec["decode"], spec.get("tail", 1)
    n = steps = 0
    by_run = {}
    with open(cp, "w") as f:
        for r in cand:
            toks = r["tokens"]
            bounds = [len(dec(toks[:i], r.get("variant"))[1]) - tail for i in range(len(toks) + 1)]
            per = []
            for i in range(len(toks)):
                es = []
                for c in range(bounds[i], bounds[i + 1]):
                    es += [proj(e) for e in evs.get(r["run"], {}).get(c, []) if e["e"] in cmpk and not spec.get("drop", lambda e, r: False)(e, r)]
                # wire output is observed at quiescence, the end of the connection task and the dropping of cancelled
                # handlers happen in an order that depends on which task is dropped first: listed after the rest
                late = ("out", "conn_done", "h_drop")
                per.append([e for e in es if e["e"] not in late] + [e for e in es if e["e"] == "conn_done"]
                           + sorted([e for e in es if e["e"] == "h_drop"], key=lambda e: e["s"])
                           + [e for e in es if e["e"] == "out"])
            f.write(json.dumps(dict(run=r["run"], toks=[spec["tok2rec"](t) for t in toks], evs=per), separators=(",", ":")) + "\n")
            by_run[r["run"]] = r
            n += 1
            steps += len(toks)
    cfg = cfg_text.replace("SPECIFICATION ExportSpec", "SPECIFICATION ConformSpec")
    cfg = "\n".join(l for l in cfg.splitlines() if not l.startswith(("INVARIANT", "VIEW"))) + "\n"
    r = tlc(spec["module"], cfg, f"conf_{name}", workers=workers, timeout=1800, cache=False,
            env=dict(CONF=cp), java_opts="-Xss1g -Xmx3g -Dtlc2.tool.queue.IStateQueue=StateDeque",
            out_path=os.path.join(d, f"{name}.conf.txt"))
    ok, stuck = set(), {}
    for a in prints(r["out"], "CONF"):
        if a[1] == "ok":
            ok.add(a[0])
        else:
            stuck[a[0]] = max(stuck.get(a[0], 0), a[2])
    stuck = {k: v for k, v in stuck.items() if k not in ok}
    if len(ok) + len(stuck) != n:
        raise ToolError(f"conformance run {name}: {n} runs in, {len(ok)} ok + {len(stuck)} stuck out")
    res = dict(runs=n, ok=len(ok), steps=steps, stuck=[], wall=r["wall"])
    for k, ti in list(stuck.items())[:6]:
        rr = by_run[k]
        res["stuck"].append(dict(tokens=rr["tokens"], at=ti, role=rr["cfg"].get("role"), ver=rr["cfg"].get("ver")))
    res["nstuck"] = len(stuck)
    return res


# ---------------------------------------------------------------------------------------------
# known findings

def load_known():
    p = os.path.join(ROOT, "known_findings.json")
    if not os.path.exists(p):
        return []
    return json.load(open(p))["findings"]


def match_known(known, prop, signature):
    for k in known:
        if k.get("status") == "known" and k["property"] == prop and re.fullmatch(k["signature"], signature):
            return k
    return None


def write_evidence(prop, tier, seed, level, coverage, wall, violations, assumptions):
    os.makedirs(os.path.join(ROOT, "evidence"), exist_ok=True)
    ev = dict(property_id=prop, tier=tier, seed=seed, level=level, coverage=coverage,
              assumptions=assumptions, wall_s=round(wall, 2), violations=violations)
    with open(os.path.join(ROOT, "evidence", f"{prop}.json"), "w") as f:
        json.dump(ev, f, indent=1)


def write_replay(prop, name, obj):
    d = os.path.join(ROOT, "work", "replay")
    os.makedirs(d, exist_ok=True)
    p = os.path.join(d, f"{prop}_{name}.json")
    json.dump(obj, open(p, "w"), indent=1)
    return p
