#!/usr/bin/env python3
"""diagnose conformance drift: confdiff.py <group>_<tier>_<cfgname> [max]   (uses work/runs/<name>.conf.ndjson and the cfg of the group)"""
import sys, os, json, subprocess, re
sys.path.insert(0, os.path.dirname(os.path.abspath(__file__)))
import vlib, groups
name = sys.argv[1]; mx = int(sys.argv[2]) if len(sys.argv) > 2 else 5
gname, tier, cname = name.split("_", 2)
g = groups.GROUPS[gname]
cfgt = [c for c in g["configs"](tier) if c[0] == cname][0]
cfg = cfgt[1].replace("SPECIFICATION ExportSpec", "SPECIFICATION DebugSpec")
cfg = "\n".join(l for l in cfg.splitlines() if not l.startswith(("INVARIANT", "VIEW"))) + "\n"
cp = os.path.join(vlib.WORK, "runs", f"{name}.conf.ndjson")
runs = {json.loads(l)["run"]: json.loads(l) for l in open(cp)}
r = vlib.tlc("EndpointConform" if cfgt[2] == "MC_Endpoint" else "OutConform" if cfgt[2] == "MC_Out" else g["conform"]["module"], cfg, "confdbg", workers=1, cache=False, env=dict(CONF=cp),
             java_opts="-Xss1g -Xmx3g -Dtlc2.tool.queue.IStateQueue=StateDeque", out_path="/tmp/confdbg.txt")
seen = set(); n = 0
for a in vlib.prints(r["out"], "DIFF"):
    if a[0] in seen: continue
    seen.add(a[0]); n += 1
    if n > mx: continue
    run = runs[a[0]]
    print("run", a[0], "toks", [t for t in run["toks"]][:a[1]], "at", a[1])
    fmt = lambda es: [f"{e['e']}:{e['k']}:s{e['s']}:id{e['id']}:q{e['q']}:r{e.get('r',0)}" for e in es]
    print("   model:", fmt(json.loads(a[2])))
    print("   real :", fmt(json.loads(a[3])))
print(len(seen), "runs differ of", len(runs))
