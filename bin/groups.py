#!/usr/bin/env python3
"""Group definitions: which TLA+ model/monitor decides which properties, the TLC configurations,
how model command tokens map to harness commands, and the random drivers."""
import json, random

GROUP_OF = {}
GROUPS = {}


def reg(g, props):
    g["props"] = list(props)
    GROUPS[g["name"]] = g
    for p in props:
        GROUP_OF[p] = g["name"]


def handshake(role, ver, connack=None, connect=None):
    if role in ("server", "both"):
        p = {"t": "connect", "ka": 0}
        p.update(connect or {})
        return {"c": "in", "p": p}
    p = {"t": "connack", "rc": 0}
    p.update(connack or {})
    return {"c": "in", "p": p}


# =============================================================================================
# group "sink": C05 C06 C13 C14  (Sink.tla + SinkMon.tla)

SINK_CFG = """SPECIFICATION ExportSpec
CONSTANTS
  Ver = {ver}
  Cap = {cap}
  Kinds <- {kinds}
  IdMax = {idmax}
  MaxUses = {uses}
  MaxBad = {bad}
  UseWrb = {wrb}
  UseCancel = {cancel}
  CallerIds <- {cids}
  PreHs = {prehs}
VIEW view
INVARIANT TypeOk
INVARIANT NoLostWakeup
INVARIANT WindowInv
CHECK_DEADLOCK FALSE
"""


def sink_decode_for(params):
    def dec(tokens, role):
        ver, cap = params["ver"], params["cap"]
        cfg = dict(role=role, ver=ver, max_send=cap, gate_pub=1)
        if params.get("prehs") == "TRUE":
            cfg["gate_hs"] = 1      # the handshake service answers at token "h": sends before that use Handshake::sink()
        cmds = [handshake(role, ver, connack={"rm": cap} if ver == 5 else None)]
        for t in tokens:
            c = t[0]
            if c == "s":
                s, kind, cid = t[1:].split(":")
                cmds.append({"c": "send", "s": int(s), "k": kind, "id": int(cid)})
            elif c == "p":
                cmds.append({"c": "poll", "s": int(t[1:])})
            elif c == "d":
                cmds.append({"c": "drop", "s": int(t[1:])})
            elif c == "a":
                cmds.append({"c": "ack", "n": 1})
            elif c == "b":
                a, i = t[1:].split(":")
                cmds.append({"c": "in", "p": {"t": a.lower(), "id": int(i)}})
            elif c == "r":
                cmds.append({"c": "release", "s": int(t[1:]), "t": int(t[1:]) + 20})
            elif c == "x":
                cmds.append({"c": "rdrop", "s": int(t[1:])})
            elif c == "w":
                cmds.append({"c": "wrb", "on": int(t[1:])})
            elif c == "h":
                cmds.append({"c": "complete", "j": 0, "o": "ok"})
            else:
                raise ValueError(f"unknown model token {t}")
        cmds.append({"c": "settle"})
        return cfg, cmds
    return dec


def sink_tok2rec(t):
    c = t[0]
    r = dict(a=c, s=0, id=0, k="")
    if c == "s":
        s, _kind, cid = t[1:].split(":")
        r.update(s=int(s), id=int(cid))
    elif c in ("p", "d", "r", "x", "w"):
        r.update(s=int(t[1:]))
    elif c == "b":
        a, i = t[1:].split(":")
        r.update(k=a, id=int(i))
    return r


def sink_project(e):
    if e["k"] == "CONNACK":      # the limits a v5 CONNACK announces are C19's business
        return dict(e=e["e"], k=e["k"], s=0, id=0, q=0)
    return dict(e=e["e"], k=e["k"], s=e["s"], id=e["id"], q=e["q"])




SINK_CONFORM = dict(module="SinkConform", tok2rec=sink_tok2rec, tail=1, project=sink_project,
                    cmp=("out", "send_poll", "send_done"), variants=("server", "client"),
                    # the v3 client's close() writes DISCONNECT before it closes the io; Sink.tla has no role
                    drop=lambda e, r: e["e"] == "out" and e["k"] == "DISCONNECT" and r["cfg"]["ver"] == 3)


def sink_configs(tier):
    T, F = "TRUE", "FALSE"
    cs = []
    for ver in (3, 5):
        base = [
            (f"v{ver}_win1", dict(ver=ver, cap=1, kinds="K_q1q1q1", idmax=3, uses=1, bad=0, wrb=F, cancel=T, cids="Ids0"), ["server", "client"]),
            (f"v{ver}_wrb1", dict(ver=ver, cap=1, kinds="K_q1q1q2", idmax=3, uses=1, bad=0, wrb=T, cancel=F, cids="Ids0"), ["server"]),
            (f"v{ver}_q2x2", dict(ver=ver, cap=2, kinds="K_q2q2q1", idmax=3, uses=1, bad=0, wrb=F, cancel=F, cids="Ids0"), ["server", "client"]),
            (f"v{ver}_q2c", dict(ver=ver, cap=1, kinds="K_q2q1", idmax=3, uses=1, bad=0, wrb=F, cancel=T, cids="Ids0"), ["server"]),
            (f"v{ver}_bad", dict(ver=ver, cap=2, kinds="K_q1q2", idmax=2, uses=1, bad=1, wrb=F, cancel=F, cids="Ids0"), ["server", "client"]),
            (f"v{ver}_subs", dict(ver=ver, cap=1, kinds="K_subs", idmax=3, uses=1, bad=0, wrb=F, cancel=T, cids="Ids0"), ["client"]),
            (f"v{ver}_ids", dict(ver=ver, cap=2, kinds="K_q1q1", idmax=2, uses=2, bad=0, wrb=F, cancel=F, cids="Ids01"), ["server"]),
            # caller-chosen identifiers while a QoS 2 exchange still holds its identifier
            (f"v{ver}_q2ids", dict(ver=ver, cap=2, kinds="K_q2q1", idmax=3, uses=1, bad=0, wrb=F, cancel=F, cids="Ids01"), ["server", "client"]),
            # senders that queue inside the handshake service, before set_cap() opens the window
            (f"v{ver}_prehs", dict(ver=ver, cap=1, kinds="K_rq1q1", idmax=3, uses=1, bad=0, wrb=F, cancel=T, cids="Ids0", prehs=T), ["server"]),
        ]
        if tier == "thorough":
            base += [
                # (four senders with cancellation: 10^6 states for MQTT 3.1.1; for MQTT 5 - results carry ids, more wake-up
                #  sources - the state space did not finish in 50 minutes: three senders there)
                (f"v{ver}_win2", dict(ver=ver, cap=2, kinds="K_q1q1q1q2" if ver == 3 else "K_q1q1q2", idmax=4 if ver == 3 else 3, uses=1, bad=0, wrb=F, cancel=T, cids="Ids0"), ["server", "client"]),
                (f"v{ver}_all3", dict(ver=ver, cap=1, kinds="K_q1q1q2", idmax=3, uses=1, bad=1, wrb=T, cancel=T, cids="Ids0"), ["server"]),
                (f"v{ver}_q2x3", dict(ver=ver, cap=3, kinds="K_q2q2q2", idmax=3, uses=1, bad=0, wrb=F, cancel=F, cids="Ids0"), ["server"]),
                (f"v{ver}_mix4", dict(ver=ver, cap=2, kinds="K_mixed4", idmax=3, uses=1, bad=0, wrb=T, cancel=F, cids="Ids0"), ["client"]),
                (f"v{ver}_badsub", dict(ver=ver, cap=2, kinds="K_subq1", idmax=2, uses=1, bad=1, wrb=F, cancel=F, cids="Ids0"), ["client"]),
                (f"v{ver}_prehs2", dict(ver=ver, cap=2, kinds="K_rq1q2", idmax=3, uses=1, bad=0, wrb=F, cancel=T, cids="Ids0", prehs=T), ["server"]),
            ]
        for name, params, roles in base:
            params.setdefault("prehs", F)
            # (event-level conformance is skipped where the packet id counter wraps: the model wraps at IdMax = 2,
            #  the real counter at 65535, so the ids differ by construction)
            cs.append((name + ("_noconf" if params["uses"] > 1 else ""), SINK_CFG.format(**params), "MC_Sink", sink_decode_for(params), roles))
    return cs


def sink_local_failures():
    """sends that fail locally (topic longer than 65535 bytes: encoder error; packet larger than the peer's Maximum
    Packet Size; packet id in use) - ordinary and streamed publishes, with a caller-chosen identifier -, followed by
    sends that use the same identifier again and by ordinary sends: a local failure must not make later sends fail"""
    runs = []
    for ver in (3, 5):
        for role in ("server", "client"):
            for kind in ("q1", "q2", "stream1"):
                for bad in ("topic", "size", "idinuse"):
                    if bad == "size" and (ver == 3 or kind == "stream1"):
                        continue
                    cfg = dict(role=role, ver=ver, max_send=4, gate_pub=1)
                    hs = {"rm": 4, "mps": 64} if ver == 5 else None
                    cmds = [handshake(role, ver, connack=hs, connect=hs)]
                    first = {"c": "send", "s": 1, "k": kind, "id": 7}
                    if kind == "stream1":
                        first["plen"] = 6
                    if bad == "topic":
                        first["topic"] = "x" * 70000
                    elif bad == "size":
                        first["plen"] = 200
                    else:
                        cmds += [{"c": "send", "s": 9, "k": "q1", "id": 7}, {"c": "poll", "s": 9}]
                    cmds += [first, {"c": "poll", "s": 1},
                             {"c": "send", "s": 2, "k": "q1" if kind == "stream1" else kind, "id": 0 if bad == "idinuse" else 7}, {"c": "poll", "s": 2},
                             {"c": "send", "s": 3, "k": "q1", "id": 0}, {"c": "poll", "s": 3},
                             {"c": "settle"}]
                    runs.append(dict(cfg=cfg, cmds=cmds, src="local_failure"))
            # sends refused because a streamed publish still owes payload (ExpectPayload) are local failures too: the
            # stream is completed afterwards and acknowledged, and later sends must succeed
            for refused in ("q0", "q1", "q2", "stream0", "stream1"):
                for first in ("stream1", "stream0"):
                    cfg = dict(role=role, ver=ver, max_send=4, gate_pub=1)
                    hs = {"rm": 4, "mps": 64} if ver == 5 else None
                    cmds = [handshake(role, ver, connack=hs, connect=hs)]
                    a = {"c": "send", "s": 1, "k": first, "plen": 6}
                    if first == "stream1":
                        a["id"] = 0
                    cmds += [a] + ([{"c": "poll", "s": 1}] if first == "stream1" else [])
                    b = {"c": "send", "s": 2, "k": refused}
                    if refused != "stream0" and refused != "q0":
                        b["id"] = 0
                    if refused in ("stream0", "stream1", "q0"):
                        b["plen"] = 3
                    cmds += [b] + ([{"c": "poll", "s": 2}] if refused not in ("q0", "stream0") else [])
                    if refused in ("stream0", "stream1"):
                        cmds.append({"c": "sdrop", "s": 2})      # the handle of the refused publish goes away
                    cmds += [{"c": "chunk", "s": 1, "n": 2, "t": 41}, {"c": "chunk", "s": 1, "n": 4, "t": 42},
                             {"c": "ack", "n": 1}, {"c": "poll", "s": 1},
                             {"c": "send", "s": 3, "k": "q1", "id": 0}, {"c": "poll", "s": 3}, {"c": "ack", "n": 1}, {"c": "poll", "s": 3},
                             {"c": "settle"}]
                    runs.append(dict(cfg=cfg, cmds=cmds, src="refused_while_streaming"))
    return runs


def sink_negative_acks():
    """MQTT 5: the peer answers with reason codes >= 0x80 (PUBACK / PUBREC not authorised).  The send completes with the
    contents of that acknowledgement; for QoS 2 whatever the application does with the receipt afterwards (release,
    drop, keep) must not disturb another exchange: two overlapping QoS 2 sends, the first rejected, the second accepted,
    receipts released / dropped in every order"""
    runs = []
    for role in ("server", "client"):
        for first in ("release1", "drop1", "release2", "keep1"):
            for k2 in ("q2", "q1"):
                cfg = dict(role=role, ver=5, max_send=4, gate_pub=1)
                cmds = [handshake(role, 5, connack={"rm": 4}, connect={"rm": 4}),
                        {"c": "send", "s": 1, "k": "q2", "id": 0}, {"c": "poll", "s": 1},
                        {"c": "send", "s": 2, "k": k2, "id": 0}, {"c": "poll", "s": 2},
                        {"c": "ack", "n": 1, "rc": 135}, {"c": "ack", "n": 1},
                        {"c": "poll", "s": 1}, {"c": "poll", "s": 2}]
                rel = lambda s_: [{"c": "release", "s": s_, "t": s_ + 20}, {"c": "poll", "s": s_ + 20}]
                if first == "release1":
                    cmds += rel(1) + (rel(2) if k2 == "q2" else [])
                elif first == "drop1":
                    cmds += [{"c": "rdrop", "s": 1}] + (rel(2) if k2 == "q2" else [])
                elif first == "release2":
                    cmds += (rel(2) if k2 == "q2" else []) + rel(1)
                cmds += [{"c": "send", "s": 3, "k": "q1", "id": 0}, {"c": "poll", "s": 3}, {"c": "settle"}]
                runs.append(dict(cfg=cfg, cmds=cmds, src="negative_ack"))
        # QoS 1 rejected
        cfg = dict(role=role, ver=5, max_send=1, gate_pub=1)
        runs.append(dict(cfg=cfg, src="negative_ack", cmds=[
            handshake(role, 5, connack={"rm": 1}, connect={"rm": 1}),
            {"c": "send", "s": 1, "k": "q1", "id": 0}, {"c": "poll", "s": 1}, {"c": "send", "s": 2, "k": "q1", "id": 0}, {"c": "poll", "s": 2},
            {"c": "ack", "n": 1, "rc": 135}, {"c": "poll", "s": 1}, {"c": "poll", "s": 2}, {"c": "settle"}]))
    return runs


def sink_dropped_senders():
    """a send future dropped at every stage of its exchange (before the first poll, after the packet was written, after
    PUBREC arrived and before / after the sender saw it), next to a second exchange that goes on: the peer's
    acknowledgements for the abandoned exchange must neither disturb the other one nor the connection"""
    runs = []
    for ver in (3, 5):
        for role in ("server", "client"):
            for kind in ("q1", "q2") + (("sub",) if role == "client" else ()):
                stages = ["unpolled", "written"] + (["pubrec_unseen", "pubrec_seen"] if kind == "q2" else [])
                for stage in stages:
                    cfg = dict(role=role, ver=ver, max_send=4, gate_pub=1)
                    hs = {"rm": 4} if ver == 5 else None
                    cmds = [handshake(role, ver, connack=hs, connect=hs),
                            {"c": "send", "s": 1, "k": kind, "id": 0}]
                    other = [{"c": "send", "s": 2, "k": "q2", "id": 0}, {"c": "poll", "s": 2}]
                    if stage == "unpolled":
                        cmds += other + [{"c": "drop", "s": 1}]
                    elif stage == "written":
                        cmds += [{"c": "poll", "s": 1}] + other + [{"c": "drop", "s": 1}, {"c": "ack", "n": 1}]
                    elif stage == "pubrec_unseen":
                        cmds += [{"c": "poll", "s": 1}] + other + [{"c": "ack", "n": 1}, {"c": "drop", "s": 1}]
                    else:
                        cmds += [{"c": "poll", "s": 1}] + other + [{"c": "ack", "n": 1}, {"c": "poll", "s": 1}, {"c": "rdrop", "s": 1}]
                    cmds += [{"c": "ack", "n": 2}, {"c": "poll", "s": 2}, {"c": "release", "s": 2, "t": 22}, {"c": "poll", "s": 22},
                             {"c": "send", "s": 3, "k": "q1", "id": 0}, {"c": "poll", "s": 3}, {"c": "settle"}]
                    runs.append(dict(cfg=cfg, cmds=cmds, src="dropped_sender"))
    return runs


def sink_real_backpressure():
    """write back-pressure raised by the transport itself (the peer stops reading, a large publish fills the write
    buffer) while the dispatched service is busy or idle, senders parked on it; the peer reads again, the handlers
    finish: the sink must be told, every parked sender resumes and completes"""
    runs = []
    for ver in (3, 5):
        for role in ("server", "client"):
            for busy in ("before", "during", "never"):
                for limit in (dict(max_receive=1), dict(max_receive=2, max_receive_size=8)):
                    cfg = dict(dict(role=role, ver=ver, gate_pub=1, gate_proto=0, max_qos=2, max_send=4, wr_high=32, wr_low=8), **limit)
                    hs = {"rm": 4} if ver == 5 else None
                    inp = {"c": "in", "p": {"t": "publish", "q": 1, "id": 5, "topic": "t", "plen": 1}}
                    cmds = [handshake(role, ver, connack=hs, connect=hs)]
                    if busy == "before":
                        cmds.append(inp)
                    cmds += [{"c": "cap", "n": 0}, {"c": "send", "s": 1, "k": "q0", "plen": 200},
                             {"c": "send", "s": 2, "k": "q1", "id": 0}, {"c": "poll", "s": 2},
                             {"c": "send", "s": 3, "k": "ready", "id": 0}, {"c": "poll", "s": 3}]
                    if busy == "during":
                        cmds.append(inp)
                    cmds += [{"c": "cap"}]
                    if busy != "never":
                        cmds.append({"c": "complete", "j": 0, "o": "ok"})
                    cmds += [{"c": "poll", "s": 2}, {"c": "poll", "s": 3}, {"c": "ack", "n": 2}, {"c": "settle"}]
                    runs.append(dict(cfg=cfg, cmds=cmds, src="real_backpressure"))
    return runs


def sink_id_wrap():
    """the automatic identifier counter passes 65535 while several sends are outstanding: identifiers 65534, 65535, 1, 2
    (0 is skipped, none is handed out twice), every send goes through and is acknowledged"""
    runs = []
    for ver in (3, 5):
        for role in ("server", "client"):
            for start in (65532, 65533, 65534):
                for kinds in (("q1", "q1", "q1", "q1"), ("q2", "q1", "q1", "q2")) + ((("sub", "q1", "unsub", "q1"),) if role == "client" else ()):
                    cfg = dict(role=role, ver=ver, max_send=4, gate_pub=1)
                    hs = {"rm": 4} if ver == 5 else None
                    cmds = [handshake(role, ver, connack=hs, connect=hs), {"c": "next_id", "n": start}, {"c": "mark", "k": "expect_all_ok"}]
                    for i, k in enumerate(kinds, 1):
                        cmds += [{"c": "send", "s": i, "k": k, "id": 0}, {"c": "poll", "s": i}]
                    cmds += [{"c": "ack", "n": 4}, {"c": "settle"}]
                    runs.append(dict(cfg=cfg, cmds=cmds, src="id_wrap"))
    return runs


def sink_window_negotiation():
    """the send window is min(configured max_send, the peer's Receive Maximum) - the PEER's, whichever side is larger
    and whatever this endpoint announced itself: six sends, the peer withholds its acknowledgements"""
    runs = []
    for role in ("server", "client"):
        for max_send, peer_rm in ((8, 2), (2, 8), (4, 1), (3, 3)):
            cfg = dict(role=role, ver=5, max_send=max_send, gate_pub=1)
            if role == "client":
                cfg["client_receive_max"] = 5       # what the client announces itself is irrelevant for its sends
            cmds = [handshake(role, 5, connack={"rm": peer_rm}, connect={"rm": peer_rm})]
            for i in range(1, 7):
                cmds += [{"c": "send", "s": i, "k": "q1" if i % 3 else "q2", "id": 0}, {"c": "poll", "s": i}]
            cmds += [{"c": "ack", "n": 1}, {"c": "settle"}]
            runs.append(dict(cfg=cfg, cmds=cmds, src="window_negotiation"))
    return runs


def sink_random(tier, rnd):
    runs = sink_window_negotiation() + sink_local_failures() + sink_negative_acks() + sink_dropped_senders() + sink_real_backpressure() + sink_id_wrap()
    for _ in range(300 if tier == "quick" else 4000):
        ver = rnd.choice([3, 5])
        role = rnd.choice(["server", "client"])
        cap = rnd.randint(1, 4)
        kinds = ["q1", "q2", "ready"] + (["sub", "unsub"] if role == "client" else [])
        cfg = dict(role=role, ver=ver, max_send=cap, gate_pub=1)
        cmds = [handshake(role, ver, connack={"rm": cap} if ver == 5 else None)]
        if rnd.random() < 0.15:
            cmds.append({"c": "next_id", "n": 65533})
        nsend = rnd.randint(2, 16)
        live, hold, nxt, wrb = [], [], 1, False
        for _ in range(rnd.randint(10, 120)):
            x = rnd.random()
            if x < 0.25 and nxt <= nsend:
                k = rnd.choice(kinds)
                cmds.append({"c": "send", "s": nxt, "k": k, "id": 0})
                live.append(nxt)
                if k == "q2":
                    hold.append(nxt)
                nxt += 1
            elif x < 0.55 and live:
                cmds.append({"c": "poll", "s": rnd.choice(live)})
            elif x < 0.75:
                cmds.append({"c": "ack", "n": rnd.randint(1, 3)})
            elif x < 0.82 and hold:
                s = hold.pop(rnd.randrange(len(hold)))
                if rnd.random() < 0.7:
                    cmds.append({"c": "release", "s": s, "t": s + 20})
                    live.append(s + 20)
                else:
                    cmds.append({"c": "rdrop", "s": s})
            elif x < 0.88 and live:
                s = live.pop(rnd.randrange(len(live)))
                cmds.append({"c": "drop", "s": s})
            elif x < 0.94:
                wrb = not wrb
                cmds.append({"c": "wrb", "on": int(wrb)})
        if wrb:
            cmds.append({"c": "wrb", "on": 0})
        cmds.append({"c": "settle"})
        runs.append(dict(cfg=cfg, cmds=cmds, src="random"))
    return runs


def sink_signature(v):
    cfg = v["cfg"]
    kinds = sorted({c.get("k") for c in v["cmds"] if c.get("c") == "send"})
    cs = [c.get("c") for c in v["cmds"]]
    feats = [f for f in ("drop", "wrb", "release", "rdrop") if f in cs]
    if any(c.get("c") == "in" and c.get("p", {}).get("t") in ("puback", "pubrec", "pubcomp", "suback", "unsuback")
           for c in v["cmds"]):
        feats.append("badack")
    return f"{v['why']}|v{cfg['ver']}|{cfg['role']}|{'+'.join(kinds)}|{'+'.join(feats)}"


reg(dict(
    name="sink", judge="SinkJudge", configs=sink_configs, extra_runs=sink_random, signature=sink_signature,
    conform=SINK_CONFORM,
    level={}, quota=350,
    rule="every transition of the bounded TLC state graph of Sink.tla is a replay candidate (prefix = shortest "
         "path); quick replays a seeded sample per configuration, thorough replays all; plus random long runs "
         "(windows 1..4, up to 16 senders, id wrap at 65535); every run ends with `settle` (orderly peer, poll to fixpoint)",
    assumptions=[
        "bounds of the TLC configurations listed under coverage.tlc (senders, window, id space, wrong acks)",
        "sender futures are polled only on command (single-threaded deterministic runtime; ntex runs one connection per thread)",
        "back-pressure notifications are delivered to the sink through the cfg-gated hook, as ControlService does",
        "the harness tokeniser (independent of the crate codec) reports the wire faithfully",
    ]), ["C05", "C06", "C13", "C14"])


# =============================================================================================
# group "inbound": C03 C04 C11  (Endpoint.tla + ProtoMon.tla)

INB_CFG = """SPECIFICATION ExportSpec
CONSTANTS
  Ver = {ver}
  Role = "{role}"
  Ids <- {ids}
  MaxPkts = {n}
  Kinds <- {kinds}
  Extra <- {extra}
  Chunks <- {chunks}
  Outcomes <- {outs}
  Imm = {imm}
  GateProto = {gp}
  MaxRecv = {mr}
  MaxRecvSize = {mrs}
  RecvMax = {rm}
  MaxQos = {mq}
  AliasMax = {am}
  Strict = {strict}
  GateStop = {gs}
  MinChunk = {mc}
  Ends <- {ends}
VIEW view
INVARIANT TypeOk
CHECK_DEADLOCK FALSE
"""

INB_DEFAULTS = dict(extra="XNone", chunks="CNone", mc=32768, mr=0, mrs=0, rm=0, mq=2, am=2, strict=0, gs="FALSE", ends="ENone")


def ep_cfg(params):
    """harness configuration that corresponds to the constants of MC_Endpoint"""
    ver, role = params["ver"], params["role"]
    cfg = dict(role=role, ver=ver, gate_pub=1, gate_proto=1 if params["gp"] == "TRUE" else 0,
               max_qos=params["mq"], max_receive=params["mr"] if ver == 3 else 16, max_receive_size=params["mrs"])
    if ver == 5:
        if params["rm"]:
            cfg["ack_receive_max" if role == "server" else "client_receive_max"] = params["rm"]
        cfg["max_topic_alias" if role == "server" else "client_topic_alias_max"] = params["am"]
    if params.get("strict"):
        cfg["strict"] = params["strict"]
    if params.get("gs") == "TRUE":
        cfg["gate_stop"] = 1
    if params.get("mc", 32768) != 32768:
        cfg["min_chunk"] = params["mc"]
    return cfg


EP_ENDS = {
    "peer_close": [{"c": "mark", "e": "cause", "k": "stop_peer"}, {"c": "peer_close"}],
    "raw": [{"c": "mark", "e": "cause", "k": "stop_proto"}, {"c": "in", "p": {"t": "raw", "hex": "00 00"}}],
    "rawq": [{"c": "in", "p": {"t": "raw", "hex": "00 00"}}],
    "close": [{"c": "mark", "e": "cause", "k": "stop_peer"}, {"c": "close", "k": "close"}],
    "force": [{"c": "mark", "e": "cause", "k": "stop_peer"}, {"c": "close", "k": "force"}],
}


def ep_pkt(p, ver, vary, npub):
    """packet record of the model -> harness packet descriptor"""
    k = p["kind"]
    if k == "pub":
        q, i = p["q"], p["id"]
        d = {"t": "publish", "q": q, "id": i if q else 0, "topic": "t" * 40 if p["topic"] == "long" else p["topic"],
             "plen": p["plen"], "fill": 0x61 + i + q}
        streamed = p.get("sent", p["plen"]) < p["plen"]
        if streamed:
            d.update(send=p["sent"], fill=0x61)
        if p["alias"]:
            d["alias"] = p["alias"]
        if vary and not streamed:
            # data the model abstracts from (decided by ProtoMon's C03 rules): payload length, flags, properties
            d["plen"] = 1 + (i % 2) * 2
            npub[0] += 1
            if npub[0] % 2 == 0:
                d.update(retain=1 if q != 2 else 0, dup=1 if q == 1 else 0)
                if ver == 5:
                    d.update(up=1 + npub[0] % 3, ct="text/x", rt="re/ply", cd="corr", mei=7, pfi=1)
        return d
    if k == "chunk":
        return {"t": "payload", "n": p["plen"]}
    if k == "pubrel":
        return {"t": "pubrel", "id": p["id"]}
    if k == "sub":
        return {"t": "subscribe", "id": p["id"]}
    if k == "unsub":
        return {"t": "unsubscribe", "id": p["id"]}
    if k == "ping":
        return {"t": "pingreq"}
    if k in ("puback", "pubrec", "pubcomp", "suback", "unsuback"):
        return {"t": k, "id": p["id"]}
    if k == "connect":
        return {"t": "connect", "ka": 0}
    if k == "connack":
        return {"t": "connack", "rc": 0}
    if k in ("pingresp", "auth"):
        return dict({"t": k}, **({"rc": 0} if k == "auth" else {}))
    if k == "disc":
        return {"t": "disconnect"}
    if k == "discsei":
        return {"t": "disconnect", "rc": 4, "sei": 10}
    raise ValueError(k)


def inb_decode_for(params):
    def dec(tokens, _variant):
        ver = params["ver"]
        cfg = ep_cfg(params)
        # variant "rpi0": the client's CONNECT carries Request Problem Information = 0 - reason strings and user
        # properties may then be left out of acknowledgements, the reason CODE may not change
        cmds = [handshake(params["role"], ver, connect=dict({"rm": 16}, **({"rpi": 0} if _variant == "rpi0" else {})) if ver == 5 else None)]
        npub = [0]
        vary = params["mrs"] == 0 and params["extra"] == "XNone"
        # variant "code16": a handler that succeeds answers with the success code "no matching
        # subscribers" (0x10) instead of 0 - the exchange must go on exactly as for code 0
        okc = (lambda c: dict(c, o="nack_ok", code=16) if c["o"] == "ok" else c) if _variant == "code16" else (lambda c: c)
        for t in tokens:
            if t["a"] == "in":
                for o in t["arm"]:
                    cmds.append(okc({"c": "arm", "o": o, "code": 135}))
                pk = [ep_pkt(p, ver, vary, npub) for p in t["pk"]]
                cmds.append({"c": "in", "p": pk[0]} if len(pk) == 1 else {"c": "in", "pkts": pk})
            elif t["a"] == "c":
                cmds.append(okc(dict({"c": "complete", "h": t["h"], "o": t["o"], "code": 135}, **({"read": "all"} if t.get("rd") else {}))))
            elif t["a"] == "x":
                cmds += EP_ENDS[t["o"]]
            else:
                raise ValueError(t)
        cmds.append({"c": "drain"})
        return cfg, cmds
    return dec


def inb_configs(tier):
    T, F = "TRUE", "FALSE"
    cs = []
    n = 3 if tier == "quick" else 4
    for ver in (3, 5):
        for role in ("server", "client"):
            srv = role == "server"
            base = [
                ("pub", dict(ids="Ids12", n=n, kinds="KPub" if srv else "KPub01", outs="OAll", imm=T, gp=F)),
                ("ord", dict(ids="Ids12", n=n, kinds="KAll" if srv else "KPub01", outs="OOk", imm=T, gp=T if srv else F)),
                ("ids", dict(ids="Ids1", n=n + 1, kinds="KIds" if srv else "KPub1", outs="ONack", imm=F, gp=F)),
            ]
            # three QoS 1 publishes with distinct identifiers and every arrival / completion order, small enough for every
            # behaviour to be replayed in quick (the inline slot of the io dispatcher free while its queue is not empty,
            # responses of younger requests parked behind an older one, ...)
            base.append(("q1x3", dict(ids="Ids123", n=3, kinds="KPub1", outs="OOk", imm=F, gp=F), 6000))
            if srv:
                # one identifier, QoS 1 / QoS 2 publishes and PUBREL with gated protocol handlers, every order: the
                # identifier stays reserved until PUBCOMP has been produced (not only until PUBREL has arrived)
                base.append(("q2rel", dict(ids="Ids1", n=3, kinds="KPub12", outs="OOk", imm=F, gp=T), 5000))
            if not srv:
                # PUBREL towards a client for an identifier that is not in flight (answered by the library itself) between
                # publishes whose handlers are pending: the answer keeps its place in the order
                base.append(("rel", dict(ids="Ids12", n=3, kinds="KPub1Rel", outs="OOk", imm=F, gp=F), 3000))
            # streamed payloads: a PUBLISH of 12 bytes of which 4 come with the header, pieces of 4 / 8 bytes, the last
            # piece alone or in one write with the next PUBLISH; handlers that read the payload to its end or abandon it
            base.append(("strm", dict(ids="Ids12", n=n + 2, kinds="KStrm", chunks="C48", outs="OOk", imm=F, gp=F, strict=3)))
            # ... the same with one streamed publish and its pieces only: small enough for every behaviour to be replayed
            base.append(("strm1", dict(ids="Ids1", n=4, kinds="KStrm1", chunks="C48", outs="OOk", imm=F, gp=F, strict=3, mc=4)))
            base.append(("strm4", dict(ids="Ids12", n=n + 2, kinds="KStrm", chunks="C48", outs="OOk", imm=F, gp=F, strict=3, mc=4)))
            if not srv:
                # QoS 2 towards a client: known finding (acknowledged with PUBACK), kept small
                base.append(("q2", dict(ids="Ids1", n=2, kinds="KPub2", outs="OOk", imm=T, gp=F)))
            for item in base:
                name, p = item[0], item[1]
                p = dict(INB_DEFAULTS, **dict(p, ver=ver, role=role))
                cs.append((f"v{ver}{role[0]}_{name}", INB_CFG.format(**p), "MC_Endpoint", inb_decode_for(p),
                           [None, "code16", "rpi0"] if ver == 5 and srv and name in ("pub", "ids") else [None]) + tuple(item[2:]))
    return cs


def inb_tok2rec(t):
    return t


def inb_project(e):
    # h_start.r carries the PUBLISH flags the handler saw, h_end.r the armed code (decided by ProtoMon's C03
    # rules, not by the model); x: only the topic a publish handler was given is compared
    hr = e["e"] == "h_read"
    return dict(e=e["e"], k=e["k"], s=e["s"], id=0 if hr else e["id"], q=0 if hr else e["q"], r=0 if e["e"] in ("h_start", "h_end", "ctl") else e["r"],
                x=e["x"] if e["e"] == "h_start" and e["k"] == "pub" else "")


def inb_random(tier, rnd):
    runs = []
    for _ in range(300 if tier == "quick" else 3000):
        ver = rnd.choice([3, 5])
        role = rnd.choice(["server", "server", "client"])
        cfg = dict(role=role, ver=ver, gate_pub=1, gate_proto=rnd.choice([0, 1]) if role == "server" else 0,
                   max_qos=2, max_receive=0 if ver == 3 else 16, max_receive_size=0)
        cmds = [handshake(role, ver)]
        kinds = ["pub0", "pub1", "pub1"] + (["pub2", "pubrel", "sub", "unsub", "ping"] if role == "server" else [])
        nid = 1
        nctl = 0
        for _ in range(rnd.randint(5, 60)):
            x = rnd.random()
            if x < 0.5:
                k = rnd.choice(kinds)
                if k in ("sub", "unsub", "ping", "pubrel"):
                    nctl += 1
                    if nctl > 10:      # keep the sequential control pipeline (buffer of 16) from filling up
                        continue
                if k in ("pub1", "pub2", "sub", "unsub"):
                    i = nid
                    nid = nid % 60 + 1
                else:
                    i = 0
                if rnd.random() < 0.3:
                    cmds.append({"c": "arm", "o": "ok"})
                if k.startswith("pub") and k != "pubrel":
                    q = int(k[3])
                    cmds.append({"c": "in", "p": {"t": "publish", "q": q, "id": i, "topic": "t", "plen": rnd.randint(0, 40)}})
                elif k == "pubrel":
                    cmds.append({"c": "ack", "n": 1})      # orderly peer: PUBREL for the oldest PUBREC
                elif k == "sub":
                    cmds.append({"c": "in", "p": {"t": "subscribe", "id": i}})
                elif k == "unsub":
                    cmds.append({"c": "in", "p": {"t": "unsubscribe", "id": i}})
                else:
                    cmds.append({"c": "in", "p": {"t": "pingreq"}})
            else:
                cmds.append({"c": "complete", "j": rnd.randint(0, 3), "o": "ok"})
        cmds.append({"c": "drain"})
        runs.append(dict(cfg=cfg, cmds=cmds, src="random"))
    return runs


def inb_signature(v):
    cfg = v["cfg"]
    kinds = sorted({(c["p"]["t"] + (str(c["p"].get("q", "")) if c["p"]["t"] == "publish" else ""))
                    for c in v["cmds"] if c.get("c") == "in" and "p" in c and c["p"]["t"] not in ("connect", "connack")})
    return f"{v['why']}|v{cfg.get('ver')}|{cfg.get('role')}|{'+'.join(kinds)}"


reg(dict(
    name="inbound", judge="ProtoJudge", configs=inb_configs, extra_runs=inb_random, signature=inb_signature,
    conform=dict(module="EndpointConform", tok2rec=inb_tok2rec, tail=1, project=inb_project),
    level={}, quota=300,
    rule="every transition of the bounded TLC state graph of Endpoint.tla / MC_Endpoint (packet sequences x handler "
         "completion orders x immediate/deferred handlers) is a replay candidate; quick replays a seeded sample, "
         "thorough all; plus random long runs; every run ends with `drain` (all gates opened, final check)",
    assumptions=[
        "bounds of the TLC configurations listed under coverage.tlc (ids, packets, kinds, outcomes)",
        "handlers complete only on command (gates) or inside the call (pre-armed)",
        "limits (max_receive, receive maximum, sizes) are kept out of the way in this group; C12 covers them",
        "the harness tokeniser (independent of the crate codec) reports the wire faithfully",
    ]), ["C03", "C04", "C11"])


# =============================================================================================
# group "pktseq": C16  (PktSeq.tla generator + ProtoMon.tla)

PKTSEQ_CFG = """SPECIFICATION ExportSpec
CONSTANTS
  NT = {nt}
  MaxLen = {maxlen}
  MinLen = {minlen}
CHECK_DEADLOCK FALSE
"""


def c16_templates(ver):
    t = [
        [{"t": "connect", "ka": 0}],
        [{"t": "connack", "rc": 0}],
        [{"t": "publish", "q": 0, "topic": "t", "plen": 2}],
        [{"t": "publish", "q": 1, "id": 1, "topic": "t", "plen": 2}],
        [{"t": "publish", "q": 1, "id": 2, "topic": "t", "plen": 0}],
        [{"t": "publish", "q": 2, "id": 1, "topic": "t", "plen": 2}],
        [{"t": "publish", "q": 2, "id": 2, "topic": "t", "plen": 2}],
        [{"t": "publish", "q": 1, "id": 3, "topic": "t", "plen": 8, "send": 3}, {"t": "payload", "n": 5}],
        [{"t": "publish", "q": 1, "id": 9, "topic": "t", "plen": 8, "send": 3}, {"t": "payload", "n": 5}],
        [{"t": "puback", "id": 1}],
        [{"t": "puback", "id": 2}],
        [{"t": "pubrec", "id": 1}],
        [{"t": "pubrel", "id": 1}],
        [{"t": "pubrel", "id": 2}],
        [{"t": "pubcomp", "id": 1}],
        [{"t": "subscribe", "id": 1}],
        [{"t": "suback", "id": 1}],
        [{"t": "unsubscribe", "id": 1}],
        [{"t": "unsuback", "id": 1}],
        [{"t": "pingreq"}],
        [{"t": "pingresp"}],
        [{"t": "disconnect"}],
        [{"t": "publish", "q": 1, "id": 9, "topic": "t", "plen": 1}],
    ]
    if ver == 5:
        t.append([{"t": "auth", "rc": 0}])
        t.append([{"t": "disconnect", "rc": 4, "sei": 10}])
    return t


C16_QOS2 = [6, 7, 13, 14, 12, 15, 20, 4]     # q2 id1, q2 id2, pubrel 1, pubrel 2, pubrec 1, pubcomp 1, pingreq, q1 id1


def c16_decode_for(ver, role, subset=None):
    tmpl = c16_templates(ver)
    if subset:
        tmpl = [tmpl[i - 1] for i in subset]

    def dec(tokens, variant):
        cfg = dict(role=role, ver=ver, gate_pub=0, gate_proto=0, max_qos=2, max_receive=16)
        cmds = []
        if variant != "nohs":
            cmds.append(handshake(role, ver))
        if variant == "slowctl":
            cfg["gate_proto"] = 1               # protocol handlers answer only when the run drains
        if variant == "busy":
            cmds += [{"c": "gate", "what": "pub", "on": 1},
                     {"c": "in", "p": {"t": "publish", "q": 1, "id": 9, "topic": "t", "plen": 1}},
                     {"c": "gate", "what": "pub", "on": 0},
                     {"c": "send", "s": 1, "k": "q1", "id": 0}, {"c": "poll", "s": 1},
                     {"c": "send", "s": 2, "k": "q2", "id": 0}, {"c": "poll", "s": 2}]
            if role == "client":
                cmds += [{"c": "send", "s": 3, "k": "sub", "id": 0}, {"c": "poll", "s": 3}]
            cmds += [{"c": "send", "s": 4, "k": "stream1", "id": 0, "plen": 6}, {"c": "poll", "s": 4},
                     {"c": "chunk", "s": 4, "n": 2}]
        for t in tokens:
            for p in tmpl[t - 1]:
                cmds.append({"c": "in", "p": p})
        if variant == "busy":
            cmds.append({"c": "pollall"})       # the waiting senders see what the packets did to them
        cmds.append({"c": "drain"})
        return cfg, cmds
    return dec


def c16_model_configs(tier):
    """every sequence of packets of ANY type (18 / 20 kinds incl. the ones the role must not receive) against armed
    and gated handlers, explored on the implementation-shaped model, replayed, validated event by event"""
    T, F = "TRUE", "FALSE"
    q = 600 if tier == "quick" else 8000
    return [ep_config(f"m_v{ver}{role[0]}_any", quota=q, ver=ver, role=role, ids="Ids1", n=2 if tier == "quick" else 3,
                      kinds="KAny", outs="OErr", imm=T, gp=T if role == "server" else F)
            for ver in (3, 5) for role in ("server", "client")]


def c16_configs(tier):
    cs = c16_model_configs(tier)
    for ver in (3, 5):
        nt = len(c16_templates(ver))
        for role in ("server", "client"):
            if tier == "quick":
                cs.append((f"v{ver}{role[0]}_l2", PKTSEQ_CFG.format(nt=nt, maxlen=2, minlen=1), "PktSeq",
                           c16_decode_for(ver, role), ["idle", "busy", "nohs"]))
                cs.append((f"v{ver}{role[0]}_l3", PKTSEQ_CFG.format(nt=nt, maxlen=3, minlen=3), "PktSeq",
                           c16_decode_for(ver, role), ["idle", "busy"] + (["slowctl"] if role == "server" else [])))
            else:
                cs.append((f"v{ver}{role[0]}_l3", PKTSEQ_CFG.format(nt=nt, maxlen=3, minlen=1), "PktSeq",
                           c16_decode_for(ver, role), ["idle", "busy", "nohs"] + (["slowctl"] if role == "server" else [])))
            if role == "server":
                # the QoS 2 exchange against slow protocol handlers: every sequence up to 4 (5) over 8 packets
                cs.append((f"v{ver}s_q2", PKTSEQ_CFG.format(nt=len(C16_QOS2), maxlen=4 if tier == "quick" else 5, minlen=2), "PktSeq",
                           c16_decode_for(ver, role, C16_QOS2), ["slowctl", "busy"], 1000000))
    return cs


def c16_random(tier, rnd):
    runs = []
    for _ in range(200 if tier == "quick" else 3000):
        ver = rnd.choice([3, 5])
        role = rnd.choice(["server", "client"])
        nt = len(c16_templates(ver))
        toks = [rnd.randint(1, nt) for _ in range(rnd.randint(4, 8))]
        cfg, cmds = c16_decode_for(ver, role)(toks, rnd.choice(["idle", "busy"]))
        runs.append(dict(cfg=cfg, cmds=cmds, src="random"))
    return runs


reg(dict(
    name="pktseq", judge="ProtoJudge", configs=c16_configs, extra_runs=c16_random, signature=inb_signature,
    level={}, quota=700, quota_thorough=40000,
    rule="TLC enumerates every sequence of <= 3 packet templates (23 for v3, 25 for v5: every packet type incl. the "
         "ones the role must not receive, ids {1,2,9}, QoS 0-2, streamed PUBLISH + chunk, duplicate-id streamed PUBLISH, "
         "every ack kind); each sequence is run after the handshake against idle and busy application state and "
         "instead of the handshake; random sequences of length 4-8; judged by ProtoMon (panic, hang at final)",
    assumptions=[
        "the generator is a plain enumeration spec (PktSeq.tla); the expected outcome is the monitor, there is no implementation-shaped model of all 25 packet types",
        "busy state = one gated publish handler, outstanding QoS 1 / QoS 2 (client: subscribe) sends and a streamed send in progress",
        "hang = bytes left unread by a live connection after every gate was opened (`final`)",
    ]), ["C16"])


# =============================================================================================
# group "alias": C17  (PktSeq.tla generator + ProtoMon.tla alias rules)

ALIAS_T = [(t, a) for t in ("a", "b", "") for a in (0, 1, 2, 3) if not (t == "" and a == 0)]   # 11 templates


def c17_decode_for(ver, role, router, warm):
    def dec(tokens, variant):
        # strict = 17: every protocol violation these sequences can contain is an alias violation the monitor
        # computes itself, so a protocol-error stop it did not ask for is a violation (a valid alias refused)
        cfg = dict(role=role, ver=5, gate_pub=0, max_qos=2, max_receive=16, strict=17)
        if role == "server":
            cfg["max_topic_alias"] = 2
        else:
            cfg["client_topic_alias_max"] = 2
        if router:
            cfg["router"] = 1
        if warm:
            # another connection through the same server binds aliases 1 and 2 the other way round
            cfg["warm"] = [{"t": "publish", "q": 0, "topic": "b", "alias": 1, "plen": 1},
                           {"t": "publish", "q": 0, "topic": "a", "alias": 2, "plen": 1}]
        cmds = [handshake(role, 5)]
        for i, t in enumerate(tokens):
            topic, alias = ALIAS_T[t - 1]
            p = {"t": "publish", "q": 1 if i % 2 else 0, "id": i + 1, "topic": topic, "plen": 1}
            if alias:
                p["alias"] = alias
            cmds.append({"c": "in", "p": p})
        cmds.append({"c": "drain"})
        return cfg, cmds
    return dec


def c17_configs(tier):
    T, F = "TRUE", "FALSE"
    n = 3 if tier == "quick" else 4
    cs = [ep_config(f"m_v5{r[0]}", quota=700 if tier == "quick" else 8000, ver=5, role=r, ids="Ids12", n=n, kinds="KNone",
                    extra="XAlias" if tier == "quick" else "XAliasQ1", outs="OOk", imm=T, gp=F, am=2, strict=17)
          for r in ("server", "client")]
    L = 3 if tier == "quick" else 4
    for role, router, warm in (("server", 0, 0), ("server", 1, 0), ("server", 0, 1), ("server", 1, 1),
                               ("client", 0, 0), ("client", 1, 0)):
        cs.append((f"{role[0]}_r{router}_w{warm}", PKTSEQ_CFG.format(nt=len(ALIAS_T), maxlen=L, minlen=1), "PktSeq",
                   c17_decode_for(5, role, router, warm), [None]))
    return cs


def c17_extra(tier, rnd):
    """aliases (re)bound by publishes that are themselves dropped: the server is configured to go on handling
    QoS 0 after the connection was closed (handle_qos_after_disconnect), a publish handler closes the connection,
    and the read buffer still holds a QoS 1 PUBLISH that binds an alias and QoS 0 publishes that use it"""
    runs = []
    pub = lambda **kw: dict({"t": "publish", "q": 0, "topic": "t", "plen": 1}, **kw)
    for first in ("a", None):
        for t2 in ("b", "a"):
            cfg = dict(role="server", ver=5, gate_pub=0, max_qos=1, max_receive=16, max_topic_alias=2,
                       handle_qos_after_disconnect=0)
            cmds = [handshake("server", 5)]
            if first:
                cmds.append({"c": "in", "p": pub(topic=first, alias=1)})
            cmds += [{"c": "arm", "o": "fclose"},
                     {"c": "in", "pkts": [pub(topic="x"), pub(q=1, id=1, topic=t2, alias=1), pub(topic="", alias=1), pub(topic="", alias=1)]},
                     {"c": "drain"}]
            runs.append(dict(cfg=cfg, cmds=cmds, src="after_disconnect"))
    # aliases carried by a PUBLISH that is refused because its packet id is still in use (handler of the first one
    # gated): the peer has bound the alias all the same, and a bad alias ends the connection whatever the id
    for role in ("server", "client"):
        cfg = dict(role=role, ver=5, gate_pub=1, gate_proto=0, max_qos=2, max_receive=16, max_receive_size=0, strict=17)
        cfg["max_topic_alias" if role == "server" else "client_topic_alias_max"] = 2
        p = lambda **kw: {"c": "in", "p": dict({"t": "publish", "q": 1, "id": 1, "topic": "a", "plen": 1, "fill": 99}, **kw)}
        q0 = lambda **kw: {"c": "in", "p": dict({"t": "publish", "q": 0, "id": 0, "topic": "b", "plen": 1, "fill": 97}, **kw)}
        hs = handshake(role, 5, connect={"rm": 16}) if role == "server" else handshake(role, 5)
        for mid in ([q0(alias=1), p(topic="", alias=1), p(alias=1), q0(topic="", alias=1)],      # rebinding by a refused publish
                    [q0(alias=1), p(alias=1), p(alias=3)],                                          # above the maximum
                    [q0(topic="a", alias=1), p(topic="", alias=1), p(topic="", alias=2)],           # unbound
                    [p(), p(topic="b", alias=2), q0(topic="", alias=2)]):                           # first binding by a refused publish
            runs.append(dict(cfg=cfg, cmds=[hs] + mid + [{"c": "drain"}], src="alias_dup_id"))
    # Topic Alias Maximum 0: the endpoint accepts no alias at all (0 does not mean "no limit"); maximum 1: alias 1 is
    # the only one
    for role in ("server", "client"):
        for amax, alias in ((0, 1), (0, 2), (1, 1), (1, 2)):
            cfg = dict(role=role, ver=5, gate_pub=0, gate_proto=0, max_qos=2, max_receive=16, max_receive_size=0, strict=17)
            cfg["max_topic_alias" if role == "server" else "client_topic_alias_max"] = amax
            hs = handshake(role, 5, connect={"rm": 16}) if role == "server" else handshake(role, 5)
            runs.append(dict(cfg=cfg, src="alias_max_%d" % amax,
                             cmds=[hs, {"c": "in", "p": {"t": "publish", "q": 0, "id": 0, "topic": "a", "plen": 1, "fill": 97, "alias": alias}},
                                   {"c": "in", "p": {"t": "publish", "q": 0, "id": 0, "topic": "", "plen": 1, "fill": 97, "alias": alias}},
                                   {"c": "drain"}]))
    return runs


reg(dict(
    name="alias", judge="ProtoJudge", configs=c17_configs, signature=inb_signature, extra_runs=c17_extra,
    level={}, quota=700, quota_thorough=20000,
    rule="TLC enumerates every sequence (length <= 3 quick, <= 4 thorough) over 11 publish templates = topics "
         "{a, b, none} x aliases {none, 1, 2, 3 (above the advertised maximum 2)}: bind, rebind to the other topic, use, "
         "use unbound, exceed maximum; v5 server and client, with and without the topic router, and with a concurrent "
         "connection through the same server instance that binds the same aliases to the other topics",
    assumptions=[
        "generator is the enumeration spec PktSeq.tla; expectation = alias rules of ProtoMon (binding map built from in tokens)",
        "the client+router variant has no connection-control service: the protocol error is observed as connection completion",
    ]), ["C17"])


# =============================================================================================
# group "disc": C15  (PktSeq.tla generator + ProtoMon.tla DISCONNECT rules)

def c15_templates(role):
    """token -> list of harness commands"""
    pub = lambda **kw: {"c": "in", "p": dict({"t": "publish", "topic": "t", "plen": 1}, **kw)}
    cause = lambda k: {"c": "mark", "e": "cause", "k": k}
    t = [
        [{"c": "close", "k": "close"}],
        [{"c": "close", "k": "reason", "code": 0x8b}],
        [{"c": "close", "k": "no_reason"}],
        [{"c": "arm", "ctl": 1, "o": "own", "code": 0x8b}, {"c": "mark", "e": "app_disc"}],
        [{"c": "arm", "o": "err"}, pub(q=1, id=7)],
        [cause("alias"), pub(q=0, topic="", alias=2)],
        [cause("alias"), pub(q=0, topic="", alias=9)],           # unmapped alias that is also above the maximum
        [{"c": "in", "p": {"t": "disconnect"}}],
        [{"c": "in", "p": {"t": "disconnect", "rc": 4, "sei": 10}}],
        [{"c": "in", "p": {"t": "disconnect", "sei": 0}}],      # Session Expiry Interval present with value 0
        [{"c": "gate", "what": "pub", "on": 1}, pub(q=1, id=8), cause("recvmax"), pub(q=1, id=9),
         {"c": "gate", "what": "pub", "on": 0}],
    ]
    t += [
        # the application's handler fails for the peer's DISCONNECT: nothing may be written after the peer's packet
        [{"c": "arm", "o": "err"}, {"c": "in", "p": {"t": "disconnect"}}],
        # the handler for the peer's DISCONNECT is still running when the application closes the connection
        [{"c": "gate", "what": "proto", "on": 1}, {"c": "in", "p": {"t": "disconnect"}}, {"c": "close", "k": "close"},
         {"c": "gate", "what": "proto", "on": 0}, {"c": "complete", "j": 0, "o": "ok"}],
        [{"c": "gate", "what": "proto", "on": 1}, {"c": "in", "p": {"t": "disconnect"}}, {"c": "close", "k": "reason", "code": 0x8b},
         {"c": "gate", "what": "proto", "on": 0}, {"c": "complete", "j": 0, "o": "ok"}],
    ]
    # ordinary traffic that is answered (PUBACK, and PINGRESP on a server): after any of the initiators above it shows
    # whether the connection really ended - "writes nothing after its own DISCONNECT"
    t += [[pub(q=1, id=11)]]
    if role == "server":
        t += [
            [{"c": "in", "p": {"t": "pingreq"}}],
            [{"c": "arm", "o": "disc"}, {"c": "mark", "e": "app_disc"}, {"c": "in", "p": {"t": "pingreq"}}],
            [{"c": "arm", "o": "disc_with", "code": 0x89}, {"c": "mark", "e": "app_disc"}, {"c": "in", "p": {"t": "pingreq"}}],
            [cause("qos"), pub(q=2, id=5)],
            [cause("retain"), pub(q=1, id=6, retain=1)],
            [cause("subid"), {"c": "in", "p": {"t": "subscribe", "id": 4, "subid": 3}}],
            [cause("toolarge"), pub(q=0, plen=100)],
        ]
    else:
        t += [
            [{"c": "arm", "o": "disc_with", "code": 0x89}, {"c": "mark", "e": "app_disc"}, pub(q=0)],
        ]
    return t


def c15_decode_for(role):
    tmpl = c15_templates(role)

    def dec(tokens, variant):
        cfg = dict(role=role, ver=5, gate_pub=0, gate_proto=0, max_receive=16)
        if role == "server":
            cfg.update(max_qos=1, ack_retain_available=0, ack_sub_ids_available=0, max_topic_alias=2,
                       ack_receive_max=1, ack_max_packet_size=64, max_size=64)
            cmds = [handshake(role, 5)]
        else:
            cfg.update(client_receive_max=1, client_topic_alias_max=2)
            cmds = [handshake(role, 5)]
        for t in tokens:
            cmds += tmpl[t - 1]
        cmds.append({"c": "drain"})
        return cfg, cmds
    return dec


def c15_configs(tier):
    cs = []
    for role in ("server", "client"):
        nt = len(c15_templates(role))
        L = 2 if tier == "quick" else 3
        cs.append((f"{role[0]}_l{L}", PKTSEQ_CFG.format(nt=nt, maxlen=L, minlen=1), "PktSeq", c15_decode_for(role), [None]))
        if tier == "quick":
            cs.append((f"{role[0]}_l3", PKTSEQ_CFG.format(nt=nt, maxlen=3, minlen=3), "PktSeq", c15_decode_for(role), [None]))
    return cs


def c15_extra(tier, rnd):
    """the application's publish service takes its time to shut down (Service::shutdown completes on command) and a
    publish handler that was in flight finishes meanwhile: after the endpoint's own DISCONNECT nothing may be written"""
    runs = []
    pub = lambda **kw: {"c": "in", "p": dict({"t": "publish", "topic": "t", "plen": 1}, **kw)}
    causes = {
        "violation": [pub(q=0, topic="a/#")],
        "handler_error": [{"c": "arm", "o": "err"}, pub(q=1, id=7)],
        "undecodable": [{"c": "in", "p": {"t": "raw", "hex": "00 00"}}],
    }
    for name, cause in causes.items():
        for late in (1, 2):
            cfg = dict(role="server", ver=5, gate_pub=1, gate_proto=0, max_qos=2, max_receive=16, slow_shutdown=1)
            cmds = [handshake("server", 5), pub(q=1, id=1), pub(q=2, id=2)] + cause
            cmds += [{"c": "complete", "h": 2, "o": "ok"}] + ([{"c": "complete", "h": 3, "o": "ok"}] if late == 2 else [])
            cmds += [{"c": "complete", "j": 99, "o": "ok"}, {"c": "drain"}]
            runs.append(dict(cfg=cfg, cmds=cmds, src="slow_shutdown_" + name))
    # the crate's DEFAULT control services (the application installs neither .protocol() nor .control()): the
    # DISCONNECT of each error path, and orderly / disorderly ends with handlers in flight
    for name, cfgx, cause in (
            ("qos", dict(max_qos=1), [{"c": "mark", "e": "cause", "k": "qos"}, pub(q=2, id=5)]),
            ("retain", dict(max_qos=2, ack_retain_available=0), [{"c": "mark", "e": "cause", "k": "retain"}, pub(q=1, id=6, retain=1)]),
            ("alias", dict(max_qos=2), [{"c": "mark", "e": "cause", "k": "alias"}, pub(q=0, topic="", alias=2)]),
            ("toolarge", dict(max_qos=2, ack_max_packet_size=64, max_size=64), [{"c": "mark", "e": "cause", "k": "toolarge"}, pub(q=0, plen=100)]),
            ("handler_error", dict(max_qos=2), [{"c": "arm", "o": "err"}, pub(q=1, id=7)]),
            ("undecodable", dict(max_qos=2), [{"c": "in", "p": {"t": "raw", "hex": "00 00"}}]),
            ("peer_disconnect", dict(max_qos=2), [{"c": "in", "p": {"t": "disconnect"}}]),
            ("peer_close", dict(max_qos=2), [{"c": "peer_close"}]),
            ("ping", dict(max_qos=2), [{"c": "in", "p": {"t": "pingreq"}}])):
        for busy in (0, 1):
            cfg = dict(dict(role="server", ver=5, gate_pub=1, gate_proto=0, max_receive=16, max_topic_alias=2, default_ctl=1), **cfgx)
            cmds = [handshake("server", 5)] + ([pub(q=1, id=1)] if busy else []) + cause + [{"c": "drain"}]
            runs.append(dict(cfg=cfg, cmds=cmds, src="default_services_" + name))
    # one restriction in force at a time, the offending PUBLISH carrying every combination of the other flags: the
    # DISCONNECT names the restriction that was violated, not one that the packet merely touches
    mark = lambda k: {"c": "mark", "e": "cause", "k": k}
    for restr, cfgx, base in (("qos", dict(max_qos=1), dict(q=2, id=5)), ("qos", dict(max_qos=0), dict(q=1, id=5)),
                              ("retain", dict(max_qos=2, ack_retain_available=0), dict(q=1, id=6, retain=1)),
                              ("retain", dict(max_qos=2, ack_retain_available=0), dict(q=2, id=6, retain=1))):
        for retain in ((0, 1) if restr == "qos" else (1,)):
            for dup in (0, 1):
                cfg = dict(dict(role="server", ver=5, gate_pub=0, gate_proto=0, max_receive=16, max_topic_alias=2), **cfgx)
                runs.append(dict(cfg=cfg, src="one_restriction_" + restr,
                                 cmds=[handshake("server", 5), mark(restr), pub(**dict(base, retain=retain, dup=dup)), {"c": "drain"}]))
    return runs


reg(dict(
    name="disc", judge="ProtoJudge", configs=c15_configs, signature=inb_signature, extra_runs=c15_extra,
    level={}, quota=650, quota_thorough=20000,
    rule="TLC enumerates every sequence of <= 3 close initiators out of 22 (server) / 16 (client), two of them ordinary answered traffic, (incl. a failing and a slow handler for the peer's DISCONNECT with a close() meanwhile): application close / "
         "close_with_reason / close_with_no_reason, protocol handler disconnect / disconnect_with, control service "
         "supplying its own DISCONNECT, handler error, peer DISCONNECT without, with a non-zero and with a zero Session Expiry Interval, and the "
         "protocol violations with dedicated codes (QoS, retain, subscription identifiers, topic alias, packet too "
         "large, receive maximum); ProtoMon judges count, position and reason code of DISCONNECT on the wire",
    assumptions=[
        "generator = enumeration spec PktSeq.tla; the expected reason code is computed by the monitor from the cause marker, not from the crate",
        "keep-alive expiry (0x8D) is covered by C20",
    ]), ["C15"])


# =============================================================================================
# group "limits": C12  (PktSeq.tla generator + ProtoMon.tla limit rules)

def c12_decode_for(kind, maxrecv, size):
    def dec(tokens, variant):
        if kind == "v3s":
            cfg = dict(role="server", ver=3, gate_pub=1, gate_proto=0, max_qos=2, max_receive=maxrecv, max_receive_size=size)
        elif kind == "v5s":
            cfg = dict(role="server", ver=5, gate_pub=1, gate_proto=1, max_qos=2, ack_receive_max=maxrecv, max_receive_size=size)
        elif kind == "v5s_lo":
            # the handshake service announces a Receive Maximum ABOVE the configured default: the announced one counts
            cfg = dict(role="server", ver=5, gate_pub=1, gate_proto=1, max_qos=2, max_receive=1, ack_receive_max=maxrecv, max_receive_size=size)
        elif kind == "v5s_zero":
            # configured "unlimited" (0), the handshake service announces a limit: it has to be enforced
            cfg = dict(role="server", ver=5, gate_pub=1, gate_proto=1, max_qos=2, max_receive=0, ack_receive_max=maxrecv, max_receive_size=size)
        elif kind == "v3c":
            cfg = dict(role="client", ver=3, gate_pub=1, gate_proto=0, max_qos=2, max_receive=maxrecv, max_receive_size=size)
        else:
            cfg = dict(role="client", ver=5, gate_pub=1, gate_proto=0, max_qos=2, client_receive_max=maxrecv, max_receive_size=size)
        cmds = [handshake(cfg["role"], cfg["ver"])]
        nid = 1
        streaming = 0
        for t in tokens:
            if streaming > 0 and t in (1, 2, 3, 4, 6, 9, 10, 11, 12, 13):
                # a well-formed peer finishes the payload before the next packet
                cmds.append({"c": "in", "p": {"t": "payload", "n": streaming}})
                streaming = 0
            if t == 1:      # small QoS 1 publish
                cmds.append({"c": "in", "p": {"t": "publish", "q": 1, "id": nid, "topic": "t", "plen": 1}}); nid += 1
            elif t == 2:    # big QoS 1 publish (around the byte limit)
                cmds.append({"c": "in", "p": {"t": "publish", "q": 1, "id": nid, "topic": "t", "plen": 30}}); nid += 1
            elif t == 3:    # QoS 0
                cmds.append({"c": "in", "p": {"t": "publish", "q": 0, "topic": "t", "plen": 2}})
            elif t == 4:    # streamed QoS 1 publish: header + 4 of 12 payload bytes
                if streaming == 0:
                    cmds.append({"c": "in", "p": {"t": "publish", "q": 1, "id": nid, "topic": "t", "plen": 12, "send": 4}}); nid += 1
                    streaming = 8
            elif t == 5:    # next 4 payload bytes
                if streaming > 0:
                    n = 4 if streaming <= 8 else 30
                    cmds.append({"c": "in", "p": {"t": "payload", "n": n}}); streaming -= n
            elif t == 6:
                if kind.startswith("v5s"):
                    cmds.append({"c": "in", "p": {"t": "subscribe", "id": nid}}); nid += 1
                elif kind == "v3s":
                    cmds.append({"c": "in", "p": {"t": "pingreq"}})
                elif kind == "v3c":
                    cmds.append({"c": "in", "p": {"t": "publish", "q": 0, "topic": "u", "plen": 3}})
                else:
                    cmds.append({"c": "in", "p": {"t": "publish", "q": 2, "id": nid, "topic": "t", "plen": 1}}); nid += 1
            elif t == 7:
                cmds.append({"c": "complete", "j": 0, "o": "ok", "read": "all"})
            elif t == 8:
                cmds.append({"c": "complete", "j": 1, "o": "ok", "read": "all"})
            elif t == 10:   # re-transmission of a publish whose identifier is still in use
                if nid > 1:
                    cmds.append({"c": "in", "p": {"t": "publish", "q": 1, "id": 1, "topic": "t", "plen": 1, "dup": 1}})
            elif t == 13:   # a publish whose bytes are mostly topic: 40 byte topic, 1 byte payload
                cmds.append({"c": "in", "p": {"t": "publish", "q": 1, "id": nid, "topic": "t" * 40, "plen": 1}}); nid += 1
            elif t in (11, 12):   # a burst: several publishes decoded from ONE read (the dispatcher re-checks readiness
                                  # before the calls it spawned had a chance to run)
                pk = []
                for plen in ((1, 1, 1) if t == 11 else (30, 1)):
                    pk.append({"t": "publish", "q": 1, "id": nid, "topic": "t", "plen": plen}); nid += 1
                cmds.append({"c": "in", "pkts": pk})
            elif t == 9:    # streamed QoS 1 publish that alone is larger than the byte limit: header + 4 of 70 bytes
                if streaming == 0:
                    cmds.append({"c": "in", "p": {"t": "publish", "q": 1, "id": nid, "topic": "t", "plen": 70, "send": 4}}); nid += 1
                    streaming = 66
        if streaming > 0:
            cmds.append({"c": "in", "p": {"t": "payload", "n": streaming}})
        cmds.append({"c": "drain", "read": "all"})
        return cfg, cmds
    return dec


def ep_config(name, variants=(None,), quota=None, **p):
    p = dict(INB_DEFAULTS, **p)
    t = (name, INB_CFG.format(**p), "MC_Endpoint", inb_decode_for(p), list(variants))
    return t + ((quota,) if quota else ())


def c12_model_configs(tier):
    """behaviours of the implementation-shaped model (Endpoint.tla) under receive limits: bursts decoded from one
    read, handler completions between arrivals; monitor composed in TLC, replayed, validated event by event"""
    T, F = "TRUE", "FALSE"
    n = 4 if tier == "quick" else 5
    q = 350 if tier == "quick" else 6000
    return [
        ep_config("m_v3s_r1", quota=q, ver=3, role="server", ids="Ids123", n=n, kinds="KLim", extra="XBurst", outs="OOk", imm=F, gp=F, mr=1),
        ep_config("m_v3s_r2", quota=q, ver=3, role="server", ids="Ids123", n=n, kinds="KLim", extra="XBurstCtl", outs="OOk", imm=T, gp=T, mr=2),
        ep_config("m_v3s_s40", quota=q, ver=3, role="server", ids="Ids123", n=n, kinds="KLimBig", extra="XBurst", outs="OOk", imm=F, gp=F, mrs=40),
        ep_config("m_v5s_s40", quota=q, ver=5, role="server", ids="Ids123", n=n, kinds="KLimBig", extra="XBurst", outs="OOk", imm=F, gp=F, mrs=40),
        ep_config("m_v5s_rm1", quota=q, ver=5, role="server", ids="Ids12", n=n, kinds="KPub12", extra="XBurst", outs="ONack", imm=F, gp=F, rm=1),
        ep_config("m_v5s_rm2", quota=q, ver=5, role="server", ids="Ids123", n=n, kinds="KPub12", extra="XBurst", outs="OOk", imm=F, gp=F, rm=2),
        ep_config("m_v5c_rm1", quota=q, ver=5, role="client", ids="Ids12", n=n, kinds="KPub01", extra="XBurst", outs="OOk", imm=F, gp=F, rm=1),
        ep_config("m_v3c_r2", quota=q, ver=3, role="client", ids="Ids123", n=n, kinds="KPub01", extra="XBurst", outs="OOk", imm=F, gp=F, mr=2),
        # a payload that is being streamed when the limit is reached: its remaining pieces are not held back by the
        # limit (count 1; bytes 20 = one publish of 17), the packets behind it are, and reading resumes afterwards
        ep_config("m_v3s_r1_strm", quota=q, ver=3, role="server", ids="Ids12", n=n + 1, kinds="KStrm1", chunks="C48", mc=4, outs="OOk", imm=F, gp=F, mr=1),
        ep_config("m_v3s_s20_strm", quota=q, ver=3, role="server", ids="Ids12", n=n + 1, kinds="KStrm1", chunks="C48", mc=4, outs="OOk", imm=F, gp=F, mrs=20),
        ep_config("m_v5s_s20_strm", quota=q, ver=5, role="server", ids="Ids12", n=n + 1, kinds="KStrm1", chunks="C48", mc=4, outs="OOk", imm=F, gp=F, mrs=20),
    ]


def c12_configs(tier):
    cs = c12_model_configs(tier)
    L = 4 if tier == "quick" else 5
    combos = [("v3s", 1, 0), ("v3s", 2, 0), ("v3s", 0, 40), ("v3s", 2, 40), ("v3s", 0, 0),
              ("v5s", 1, 0), ("v5s", 2, 0), ("v5c", 1, 0), ("v5c", 2, 0), ("v5s", 2, 40), ("v5s_lo", 2, 0), ("v5s_zero", 1, 0),
              ("v3c", 0, 0), ("v3c", 2, 0)]
    if tier == "thorough":
        combos += [("v3s", 3, 0), ("v3s", 4, 0), ("v3s", 1, 40), ("v5s", 3, 0), ("v5s", 4, 0)]
    for kind, mr, size in combos:
        cs.append((f"{kind}_r{mr}_s{size}", PKTSEQ_CFG.format(nt=8, maxlen=L, minlen=2), "PktSeq",
                   c12_decode_for(kind, mr, size), [None]))
    # overlapping streamed publishes around the byte limit (token 9): every sequence up to 3 (quick) / 4
    for kind, mr, size in [("v3s", 0, 40), ("v5s", 2, 40), ("v3s", 2, 40)]:
        cs.append((f"{kind}_r{mr}_s{size}_big", PKTSEQ_CFG.format(nt=9, maxlen=3 if tier == "quick" else 4, minlen=2), "PktSeq",
                   c12_decode_for(kind, mr, size), [None], 100000))
    # bursts (tokens 11, 12: three small / one big + one small publish in one read): every sequence up to 3 (quick) / 4
    for kind, mr, size in [("v3s", 1, 0), ("v3s", 2, 0), ("v3s", 0, 40), ("v3s", 2, 40), ("v5s", 2, 0), ("v5c", 2, 0), ("v3c", 2, 0)]:
        cs.append((f"{kind}_r{mr}_s{size}_burst", PKTSEQ_CFG.format(nt=13, maxlen=3 if tier == "quick" else 4, minlen=1), "PktSeq",
                   c12_decode_for(kind, mr, size), [None], 600 if tier == "quick" else 100000))
    # re-transmitted identifiers (token 10) against the Receive Maximum: every sequence up to 4 (quick) / 5
    for kind, mr in [("v5s", 1), ("v5s", 2), ("v5c", 1)]:
        cs.append((f"{kind}_r{mr}_dup", PKTSEQ_CFG.format(nt=10, maxlen=4 if tier == "quick" else 5, minlen=3), "PktSeq",
                   c12_decode_for(kind, mr, 0), [None], 1000 if tier == "quick" else 100000))
    return cs


reg(dict(
    name="limits", judge="ProtoJudge", configs=c12_configs, signature=inb_signature,
    level={}, quota=300, quota_thorough=15000,
    rule="TLC enumerates every sequence (<= 4 quick, <= 5 thorough) over 8 tokens: small / byte-limit-sized / QoS 0 / "
         "streamed publish, next payload chunk, control packet, complete oldest / second-oldest handler; against gated "
         "handlers for max_receive 0..4, max_receive_size 0/40, v3 default middleware and v5 Receive Maximum (server and "
         "client); ProtoMon judges handler overlap, bytes in flight, 0x93 only beyond the maximum, and at `final` that "
         "everything sent was handled (reading resumed, streamed payload completed)",
    assumptions=[
        "generator = enumeration spec PktSeq.tla; byte accounting in the monitor uses payload sizes (lower bound of packet sizes) with 16 bytes of header slack",
    ]), ["C12"])


# =============================================================================================
# group "teardown": C07  (Faults.tla generator + ProtoMon.tla teardown rules)

FAULT_CFG = """SPECIFICATION ExportSpec
CONSTANTS
  NS = {ns}
  NC = {nc}
  MaxCut = {maxcut}
CHECK_DEADLOCK FALSE
"""


def c07_scenarios(role, ver):
    pub = lambda **kw: {"c": "in", "p": dict({"t": "publish", "topic": "t", "plen": 1}, **kw)}
    s = []
    # S1 publishes in flight with gated handlers
    s.append(({}, [pub(q=1, id=1), pub(q=2 if role == "server" else 1, id=2), pub(q=0)]))
    # S2 streamed payload half received, reader waiting
    s.append(({}, [pub(q=1, id=3, plen=12, send=4), {"c": "complete", "j": 0, "o": "ok", "read": "all"}]))
    # S3 outbound sends awaiting acknowledgements
    s.append(({}, [{"c": "send", "s": 1, "k": "q1", "id": 0}, {"c": "poll", "s": 1},
                   {"c": "send", "s": 2, "k": "q2", "id": 0}, {"c": "poll", "s": 2}]))
    # S4 senders parked on the window
    s.append(({"max_send": 1, "_rm": 1}, [{"c": "send", "s": 1, "k": "q1", "id": 0}, {"c": "poll", "s": 1},
                                           {"c": "send", "s": 2, "k": "q1", "id": 0}, {"c": "poll", "s": 2},
                                           {"c": "send", "s": 3, "k": "ready", "id": 0}, {"c": "poll", "s": 3}]))
    # S5 write back-pressure active (transport stalled, write buffer above the high watermark)
    s.append(({"wr_high": 32, "wr_low": 8}, [{"c": "cap", "n": 0},
                                              {"c": "send", "s": 1, "k": "q1", "id": 0, "plen": 64}, {"c": "poll", "s": 1},
                                              {"c": "send", "s": 2, "k": "q1", "id": 0, "plen": 64}, {"c": "poll", "s": 2},
                                              pub(q=1, id=5)]))
    # S6 idle
    s.append(({}, []))
    # S7 a sender parked on the window has just been notified by an acknowledgement and was not polled yet
    s.append(({"max_send": 1, "_rm": 1}, [{"c": "send", "s": 1, "k": "q1", "id": 0}, {"c": "poll", "s": 1},
                                           {"c": "send", "s": 2, "k": "q1", "id": 0}, {"c": "poll", "s": 2},
                                           {"c": "send", "s": 3, "k": "q2", "id": 0}, {"c": "poll", "s": 3},
                                           {"c": "in", "p": {"t": "puback", "id": 1}}]))
    # S8 the oldest request was answered, a younger one is still pending: the inline slot of the io dispatcher
    #    is free while its response queue is not empty
    s.append(({}, [pub(q=1, id=1), pub(q=0), {"c": "complete", "j": 0, "o": "ok"}]))
    # S9 streamed payload half received, read by a task of its own that outlives the handler (clients: the
    #    publish reaches a `Publish` handler through the topic router, which has no connection-control service)
    s.append((dict({"task_reader": 1}, **({"router": 1} if role == "client" else {})),
              [pub(q=1, id=3, plen=12, send=4), {"c": "complete", "j": 0, "o": "ok"}]))
    if role == "server":
        # S10 a protocol-control handler publishes through the sink and waits for the acknowledgement before it
        #     answers, a second control request is parked behind it: when the connection goes down the send fails,
        #     the handler ends, the parked request is flushed and the connection task completes
        s.append(({"gate_proto": 1}, [{"c": "in", "p": {"t": "subscribe", "id": 1}}, {"c": "complete", "j": 0, "o": "send"},
                                     {"c": "in", "p": {"t": "pingreq"}}]))
    return s


def c07_causes(role, ver):
    mark = lambda k: {"c": "mark", "e": "cause", "k": k}
    c = [
        [mark("stop_peer"), {"c": "peer_close"}],
        [mark("stop_peer"), {"c": "io_err", "dir": "read"}],
        [mark("stop_peer"), {"c": "io_err", "dir": "write"}, {"c": "send", "s": 30, "k": "q0", "id": 0}],
        [mark("stop_proto"), {"c": "in", "p": {"t": "raw", "hex": "00 00"}}],                       # undecodable
        [mark("stop_proto"), {"c": "in", "p": {"t": "publish", "q": 1, "id": 9, "topic": "a/#", "plen": 1}}
         if role == "server" else {"c": "in", "p": {"t": "pingreq"}}],                              # violation
        [mark("stop_error"), {"c": "arm", "o": "err"}, {"c": "in", "p": {"t": "publish", "q": 1, "id": 11, "topic": "t", "plen": 1}}],
        [mark("stop_peer"), {"c": "close", "k": "close"}],
        [mark("stop_peer"), {"c": "close", "k": "force"}],
        [mark("stop_peer"), {"c": "arm", "ctl": 1, "o": "err"}, {"c": "peer_close"}],               # failing Stop handler
        [mark("stop_peer"), {"c": "gate", "what": "stop", "on": 1}, {"c": "peer_close"},
         {"c": "complete", "j": 9, "o": "ok"}],                                                       # slow Stop handler
        [mark("stop_peer"), {"c": "in", "p": {"t": "publish", "q": 1, "id": 12, "topic": "t", "plen": 40}, "upto": 7},
         {"c": "peer_close"}],                                                                        # peer gone inside a frame
    ]
    if role == "server":
        c.append([mark("stop_error"), {"c": "arm", "o": "err"}, {"c": "in", "p": {"t": "pingreq"}}])  # protocol handler error
    # slow Stop handler for the causes the endpoint detects itself: handlers in flight may only be
    # cancelled once the notification has been handled
    c.append([mark("stop_error"), {"c": "gate", "what": "stop", "on": 1}, {"c": "arm", "o": "err"},
              {"c": "in", "p": {"t": "publish", "q": 1, "id": 13, "topic": "t", "plen": 1}}, {"c": "complete", "j": 9, "o": "ok"}])
    c.append([mark("stop_proto"), {"c": "gate", "what": "stop", "on": 1}, {"c": "in", "p": {"t": "raw", "hex": "00 00"}},
              {"c": "complete", "j": 9, "o": "ok"}])
    return c


def c07_decode_for(role, ver):
    scen = c07_scenarios(role, ver)
    causes = c07_causes(role, ver)

    def dec(tokens, variant):
        s, i, c = tokens
        extra, base = scen[s - 1]
        if i > len(base) or c > len(causes):
            return None, None
        if s in (2, 9) and i >= 1 and any(x.get("c") == "in" for x in causes[c - 1]):
            return None, None      # a packet written inside a half-received payload is payload
        if s == 10 and any(x.get("c") == "in" for x in causes[c - 1]):
            return None, None      # (the control pipeline is held by the waiting handler: in-band causes stay unread)
        cfg = dict(role=role, ver=ver, gate_pub=1, gate_proto=0, max_qos=2, max_receive=16)
        cfg.update({k: v for k, v in extra.items() if not k.startswith("_")})
        ck = {"rm": extra["_rm"]} if "_rm" in extra and ver == 5 else None
        cmds = [handshake(role, ver, connack=ck, connect=ck)]
        cmds += base[:i]
        cause = causes[c - 1]
        if variant == "stalled":
            # the peer does not read: a graceful shutdown cannot flush and lingers; senders are polled
            # and a new send is attempted while it does
            if s == 5:
                return None, None
            cmds.append({"c": "cap", "n": 0})
        # the slow-Stop cause completes "the newest gate": resolved by rank at run time
        cmds += [dict(x, j=99) if x.get("c") == "complete" and x.get("j") == 9 else x for x in cause]
        if variant == "stalled":
            cmds += [{"c": "pollall"}, {"c": "send", "s": 40, "k": "q1", "id": 0}, {"c": "poll", "s": 40},
                     {"c": "send", "s": 41, "k": "ready", "id": 0}, {"c": "poll", "s": 41}]
        cmds += [{"c": "cap"}, {"c": "pollall"}, {"c": "drain", "read": "all"}, {"c": "pollall"}]
        return cfg, cmds
    return dec


def c07_model_configs(tier):
    """teardown behaviours of the implementation-shaped model: every cause at every point of every short history of
    gated / armed publish and control handlers, Stop handled at once or on command"""
    T, F = "TRUE", "FALSE"
    n = 3 if tier == "quick" else 4
    q = 400 if tier == "quick" else 8000
    cs = []
    for ver in (3, 5):
        for role in ("server", "client"):
            srv = role == "server"
            cs.append(ep_config(f"m_v{ver}{role[0]}_end", quota=q, ver=ver, role=role, ids="Ids1", n=n,
                                kinds="KEnd" if srv else "KPub01", outs="OErr", imm=T, gp=T if srv else F, ends="EAll"))
            cs.append(ep_config(f"m_v{ver}{role[0]}_slow", quota=q, ver=ver, role=role, ids="Ids12", n=n,
                                kinds="KPub12" if srv else "KPub01", outs="OOk", imm=F, gp=F, ends="EPeer", gs=T))
    return cs


def c07_configs(tier):
    cs = c07_model_configs(tier)
    for ver in (3, 5):
        for role in ("server", "client"):
            ns = len(c07_scenarios(role, ver))
            nc = len(c07_causes(role, ver))
            cs.append((f"v{ver}{role[0]}", FAULT_CFG.format(ns=ns, nc=nc, maxcut=7), "Faults",
                       c07_decode_for(role, ver), [None, "stalled"]))
    return cs


def c07_extra(tier, rnd):
    """always replayed (the quick tier samples the product): the complete scenarios S8 - S10 with every cause"""
    runs = []
    for ver in (3, 5):
        for role in ("server", "client"):
            scen = c07_scenarios(role, ver)
            dec = c07_decode_for(role, ver)
            for s in range(8, len(scen) + 1):
                for c in range(1, len(c07_causes(role, ver)) + 1):
                    for variant in (None, "stalled"):
                        cfg, cmds = dec((s, len(scen[s - 1][1]), c), variant)
                        if cfg is not None:
                            runs.append(dict(cfg=cfg, cmds=cmds, src=f"S{s}_complete"))
    return runs


reg(dict(
    name="teardown", judge="ProtoJudge", configs=c07_configs, signature=inb_signature, extra_runs=c07_extra,
    level={"C07": "fault_enumeration"}, quota=400, quota_thorough=100000,
    rule="TLC enumerates every triple <scenario, step index, cause>: 7 base scenarios (gated publishes in flight, streamed "
         "payload half received with a waiting reader, sends awaiting acks, senders parked on the window, write "
         "back-pressure active, idle, parked sender notified by an ack but not yet polled) x every prefix x 11-12 causes (peer close, read error, write error, undecodable "
         "bytes, protocol violation, publish / protocol handler error, close, force_close, failing and slow Stop "
         "handler, peer gone inside a frame) x v3/v5 x server/client x {peer reading, peer stalled: senders polled and new sends attempted while a graceful shutdown lingers}; the epilogue releases the transport, polls every "
         "send future and opens every gate; ProtoMon judges: exactly one Stop of the cause's class, no handler cancelled "
         "before it was handled, no truncated payload read as complete, no send future left pending, connection task completed",
    assumptions=[
        "keep-alive expiry as a cause is covered by C20 (real time)",
        "generator = enumeration spec Faults.tla; base scenarios and causes are tables in bin/groups.py",
    ]), ["C07"])


# =============================================================================================
# group "stream": C08  (PktSeq.tla generator + StreamMon.tla over the raw byte stream)

C08_WIN1 = [9, 4, 5, 14, 19, 6]      # token subset of the "win1" configurations


def c08_decode_for(ver, role, win1=False, nb=False):
    def dec(tokens, variant):
        cfg = dict(role=role, ver=ver, gate_pub=0, gate_proto=0, max_qos=2, max_receive=16, max_send=1 if win1 else 4, raw=1)
        extra = {"mps": 64, "rm": 1 if win1 else 4} if ver == 5 else None
        cmds = [handshake(role, ver, connack=extra, connect=extra)]
        if nb:
            cmds.append({"c": "ack_cb"})      # the acknowledgement callback non-blocking sends need
        nxt = 1
        cur = 0        # current streaming sender
        if win1:
            # the send window (1) is full and a second publish waits for a slot when the sequence starts
            cmds += [{"c": "send", "s": 1, "k": "q1", "id": 0}, {"c": "poll", "s": 1},
                     {"c": "send", "s": 2, "k": "q1", "id": 0}, {"c": "poll", "s": 2}]
            nxt = 3
            tokens = [C08_WIN1[t - 1] for t in tokens]
        for t in tokens:
            if t == 1:
                cmds.append({"c": "send", "s": nxt, "k": "q0", "plen": 3}); nxt += 1
            elif t == 2:
                cmds += [{"c": "send", "s": nxt, "k": "q1", "id": 0}, {"c": "poll", "s": nxt}]; nxt += 1
            elif t == 3:
                cmds += [{"c": "send", "s": nxt, "k": "q2", "id": 0}, {"c": "poll", "s": nxt}]; nxt += 1
            elif t == 4:
                cmds += [{"c": "send", "s": nxt, "k": "stream1", "id": 0, "plen": 6}, {"c": "poll", "s": nxt}]
                cur = nxt; nxt += 1
            elif t in (5, 6, 7, 21):
                if cur:
                    cmds.append({"c": "chunk", "s": cur, "n": {5: 2, 6: 4, 7: 7, 21: 0}[t], "t": 40 + nxt}); nxt += 1
            elif t == 8:
                if cur:
                    cmds.append({"c": "sdrop", "s": cur}); cur = 0
            elif t == 9:
                cmds.append({"c": "send", "s": nxt, "k": "stream0", "plen": 5}); cur = nxt; nxt += 1
            elif t == 10:
                cmds += [{"c": "send", "s": nxt, "k": "q1", "id": 0, "topic": "x" * 70000}, {"c": "poll", "s": nxt}]; nxt += 1
            elif t == 20:   # non-blocking QoS 1 send (the acknowledgement callback is registered at the start)
                cmds.append({"c": "send", "s": nxt, "k": "q1nb", "id": 0}); nxt += 1
            elif t == 18:   # a streamed publish whose header cannot be encoded; its stream handle is used anyway
                cmds += [{"c": "send", "s": nxt, "k": "stream1", "id": 0, "plen": 6, "topic": "x" * 70000}, {"c": "poll", "s": nxt}]
                cur = nxt; nxt += 1
            elif t == 11:
                cmds += [{"c": "send", "s": nxt, "k": "q1", "id": 0, "plen": 200}, {"c": "poll", "s": nxt}]; nxt += 1
            elif t == 12:
                cmds += [{"c": "send", "s": nxt, "k": "q1", "id": 1}, {"c": "poll", "s": nxt}]; nxt += 1
            elif t == 13:
                cmds += [{"c": "arm", "o": "ok"}, {"c": "in", "p": {"t": "publish", "q": 1, "id": 21, "topic": "t", "plen": 1}}]
            elif t == 14:
                cmds.append({"c": "ack", "n": 1})
            elif t == 15:
                cmds.append({"c": "close", "k": "close"})
            elif t == 16:
                if role == "client":
                    cmds += [{"c": "send", "s": nxt, "k": "sub", "id": 0}, {"c": "poll", "s": nxt}]; nxt += 1
                else:
                    cmds.append({"c": "in", "p": {"t": "pingreq"}})
            elif t == 17:
                cmds.append({"c": "send", "s": nxt, "k": "q0", "id": 7, "plen": 3}); nxt += 1
            elif t == 19:   # every waiting send future is polled (a sender woken by an acknowledgement resumes)
                cmds.append({"c": "pollall"})
        cmds.append({"c": "settle"})
        return cfg, cmds
    return dec


OUT_CFG = """SPECIFICATION ExportSpec
CONSTANTS
  Ver = {ver}
  Role = "{role}"
  Toks <- {toks}
  MaxLen = {n}
VIEW view
INVARIANT TypeOk
CHECK_DEADLOCK FALSE
"""

OUT_TOK = {"q0": 1, "q1": 2, "q2": 3, "s1": 4, "c2": 5, "c4": 6, "c7": 7, "sd": 8, "s0": 9, "q1long": 10, "q1big": 11,
           "q1id1": 12, "in1": 13, "ack": 14, "close": 15, "ctl": 16, "q0id": 17, "s1long": 18, "q1nb": 20, "c0": 21}


def out_decode_for(ver, role, nb=False):
    """behaviours of the write-path model Out.tla: its tokens are the sink-operation tokens of this group"""
    base = c08_decode_for(ver, role, nb=nb)

    def dec(tokens, variant):
        cfg, cmds = base([OUT_TOK[t] for t in tokens], variant)
        return cfg, cmds
    return dec


OUT_CONFORM = dict(module="OutConform", tok2rec=lambda t: dict(t=t), tail=1, cmp=("out", "send_poll", "send_done", "ctl"),
                   project=lambda e: dict(e=e["e"], k=e["k"], s=0 if e["e"] == "ctl" else e["s"], id=e["id"], q=e["q"]),
                   drop=lambda e, r: e["e"] == "ctl" and not e["k"].startswith("stop_"))


def c08_model_configs(tier):
    cs = []
    for ver in (3, 5):
        for role in ("server", "client"):
            cs.append((f"m_v{ver}{role[0]}_all", OUT_CFG.format(ver=ver, role=role, toks="TAll", n=3 if tier == "quick" else 4), "MC_Out",
                       out_decode_for(ver, role), [None], 800 if tier == "quick" else 8000))
            cs.append((f"m_v{ver}{role[0]}_strm", OUT_CFG.format(ver=ver, role=role, toks="TStream", n=4 if tier == "quick" else 5), "MC_Out",
                       out_decode_for(ver, role), [None], 800 if tier == "quick" else 8000))
            cs.append((f"m_v{ver}{role[0]}_empty", OUT_CFG.format(ver=ver, role=role, toks="TEmpty", n=3 if tier == "quick" else 4), "MC_Out",
                       out_decode_for(ver, role), [None], 800 if tier == "quick" else 8000))
            cs.append((f"m_v{ver}{role[0]}_nb", OUT_CFG.format(ver=ver, role=role, toks="TNb", n=3 if tier == "quick" else 4), "MC_Out",
                       out_decode_for(ver, role, nb=True), [None], 800 if tier == "quick" else 8000))
            cs.append((f"m_v{ver}{role[0]}_resp", OUT_CFG.format(ver=ver, role=role, toks="TResp", n=4 if tier == "quick" else 5), "MC_Out",
                       out_decode_for(ver, role), [None], 800 if tier == "quick" else 8000))
    return cs


def c08_configs(tier):
    cs = c08_model_configs(tier)
    for ver in (3, 5):
        for role in ("server", "client"):
            if tier == "quick":
                cs.append((f"v{ver}{role[0]}_l2", PKTSEQ_CFG.format(nt=18, maxlen=2, minlen=1), "PktSeq", c08_decode_for(ver, role), [None]))
                cs.append((f"v{ver}{role[0]}_l4", PKTSEQ_CFG.format(nt=18, maxlen=4, minlen=3), "PktSeq", c08_decode_for(ver, role), [None]))
            else:
                cs.append((f"v{ver}{role[0]}_l4", PKTSEQ_CFG.format(nt=18, maxlen=4, minlen=1), "PktSeq", c08_decode_for(ver, role), [None]))
            # a publish waiting for a window slot while a payload is streamed: every sequence (<= 4 quick, <= 5) over
            # {start streamed QoS 0 / QoS 1 publish, chunk, chunk, acknowledgement, poll all senders}
            cs.append((f"v{ver}{role[0]}_win1", PKTSEQ_CFG.format(nt=len(C08_WIN1), maxlen=4 if tier == "quick" else 5, minlen=2), "PktSeq",
                       c08_decode_for(ver, role, True), [None], 2000 if tier == "quick" else 100000))
    return cs


def c08_extra(tier, rnd):
    """responses the DISPATCHER writes under an outbound limit: MQTT 5 server, the peer announced a small Maximum Packet
    Size, handlers acknowledge QoS 1 / QoS 2 publishes with reason strings and user properties of varied sizes (the
    encoder leaves out what does not fit), each followed by a PINGREQ so that a wrong length swallows the next frame"""
    runs = []
    dresses = [(10, 0), (0, 2), (10, 2), (30, 3), (-1, 3), (3, 1)]
    lims = range(14, 80, 3) if tier == "quick" else range(8, 120)
    for mps in lims:
        for rs, up in dresses:
            for q in (1, 2):
                cfg = dict(role="server", ver=5, gate_pub=0, gate_proto=0, max_qos=2, max_receive=16, max_send=4, raw=1)
                cmds = [handshake("server", 5, connect={"mps": mps, "rm": 4}),
                        {"c": "arm", "o": "ok", "rs": rs, "up": up},
                        {"c": "in", "p": {"t": "publish", "q": q, "id": 21, "topic": "t", "plen": 1}},
                        {"c": "in", "p": {"t": "pingreq"}},
                        {"c": "arm", "o": "nack_ok", "code": 16, "rs": rs, "up": up},
                        {"c": "in", "p": {"t": "publish", "q": q, "id": 22, "topic": "t", "plen": 1}},
                        {"c": "in", "p": {"t": "pingreq"}},
                        {"c": "settle"}]
                runs.append(dict(cfg=cfg, cmds=cmds, src="dressed_acks"))
    return runs


reg(dict(
    name="stream", judge="StreamJudge", configs=c08_configs, extra_runs=c08_extra, signature=lambda v: f"{v['why']}|v{v['cfg']['ver']}|{v['cfg']['role']}|" + "+".join(sorted({c.get('k', c['c']) for c in v['cmds'] if c['c'] in ('send', 'chunk', 'sdrop', 'close')})),
    level={}, quota=500, quota_thorough=30000,
    rule="TLC enumerates every sequence (<= 4) over 17 sink-operation tokens: QoS 0/1/2 sends, QoS 0 with a packet id, streamed QoS 1 and QoS 0 "
         "sends, chunks (exact, short, over-delivery), dropped stream, sends that fail in the encoder (70000-byte topic, "
         "over the peer's Maximum Packet Size, packet id in use), an inbound PUBLISH whose handler response goes through "
         "the dispatcher, peer acknowledgement, close, subscribe/ping; the complete raw byte stream captured on the peer "
         "side is judged by StreamMon (TLA+ frame decoder): valid type/flags, well-formed Remaining Length, PUBLISH frames "
         "carrying exactly their own payload, no bytes left by a failed send, stream ends inside a packet only after an abort",
    assumptions=[
        "payloads are harness fill bytes (0x62 / 0x63) so that a foreign packet inside a payload is recognisable",
        "field-level well-formedness of each packet is the business of C01 (WireJudge); StreamMon checks framing, flags and payload extents",
    ]), ["C08"])


# =============================================================================================
# group "topic": C18  (Topic.tla reference semantics; tables by TLC, differential in the harness,
#                      sampled real answers judged by TLC)

TOPIC_CFG = "SPECIFICATION Spec\nCONSTANT L = {L}\nCHECK_DEADLOCK FALSE\n"


def run_topic(prop, tier, seed):
    import os, sys, time, json, random
    import vlib
    t0 = time.time()
    L = 4 if tier == "quick" else 5
    r = vlib.tlc("MC_Topic", TOPIC_CFG.format(L=L), f"topic_L{L}", workers=1, timeout=3000)
    strings, vf, vn, match = [], [], [], {}
    for a in vlib.prints(r["out"], "S"):
        strings.append(a[0])
        if a[1]:
            vf.append(a[0])
        if a[2]:
            vn.append(a[0])
    for a in vlib.prints(r["out"], "F"):
        match[a[0]] = json.loads(a[1])
    rnd = random.Random(seed)
    alpha = ["a", "b", "$", "é", "漢", "x1", "", "+", "#", "$SYS", "sport", " "]
    extra = []
    for _ in range(3000 if tier == "quick" else 30000):
        f = "/".join(rnd.choice(alpha) for _ in range(rnd.randint(1, 6)))
        if rnd.random() < 0.5:
            tn = "/".join((lv if lv not in ("+", "#") else rnd.choice(["a", "$x", ""])) for lv in f.split("/"))
        else:
            tn = "/".join(rnd.choice(alpha[:7] + ["$SYS", "sport"]) for _ in range(rnd.randint(1, 6)))
        extra.append([f, tn])
    d = os.path.join(vlib.WORK, "runs")
    os.makedirs(d, exist_ok=True)
    tp = os.path.join(d, f"topic_{tier}.table.json")
    op = os.path.join(d, f"topic_{tier}.out.json")
    json.dump(dict(strings=strings, valid_filter=vf, valid_name=vn, match=match, extra_pairs=extra), open(tp, "w"))
    rr = vlib.sh([vlib.MQV, "topic", tp, op, "40" if tier == "quick" else "400"])
    if rr.returncode != 0:
        sys.stderr.write(rr.stdout[-3000:])
        raise vlib.ToolError("harness topic failed")
    res = json.load(open(op))
    verdict = vlib.judge("TopicJudge", op + ".sample.ndjson", f"topic_{tier}", parallel=1)
    viols = [dict(why=v["why"], f=v["f"], t=v["t"]) for v in res["violations"]]
    viols += [dict(why=v["why"], f="(judge sample line)", t="") for v in verdict["viol"]]
    # connection level: SUBSCRIBE / UNSUBSCRIBE whose filter list is all valid (reaches the application, is answered)
    # or contains an invalid filter anywhere in the list (ends the connection with a protocol error); validity is
    # TLC's (Topic.tla), the verdict ProtoMon's
    vfs = set(vf)
    bad = [x for x in strings if x not in vfs and x != ""]
    good = [x for x in vf]
    lists = [[x] for x in rnd.sample(strings[1:], min(len(strings) - 1, 40 if tier == "quick" else 400))]
    for _ in range(60 if tier == "quick" else 600):
        k = rnd.randint(2, 3)
        fl = [rnd.choice(good) for _ in range(k)]
        if rnd.random() < 0.6 and bad:
            fl[rnd.randrange(k)] = rnd.choice(bad)
        lists.append(fl)
    cruns = []
    for fl in lists:
        ok = all(x in vfs for x in fl)
        for ver in (3, 5):
            for kind in ("subscribe", "unsubscribe"):
                cruns.append(dict(cfg=dict(role="server", ver=ver, gate_pub=0, gate_proto=0, max_qos=2, max_receive=16),
                                  cmds=[handshake("server", ver), {"c": "mark", "e": "expect_filters", "k": "ok" if ok else "bad"},
                                        {"c": "in", "p": {"t": kind, "id": 1, "filters": fl}}, {"c": "drain"}], src="filters", fl=fl))
    ctp, _hw = vlib.run_harness("conn", cruns, f"topic_{tier}_conn")
    cverdict = vlib.judge("ProtoJudge", ctp, f"topic_{tier}_conn")
    for v in cverdict["viol"]:
        r_ = cruns[v["run"]] if isinstance(v.get("run"), int) and v["run"] < len(cruns) else None
        viols.append(dict(why=v["why"], f=json.dumps(r_["fl"]) if r_ else "?", t=(f"v{r_['cfg']['ver']} " + r_["cmds"][2]["p"]["t"]) if r_ else ""))
    verdict["runs"] += cverdict["runs"]
    known = vlib.load_known()
    new = []
    seen_known = {}
    for v in viols:
        sig = f"{v['why']}|{v['f']}|{v['t']}"
        k = vlib.match_known(known, prop, sig)
        if k:
            seen_known[k["signature"]] = k
        else:
            new.append(dict(v, signature=sig))
    for k in seen_known.values():
        print(f"KNOWN-FINDING: property={prop} {k['what']}")
    cov = dict(states=len(strings), transitions=res["pairs"] + res["cover_pairs"],
               evaluations=res["pairs"] + res["cover_pairs"] + res["strings"],
               distinct_nontrivial=res["pairs"],      # distinct (valid filter, valid topic name) pairs of the table
               traces_validated_against_impl=verdict["runs"],
               samples=[dict(filter=f, matches=match[f][:6]) for f in list(match)[:: max(1, len(match) // 5)]][:5],
               strings=res["strings"], filter_topic_pairs=res["pairs"], cover_pairs=res["cover_pairs"],
               cover_true=res["cover_true"], judged_by_tlc=verdict["runs"], L=L, exhaustive=True,
               rule=f"TLC enumerates every string over {{a,b,$,/,+,#}} up to length {L}, classifies it with Topic.tla and emits per valid "
                    "filter the set of matching names; the harness evaluates from_str / try_from / the private validator / Display / "
                    "matches_topic on every string and pair and matches_filter on every pair of valid filters (a reported cover must "
                    "be a cover of TLC's match sets); random longer unicode pairs and a sample of the table pairs are judged by TLC "
                    "(TopicJudge) from the recorded real answers",
               tlc=[dict(cfg=f"L{L}", generated=r["generated"], distinct=r["distinct"], wall=r["wall"], cached=r["cached"])])
    vlib.write_evidence(prop, tier, seed, "model_checking", cov, time.time() - t0, len(new),
                        ["universe bounded by L; longer strings only by random generation", "TLC's tables are compared in the harness (Rust) for the bulk, TLC itself judges the sampled and the random answers"])
    if new:
        seen = set()
        for v in new[:10]:
            if v["why"] in seen:
                continue
            seen.add(v["why"])
            p = vlib.write_replay(prop, hashlib_sha(v["signature"]), dict(property=prop, group="topic", **v))
            print(f"VIOLATION property={prop} replay={p}")
            print(f"  reason={v['why']} filter={v['f']!r} topic={v['t']!r}")
        return 1
    print(f"OK property={prop} tier={tier} strings={res['strings']} pairs={res['pairs']} cover_pairs={res['cover_pairs']} judged={verdict['runs']} wall={time.time()-t0:.1f}s")
    return 0


def hashlib_sha(s):
    import hashlib
    return hashlib.sha256(s.encode()).hexdigest()[:10]


def replay_topic(prop, r):
    print("replay: filter", repr(r.get("f")), "topic", repr(r.get("t")), "reason", r.get("why"))
    print("re-run: python3 bin/check.py C18 --tier quick")
    return 0


reg(dict(name="topic", kind="custom", run=run_topic, replay=replay_topic), ["C18"])


# =============================================================================================
# group "handshake": C19  (Prod4.tla generator + HsMon.tla)

PROD4_CFG = "SPECIFICATION ExportSpec\nCONSTANTS\n  D1 = {d1}\n  D2 = {d2}\n  D3 = {d3}\n  D4 = {d4}\nCHECK_DEADLOCK FALSE\n"

# first packets: (descriptor, well-formed CONNECT for which versions)
def c19_firsts():
    f = [
        ({"t": "connect", "level": 4, "ver": 3, "ka": 10}, (3,)),
        ({"t": "connect", "level": 5, "ver": 5, "ka": 10, "rm": 3}, (5,)),
        ({"t": "connect", "level": 5, "ver": 5, "ka": 0}, (5,)),
        ({"t": "connect", "level": 5, "ver": 5, "ka": 21846}, (5,)),       # 1.5 x does not fit 16 bit any more above 43690
        ({"t": "connect", "level": 5, "ver": 5, "ka": 43691}, (5,)),
        ({"t": "connect", "level": 5, "ver": 5, "ka": 65535}, (5,)),
        ({"t": "connect", "level": 4, "ver": 3, "ka": 65535}, (3,)),
        ({"t": "connect", "level": 3, "ver": 3, "ka": 10}, ()),             # unknown level
        ({"t": "connect", "level": 6, "ver": 5, "ka": 10}, ()),             # unknown level
        ({"t": "connect", "level": 4, "ver": 3, "ka": 10, "proto": "MQTX"}, ()),   # unknown protocol name
        ({"t": "connect", "level": 5, "ver": 5, "ka": 10, "proto": "MQIsdp"}, ()),
        ({"t": "connect", "level": 4, "ver": 3, "ka": 10, "cflags": 3}, ()),       # reserved connect flag set
        ({"t": "connect", "level": 5, "ver": 5, "ka": 10, "cflags": 3}, ()),
        ({"t": "publish", "q": 1, "id": 1, "topic": "t", "plen": 1}, ()),
        ({"t": "connack", "rc": 0}, ()),
        ({"t": "puback", "id": 1}, ()),
        ({"t": "subscribe", "id": 1}, ()),
        ({"t": "pingreq"}, ()),
        ({"t": "disconnect"}, ()),
        ({"t": "pubrel", "id": 1}, ()),
    ]
    return f

C19_CUTS = [[], [1], [2], [3, 5], [7], [9], [10, 11], [12], [1, 2, 3, 4, 5, 6, 7, 8, 9, 10, 11, 12, 13, 14, 15]]
C19_OUTCOMES = ["ok", "refuse", "err", "slow"]
# limit combos: (cfg, probe)
C19_LIMITS = [
    ({}, "none"),
    ({"max_send": 4}, "none"),
    ({"max_send": 4, "ack_max_send": 2}, "none"),
    ({"max_send": 2, "ack_max_send": 8}, "none"),
    ({"max_qos": 1}, "qos"),
    ({"max_qos": 2, "ack_max_qos": 0}, "qos"),
    ({"max_qos": 0, "ack_max_qos": 1}, "qos"),
    ({"max_size": 64}, "oversize"),
    ({"max_size": 0, "ack_max_packet_size": 48}, "oversize"),
    ({"max_size": 64, "ack_max_packet_size": 0}, "oversize_ok"),      # the handshake service LIFTS the configured limit
    ({"max_size": 64, "ack_max_packet_size": 200}, "oversize_ok"),    # ... or raises it (also MQTT 3.1.1: HandshakeAck::max_packet_size)
    ({"max_size": 200, "ack_max_packet_size": 48}, "oversize"),       # ... or lowers it
    ({"max_topic_alias": 2}, "alias_over"),
    ({"max_topic_alias": 2}, "alias_at"),
    ({"max_topic_alias": 8, "ack_topic_alias_max": 1}, "alias_over"),
    ({"max_topic_alias": 0}, "alias_over"),                           # 0 = no alias at all, not "no limit"
    ({"max_topic_alias": 8, "ack_topic_alias_max": 0}, "alias_over"),
    ({"max_topic_alias": 0, "ack_topic_alias_max": 1}, "alias_at"),
    ({"ack_keep_alive": 5}, "none"),
    ({"ack_keep_alive": 50}, "none"),
    ({"ack_receive_max": 3, "max_receive": 7}, "none"),
]


def c19_decode_for(endpoint):
    firsts = c19_firsts()

    def dec(tokens, variant):
        a, b, c, d = tokens
        first, okvers = firsts[a - 1]
        cuts = C19_CUTS[b - 1]
        outcome = C19_OUTCOMES[c - 1]
        lim, probe = C19_LIMITS[d - 1]
        if endpoint == "both":
            role, ver = "both", first.get("level", 4) if first.get("level") in (4, 5) else 4
            ver = 5 if first.get("level") == 5 else 3
            served = (3, 5)
        else:
            role, ver = "server", endpoint
            served = (endpoint,)
        wellformed = any(v in served for v in okvers)
        # reduce the product: limits only matter after a well-formed CONNECT that is accepted
        if (not wellformed or outcome != "ok") and d != 1:
            return None, None
        if probe in ("alias_over", "alias_at") and (ver != 5):
            return None, None
        if ver == 3 and (any(k in lim for k in ("ack_max_qos", "ack_keep_alive", "ack_receive_max", "ack_topic_alias_max"))
                         or lim.get("ack_max_packet_size", 1) == 0):
            return None, None
        cfg = dict(role=role, ver=ver, gate_pub=0, gate_proto=0, max_receive=16)
        cfg.update(lim)
        if outcome == "slow":
            cfg["gate_hs"] = 1
        cmds = [{"c": "mark", "k": "wellformed", "n": int(wellformed)}]
        if endpoint == "both":
            cmds.append({"c": "mark", "k": "level", "n": ver})
        if outcome in ("refuse", "err"):
            cmds.append({"c": "arm", "o": outcome})
        if outcome == "slow":
            cmds.append({"c": "mark", "k": "slowhs"})
        fp = dict(first)
        cmd = {"c": "in", "p": fp}
        if cuts:
            cmd["cuts"] = cuts
        cmds.append(cmd)
        # a publish right behind the first packet: must not reach a handler unless accepted
        cmds.append({"c": "in", "p": {"t": "publish", "ver": ver, "q": 0, "topic": "t", "plen": 1}})
        if wellformed and outcome == "ok" and probe != "none":
            cmds.append({"c": "mark", "k": probe})
            eff_alias = lim.get("ack_topic_alias_max", lim.get("max_topic_alias", 32))
            if probe == "qos":
                eff = lim.get("ack_max_qos", lim.get("max_qos", 1)) if ver == 5 else lim.get("max_qos", 1)
                cmds.append({"c": "in", "p": {"t": "publish", "ver": ver, "q": eff + 1, "id": 77, "topic": "t", "plen": 1}})
            elif probe in ("oversize", "oversize_ok"):
                cmds.append({"c": "in", "p": {"t": "publish", "ver": ver, "q": 1, "id": 77, "topic": "t", "plen": 100}})
            elif probe == "alias_over":
                cmds.append({"c": "in", "p": {"t": "publish", "ver": 5, "q": 1, "id": 77, "topic": "t", "alias": eff_alias + 1, "plen": 1}})
            elif probe == "alias_at":
                cmds.append({"c": "in", "p": {"t": "publish", "ver": 5, "q": 1, "id": 77, "topic": "t", "alias": eff_alias, "plen": 1}})
        cmds.append({"c": "drain"})
        return cfg, cmds
    return dec


def c19_params(endpoint, tokens):
    """parameters of one server-side handshake run for Handshake.tla (None: not a run of c19_decode_for)"""
    a, b, c, d = tokens
    first, okvers = c19_firsts()[a - 1]
    outcome = C19_OUTCOMES[c - 1]
    lim, probe = C19_LIMITS[d - 1]
    g = lambda k, dflt: lim.get(k, dflt)
    return dict(ep=0 if endpoint == "both" else endpoint, t=first["t"], level=first.get("level", 0),
                protoOk=0 if "proto" in first else 1, flagsOk=0 if "cflags" in first else 1,
                ka=first.get("ka", 0), rm=first.get("rm", 0), outcome=outcome, probe=probe,
                maxSend=g("max_send", 16), ackSend=g("ack_max_send", -1), maxQos=g("max_qos", 1), ackQos=g("ack_max_qos", -1),
                maxSize=g("max_size", 0), ackSize=g("ack_max_packet_size", -1), aliasMax=g("max_topic_alias", 32),
                ackAlias=g("ack_topic_alias_max", -1), ackKa=g("ack_keep_alive", -1), ackRM=g("ack_receive_max", -1),
                maxReceive=g("max_receive", 16))


def hs_conform(endpoint):
    """event-level validation of the recorded handshake runs against Handshake.tla (TLC, HsConform)"""
    def fn(runs, tp, name):
        import os, vlib
        keep = ("route", "h_start", "h_end", "out", "ctl", "ctl_done", "conn_done")
        cand = [r for r in runs if r.get("tokens") is not None]
        if not cand:
            return dict(runs=0, ok=0, steps=0, stuck=[], nstuck=0)
        evs = {}
        cur, ci, ended = None, -1, False
        with open(tp) as f:
            for line in f:
                e = json.loads(line)
                if e["e"] == "reset":
                    cur = evs.setdefault(e["n"], {}); ci = -1; ended = False
                elif e["e"] == "cmd":
                    ci = e["n"]
                elif e["e"] == "end":
                    ended = True
                elif cur is not None and not ended and e["e"] in keep:
                    cur.setdefault(ci, []).append(e)

        def proj(e):
            k, n = e["k"], 0
            if e["e"] == "conn_done" and k.startswith(("err", "connect_err")):
                k = "err"
            if e["e"] == "route" or (e["e"] == "h_start") or (e["e"] == "out" and e["k"] == "CONNACK" and e["r"] == 0):
                n = e["n"]
            return dict(e=e["e"], k=k, s=e["s"], id=e["id"], q=e["q"], r=0 if e["e"] in ("h_start", "h_end", "ctl") else e["r"], n=n)

        cp = os.path.join(vlib.WORK, "runs", f"{name}.conf.ndjson")
        n = 0
        with open(cp, "w") as f:
            for r in cand:
                ins = [i for i, c in enumerate(r["cmds"]) if c["c"] == "in"]
                dr = [i for i, c in enumerate(r["cmds"]) if c["c"] == "drain"]
                idx = [ins[0:1], ins[1:2], ins[2:3], dr[0:1]]
                ph = []
                for ii in idx:
                    es = [proj(e) for i in ii for e in evs.get(r["run"], {}).get(i, [])]
                    ph.append([e for e in es if e["e"] not in ("out", "conn_done")] + [e for e in es if e["e"] == "conn_done"]
                              + [e for e in es if e["e"] == "out"])
                f.write(json.dumps(dict(run=r["run"], p=c19_params(endpoint, r["tokens"]), evs=ph), separators=(",", ":")) + "\n")
                n += 1
        res = vlib.tlc("HsConform", "SPECIFICATION ConformSpec\nCHECK_DEADLOCK FALSE\n", f"conf_{name}", workers=1, timeout=1800, cache=False,
                       env=dict(CONF=cp, CONFDBG=os.environ.get("CONFDBG", "0")), java_opts="-Xss1g -Xmx3g",
                       out_path=os.path.join(vlib.WORK, "runs", f"{name}.conf.txt"))
        ok = {a[0] for a in vlib.prints(res["out"], "CONF") if a[1] == "ok"}
        stuck = {a[0]: a[2] for a in vlib.prints(res["out"], "CONF") if a[1] != "ok"}
        if len(ok) + len(stuck) != n:
            raise vlib.ToolError(f"handshake conformance {name}: {n} runs in, {len(ok)} + {len(stuck)} out")
        by = {r["run"]: r for r in cand}
        return dict(runs=n, ok=len(ok), steps=4 * n, nstuck=len(stuck), wall=res["wall"],
                    stuck=[dict(tokens=by[k]["tokens"], at=v, role="server", ver=by[k]["cfg"].get("ver")) for k, v in list(stuck.items())[:6]])
    return fn


def c19_client_decode(ver):
    def dec(tokens, variant):
        # a: configured max_send 1..4, b: CONNACK Receive Maximum (1 = absent, 2..5 = 1..4),
        # c: 1 = window probe (credit), 2 / 3 = an aliased PUBLISH at / above the Topic Alias Maximum the client
        #    ANNOUNCED in CONNECT (2), d: CONNACK Topic Alias Maximum 1 = absent, 2 = 5, 3 = 1 (the server's own
        #    limit for what the client may send: it must not replace the client's)
        a, b, c, d = tokens
        cfg = dict(role="client", ver=ver, max_send=a)
        p = {"t": "connack", "rc": 0}
        if ver == 5 and b > 1:
            p["rm"] = b - 1
        elif ver == 3 and b > 1:
            return None, None
        if c == 1:
            if d != 1:
                return None, None
            return cfg, [{"c": "in", "p": p}, {"c": "idle"}, {"c": "drain"}]
        if ver != 5 or a != 2 or b != 1:
            return None, None
        cfg.update(client_topic_alias_max=2, gate_pub=0, max_receive=16)
        if d > 1:
            p["tam"] = 5 if d == 2 else 1
        probe, alias = ("alias_at", 2) if c == 2 else ("alias_over", 3)
        return cfg, [{"c": "in", "p": p}, {"c": "mark", "k": probe},
                     {"c": "in", "p": {"t": "publish", "ver": 5, "q": 1, "id": 77, "topic": "t", "alias": alias, "plen": 1}},
                     {"c": "drain"}]
    return dec


def c19_configs(tier):
    cs = []
    nf = len(c19_firsts())
    for ver in (3, 5):
        cs.append((f"client{ver}", PROD4_CFG.format(d1=4, d2=5, d3=3, d4=3), "Prod4", c19_client_decode(ver), [None]))
    for ep in (3, 5, "both"):
        cs.append((f"ep{ep}", PROD4_CFG.format(d1=nf, d2=len(C19_CUTS), d3=len(C19_OUTCOMES), d4=len(C19_LIMITS)),
                   "Prod4", c19_decode_for(ep), [None], None, hs_conform(ep)))
    return cs


reg(dict(
    name="handshake", judge="HsJudge", configs=c19_configs,
    signature=lambda v: f"{v['why']}|{v['cfg']['role']}{v['cfg']['ver']}|" + "+".join(sorted(k for k in v['cfg'] if k.startswith(('ack_', 'max_')))),
    level={}, quota=2500, quota_thorough=10**6,
    rule="TLC enumerates the product first packet (16: CONNECT with level 3/4/5/6, wrong protocol names, reserved flags, and "
         "every other packet type) x fragmentation of the first 16 bytes (9 cut sets incl. byte-at-a-time) x handshake "
         "outcome (accept / refuse / error / slow) x 15 limit combinations (configured vs CONNECT-requested vs "
         "handshake-overridden send window, QoS, packet size, topic alias, keep-alive, receive maximum) for the v3 server, "
         "the v5 server and the combined server; each accepted connection is probed (QoS above maximum, oversize frame, "
         "alias at / above maximum, credit()); HsMon judges with limits it computes itself",
    assumptions=[
        "the product is reduced: limit combinations are only expanded for well-formed, accepted CONNECTs",
        "keep-alive values are checked as announced in CONNACK; their effect in time is C20",
    ]), ["C19"])


# =============================================================================================
# group "timers": C20  (Timers.tla model + TimerMon.tla, coarse real time)

TIMERS_CFG = """SPECIFICATION ExportSpec
CONSTANTS
  KA = {ka}
  Rate = {rate}
  RTimeout = 1
  RMax = {rmax}
  MaxT = {maxt}
  Fixed = {fixed}
VIEW view
INVARIANT Live
{dead}
CHECK_DEADLOCK FALSE
"""


def c20_scan(tokens):
    tick = 0
    pkts = [0]            # the handshake completes at tick 0
    part_start = None
    last_bytes = None
    for tk in tokens:
        if tk == "T":
            tick += 1
        elif tk in ("P", "Q"):
            pkts.append(tick)
            part_start = tick if tk == "Q" else None
            last_bytes = tick if tk == "Q" else None
        else:
            if part_start is None:
                part_start = tick
            last_bytes = tick
    return tick, pkts, part_start, last_bytes


C20_RMAX = 2      # read_rate_max of every configuration: the read timeout may be extended by up to this many seconds


def c20_pad(tokens, ka, rate, rtimeout):
    """the model stops ticking when the connection has ended; the real run keeps watching until the
    verdict is robust: silence is appended until KA + 2 (read timeout + 2) ticks after the last arrival"""
    n, pkts, part_start, last_bytes = c20_scan(tokens)
    if rate > 0 and part_start is not None:
        want = last_bytes + rtimeout + C20_RMAX + 4
    elif ka > 0:
        want = pkts[-1] + ka + 3
    else:
        want = n
    return list(tokens) + ["T"] * max(0, want - n)


def c20_expect(tokens, ka, rate, rtimeout, rmax):
    """statement-level expectation for an arrival pattern, robust to +-1 s; None = no expectation"""
    n, pkts, part_start, last_bytes = c20_scan(tokens)
    last = pkts[-1]
    gaps = [b - a for a, b in zip(pkts, pkts[1:])] + [n - last]
    if rate > 0 and part_start is not None:
        # a partial frame is pending: read-rate rules apply
        if n - last_bytes >= rtimeout + C20_RMAX + 4 and last_bytes == part_start:
            # one burst, then silence: the read timer expires one period after the burst; a burst above the rate
            # extends it, by at most read_rate_max seconds in all.  The statement fixes the reason of the
            # timeout, not its exact time: the window is [one period after the burst, one period + the maximum
            # extension + timer granularity] (a window without the extension raised a false alarm for
            # "PINGREQ, 8 bytes of a frame one second later, silence": read timeout after 5.05 s)
            t = part_start + rtimeout
            return ("expect_read", (t - 1) * 1000 - 500, (t + C20_RMAX + 2) * 1000 + 900)
        return None
    if ka > 0 and max(gaps) <= ka - 2:
        return ("expect_alive", 0, 0)
    if ka > 0 and n - last >= ka + 3 and all(g <= ka - 2 for g in gaps[:-1]):
        t = last + ka
        return ("expect_ka", (t - 1) * 1000 - 500, (t + 2) * 1000 + 900)
    return None


def c20_decode_for(ver, cka, rate, rmax):
    ka = cka + cka // 2        # server keep-alive = 1.5 x the client's value

    # the frame that arrives in pieces is a PUBLISH with a 200 byte topic and no payload: nothing of it
    # reaches the dispatcher before its last byte (a payload would be streamed, and the dispatcher
    # counts a decoded PUBLISH header as traffic)
    frame = {"t": "publish", "q": 0, "topic": "t" * 200, "plen": 0}
    flen = 205 if ver == 3 else 206      # 30 ca 01 00 c8 't'*200 [00]

    def dec_busy(tokens):
        """handlers busy: the first complete packet is a QoS 1 PUBLISH whose handler stays busy until the end
        of the pattern with an in-flight limit of one, so the dispatcher pauses reading; a peer that keeps
        sending complete packets more often than the keep-alive period must not be ended by a timer"""
        n, pkts, part_start, last_bytes = c20_scan(tokens)
        if rate or "P" not in tokens or any(t.startswith("B") or t == "Q" for t in tokens):
            return None, None
        gaps = [b - a for a, b in zip(pkts, pkts[1:])] + [n - pkts[-1]]
        if max(gaps) > ka - 2 or n < ka + 1:
            return None, None
        cfg = dict(role="server", ver=ver, gate_pub=1, max_receive=1, max_receive_size=1 if ver == 5 else 0)
        cmds = [{"c": "in", "p": {"t": "connect", "ka": cka}}, {"c": "mark", "k": "expect_alive", "n": 0, "r": 0}]
        first = True
        for tk in tokens:
            if tk == "T":
                cmds.append({"c": "sleep", "ms": 1000})
            elif first:
                cmds.append({"c": "in", "p": {"t": "publish", "q": 1, "id": 1, "topic": "t", "plen": 1}})
                first = False
            else:
                cmds.append({"c": "in", "p": {"t": "pingreq"}})
        cmds += [{"c": "complete", "j": 0, "o": "ok"}, {"c": "sleep", "ms": 1000}]
        return cfg, cmds

    def dec(tokens, variant):
        if variant == "busy":
            return dec_busy(tokens)
        tokens = c20_pad(tokens, ka, rate, 1)
        exp = c20_expect(tokens, ka, rate, 1, rmax)
        if exp is None:
            exp = ("no_expectation", 0, 0)      # still replayed: nothing may panic
        cfg = dict(role="server", ver=ver, gate_pub=0)
        if rate:
            cfg.update(read_rate=rate, read_rate_timeout=1, read_rate_max=rmax)
        cmds = [{"c": "in", "p": {"t": "connect", "ka": cka}},
                {"c": "mark", "k": exp[0], "n": exp[1], "r": exp[2]}]
        sent = 0          # bytes of the PUBLISH frame delivered so far (0 = no partial frame pending)
        for tk in tokens:
            if tk == "T":
                cmds.append({"c": "sleep", "ms": 1000})
            elif tk in ("P", "Q"):
                if sent:
                    # the rest of the pending frame arrives: a complete packet that came in pieces
                    cmds.append({"c": "in", "p": frame, "from": sent})
                    sent = 0
                    if tk == "Q":
                        cmds.append({"c": "in", "p": frame, "upto": 2})
                        sent = 2
                elif tk == "P":
                    cmds.append({"c": "in", "p": {"t": "pingreq"}})
                else:
                    cmds.append({"c": "in", "pkts": [{"t": "pingreq"}, frame], "upto": 4})
                    sent = 2
            else:
                nbytes = int(tk[1:])
                upto = min(sent + nbytes, flen - 1)
                cmds.append({"c": "in", "p": frame, "from": sent, "upto": upto})
                sent = upto
        return cfg, cmds
    return dec


def c20_configs(tier):
    cs = []
    for ver in (3, 5):
        # (rmax 6: the budget for extensions is larger than what one burst can earn - a frame that stalls after a burst
        #  above the rate is still timed out one period after the extension the burst earned, not when the budget ends)
        for cka, rate, rmax, maxt in ((2, 0, 2, 7), (2, 4, 2, 6), (4, 4, 2, 6), (2, 4, 6, 6)):
            ka = cka + cka // 2
            cs.append((f"v{ver}_ka{cka}_r{rate}" + (f"_m{rmax}" if rmax != 2 else ""),
                       TIMERS_CFG.format(ka=ka, rate=rate, rmax=rmax, maxt=maxt, fixed="TRUE", dead="INVARIANT Dead\nINVARIANT NoNegative\nINVARIANT Slow"),
                       "Timers", c20_decode_for(ver, cka, rate, rmax), [None] if rate else [None, "busy"]))
    return cs


def c20_select(name, hists, tier, seed, quota):
    """replay set of one configuration: patterns that differ only in trailing silence are one run; patterns
    with a timeout expectation and patterns in which a packet arrives in pieces come first"""
    import hashlib
    parts = name.split("_")          # v5_ka2_r4
    cka, rate = int(parts[1][2:]), int(parts[2][1:])
    ka = cka + cka // 2
    seen, prio, rest = set(), [], []
    for h in hists:
        toks = json.loads(h)
        padded = tuple(c20_pad(toks, ka, rate, 1))
        if padded in seen:
            continue
        seen.add(padded)
        exp = c20_expect(list(padded), ka, rate, 1, 2)
        pieces = any(t.startswith("B") for t in toks) and any(
            t in ("P", "Q") and any(x.startswith("B") or x == "Q" for x in toks[:i]) for i, t in enumerate(toks))
        key = hashlib.sha256((h + str(seed)).encode()).hexdigest()
        n, pkts, _ps, _lb = c20_scan(toks)
        busyable = (rate == 0 and "P" in toks and all(t in ("P", "T") for t in toks) and n >= ka + 1
                    and max([y - x for x, y in zip(pkts, pkts[1:])] + [n - pkts[-1]]) <= ka - 2)
        if busyable:
            prio.append(("0" + key, h))          # steady traffic: also replayed with a busy handler
        elif exp and (exp[0] in ("expect_ka", "expect_read") or pieces):
            prio.append((key, h))
        else:
            rest.append((key, h))
    prio.sort()
    rest.sort()
    half = max(1, quota * 2 // 3)
    pick = [h for _, h in prio[:half]]
    pick += [h for _, h in rest[:max(0, quota - len(pick))]]
    return set(pick)


def c20_extra(tier, rnd):
    runs = []
    for ver in (3, 5):
        # connect timeout: nothing arrives
        runs.append(dict(cfg=dict(role="server", ver=ver, connect_timeout=2),
                         cmds=[{"c": "mark", "k": "expect_drop", "n": 1000, "r": 4500}] + [{"c": "sleep", "ms": 1000}] * 5, src="connect_timeout"))
        # the combined server: a peer that does not send enough for the protocol version to be recognised is dropped
        # when the version timeout (2 s) expires, whatever the connect timeout says (and the other way round)
        runs.append(dict(cfg=dict(role="both", ver=ver, version_timeout=2, connect_timeout=20),
                         cmds=[{"c": "mark", "k": "expect_drop", "n": 1000, "r": 4500}] + [{"c": "sleep", "ms": 1000}] * 5, src="version_timeout"))
        runs.append(dict(cfg=dict(role="both", ver=ver, version_timeout=2, connect_timeout=20),
                         cmds=[{"c": "in", "p": {"t": "raw", "hex": "10"}}, {"c": "mark", "k": "expect_drop", "n": 1000, "r": 4500}]
                              + [{"c": "sleep", "ms": 1000}] * 5, src="version_timeout_one_byte"))
        # client keep-alive pings
        runs.append(dict(cfg=dict(role="client", ver=ver, client_keep_alive=2),
                         cmds=[{"c": "in", "p": {"t": "connack", "rc": 0}}, {"c": "mark", "k": "expect_pings", "n": 2}] + [{"c": "sleep", "ms": 1000}] * 7,
                         src="client_ping"))
        if ver == 5:
            # the client asked for no keep-alive (or a long one) and the server imposes its own (Server Keep Alive in
            # CONNACK): that value governs the connection, the client pings once per 2 s period
            for own in (0, 30):
                runs.append(dict(cfg=dict(role="client", ver=5, client_keep_alive=own),
                                 cmds=[{"c": "in", "p": {"t": "connack", "rc": 0, "ska": 2}}, {"c": "mark", "k": "expect_pings", "n": 2}]
                                      + [{"c": "sleep", "ms": 1000}] * 7,
                                 src="client_ping_server_keep_alive"))
        # client keep-alive pings while the send window is full (one unacknowledged QoS 1 publish, window 1) at a
        # keep-alive tick, and after it was acknowledged: the pings must go on, once per period
        runs.append(dict(cfg=dict(role="client", ver=ver, client_keep_alive=2, max_send=1),
                         cmds=[{"c": "in", "p": dict({"t": "connack", "rc": 0}, **({"rm": 1} if ver == 5 else {}))},
                               {"c": "mark", "k": "expect_pings", "n": 3},
                               {"c": "send", "s": 1, "k": "q1", "id": 0}, {"c": "poll", "s": 1}]
                              + [{"c": "sleep", "ms": 1000}] * 3 + [{"c": "ack", "n": 1}, {"c": "poll", "s": 1}]
                              + [{"c": "sleep", "ms": 1000}] * 6,
                         src="client_ping_busy"))
        # an idle connection (keep-alive armed) goes through a write back-pressure episode caused by the server's own
        # traffic (transport stalled, a publish above the high watermark, transport released) and stays silent:
        # the keep-alive timeout is still due, 3 s after the last packet of the peer (CONNECT at tick 0)
        runs.append(dict(cfg=dict(role="server", ver=ver, wr_high=32, wr_low=8),
                         cmds=[{"c": "in", "p": {"t": "connect", "ka": 2}}, {"c": "mark", "k": "expect_ka", "n": 1500, "r": 5900},
                               {"c": "sleep", "ms": 1000}, {"c": "cap", "n": 0},
                               {"c": "send", "s": 1, "k": "q0", "plen": 200}, {"c": "sleep", "ms": 500}, {"c": "cap"}]
                              + [{"c": "sleep", "ms": 1000}] * 6,
                         src="backpressure_idle"))
        # keep-alive 0 and a server override
        runs.append(dict(cfg=dict(role="server", ver=ver, ack_keep_alive=2),
                         cmds=[{"c": "in", "p": {"t": "connect", "ka": 20}}, {"c": "mark", "k": "expect_ka", "n": 500, "r": 3900}] + [{"c": "sleep", "ms": 1000}] * 5,
                         src="override"))
    return runs


reg(dict(
    name="timers", judge="TimerJudge", configs=c20_configs, extra_runs=c20_extra, select=c20_select,
    signature=lambda v: f"{v['why']}|v{v['cfg']['ver']}|{v['cfg']['role']}|rate{v['cfg'].get('read_rate', 0)}",
    level={}, quota=24, quota_thorough=400, tail_cmds=(),
    rule="Timers.tla (update_timer / handle_timeout on a 1 s clock) is checked exhaustively by TLC over every arrival "
         "pattern of <= 7 ticks (complete packet, complete packet followed by the start of the next frame in the same "
         "read, 1 or 8 more bytes of a partial frame, silence) for keep-alive 3 s with and without a read rate: "
         "invariants Live, Dead, NoNegative; patterns whose statement-level verdict is robust to +-1 s are replayed "
         "under real time on v3 and v5 servers (quick: a seeded dozen per configuration, thorough: up to 400), plus "
         "connect timeout, server keep-alive override and client PINGREQ runs; TimerMon judges time and reason of the end",
    assumptions=[
        "real time with 1 s ticks; a timeout due at tick t is accepted in [t-1.5 s, t+2.9 s] (timer wheel granularity of 1 s plus observation at the next tick); sub-second timer behaviour is outside the claim",
        "expectations are computed from the statement by the generator, the model's own verdict is only used for conformance statistics",
    ]), ["C20"])

import wire  # noqa: E402

reg(dict(name="wire", kind="custom", run=wire.run_wire, replay=wire.replay_wire), ["C01", "C02", "C09", "C10"])
