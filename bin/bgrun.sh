#!/bin/bash
# Background sweep helper for `vp run --with-repo -- bash bin/bgrun.sh <tier> <Cxx>...`
# Runs in a snapshot of /verif against the snapshot of /repo's HEAD ($VP_RUN_REPO), so that seeded
# patches applied to /repo meanwhile do not disturb it.  Results are NOT evidence (see TOOLS.md).
set -u
tier=$1; shift
if [ -n "${VP_RUN_REPO:-}" ]; then
  export VERIF_REPO="$VP_RUN_REPO"
  sed -i "s#path = \"/repo\"#path = \"$VP_RUN_REPO\"#" harness/Cargo.toml
fi
python3 bin/setup.py || exit 2
rc=0
for p in "$@"; do
  echo "=== $p $tier $(date +%T)"
  python3 bin/check.py "$p" --tier "$tier" 2>&1 | grep -E '^(OK|VIOLATION|KNOWN|  reason|TOOL|Traceback|.*Error)' | cut -c1-600
  r=${PIPESTATUS[0]}; echo "=== $p exit $r $(date +%T)"; [ "$r" != 0 ] && rc=$r
done
exit $rc
