#!/usr/bin/env python3
"""Entry point of every registered check:  check.py <Cxx> --tier quick|thorough [--replay file]

exit 0  property held on everything explored (KNOWN-FINDING lines for listed findings)
exit 1  VIOLATION property=<id> replay=<path>
exit 2  tool error
"""
import argparse, glob, hashlib, json, os, random, sys, time, traceback

sys.path.insert(0, os.path.dirname(os.path.abspath(__file__)))
import vlib
from vlib import ToolError
import groups


import re
WORDS = re.compile(r"[A-Za-z_]+[0-9]*")


def pick(line_key, seed, keep_frac):
    h = hashlib.sha256(f"{seed}:{line_key}".encode()).digest()
    return int.from_bytes(h[:4], "big") / 2**32 < keep_frac


ENDPOINT_CONFORM = dict(module="EndpointConform", tok2rec=groups.inb_tok2rec, tail=1, project=groups.inb_project)


def run_batch(g, tier, name, runs, out, acc, cfg_text=None, decode=None, module=None, conform_fn=None):
    """replay one batch of runs on the real code and judge it; only verdicts are kept"""
    if not runs:
        return
    for i, r in enumerate(runs):
        r["run"] = i
    hruns = [dict(run=r["run"], cfg=r["cfg"], cmds=r["cmds"]) for r in runs]
    tp, hw = vlib.run_harness("conn", hruns, f"{g['name']}_{tier}_{name}")
    t0 = time.time()
    verdict = vlib.judge(g["judge"], tp, f"{g['name']}_{tier}_{name}")
    if module == "MC_Out":
        # the write-path behaviours are also judged by the sink monitor (results of sends, connection not ended by a
        # local failure), not only by the byte-level stream monitor
        v2 = vlib.judge("SinkJudge", tp, f"{g['name']}_{tier}_{name}_sink")
        # only what SinkMon can judge soundly here: during the commands of the behaviour (not in the closing
        # `settle`, where streams the application never finished are abandoned) the connection may end only for a
        # cause the monitor sees (dropped stream, chunk beyond the declared size); refusals have to be justified
        keep = ("C06:connection-ended-although-peer-was-orderly", "C06:send-refused-although-no-payload-is-owed",
                "C06:free-identifier-refused-as-in-use", "C06:panic",
                "C08:payload-piece-refused-although-it-fits-the-declared-size")
        verdict["viol"] += [v for v in v2["viol"] if v["why"] in keep and v.get("cmd") != "settle"]
        verdict["events"] += v2["events"]
    out["wall"]["harness"] = round(out["wall"].get("harness", 0) + hw, 2)
    out["wall"]["judge"] = round(out["wall"].get("judge", 0) + time.time() - t0, 2)
    acc["runs"] += verdict["runs"]
    acc["events"] += verdict["events"]
    cspec = ENDPOINT_CONFORM if module == "MC_Endpoint" else groups.OUT_CONFORM if module == "MC_Out" else g.get("conform")
    if conform_fn:
        t1 = time.time()
        c = conform_fn(runs, tp, f"{g['name']}_{tier}_{name}")
        out["wall"]["conform"] = round(out["wall"].get("conform", 0) + time.time() - t1, 2)
        cf = acc.setdefault("conform", dict(runs=0, ok=0, steps=0, drift=0, drift_samples=[]))
        cf["runs"] += c["runs"]; cf["ok"] += c["ok"]; cf["steps"] += c["steps"]; cf["drift"] += c.get("nstuck", 0)
        for x in c["stuck"]:
            if len(cf["drift_samples"]) < 12:
                cf["drift_samples"].append(dict(x, cfg=name))
    elif cspec and cfg_text:
        # impl -> spec at event level: TLC steps the implementation-shaped model along every recorded run
        t1 = time.time()
        c = vlib.conform(dict(cspec, decode=decode), cfg_text, runs, tp, f"{g['name']}_{tier}_{name}")
        out["wall"]["conform"] = round(out["wall"].get("conform", 0) + time.time() - t1, 2)
        cf = acc.setdefault("conform", dict(runs=0, ok=0, steps=0, drift=0, drift_samples=[]))
        cf["runs"] += c["runs"]; cf["ok"] += c["ok"]; cf["steps"] += c["steps"]; cf["drift"] += c.get("nstuck", 0)
        for x in c["stuck"]:
            if len(cf["drift_samples"]) < 12:
                cf["drift_samples"].append(dict(x, cfg=name))
    # distinct, non-trivial runs: different (configuration, commands) and at least one command besides the
    # handshake and the closing drain
    for r in runs:
        if sum(1 for c in r["cmds"] if c.get("c") not in ("drain", "pollall", "mark")) >= 2:
            acc["distinct"].add(hashlib.sha256(json.dumps([r["cfg"], r["cmds"]], sort_keys=True).encode()).digest()[:12])
    allby = {}
    for v in verdict["viol"]:
        allby.setdefault(v["run"], []).append(v)
    byrun = {k: vs[0] for k, vs in allby.items()}      # the first violation of a run is the primary one
    tail_cmds = g.get("tail_cmds", ("settle", "drain"))
    for r in runs:
        v = byrun.get(r["run"])
        real = v["why"] if v else "none"
        if "model_bad" in r:
            real_m = real if (v and v.get("cmd") not in tail_cmds) else "none"
            if (r["model_bad"] == "none") == (real_m == "none"):
                acc["agree"] += 1
            else:
                acc["disagree"] += 1
                if len(acc["dis_samples"]) < 12:
                    acc["dis_samples"].append(dict(tokens=r["tokens"], role=r["cfg"].get("role"), ver=r["cfg"].get("ver"),
                                                   model=r["model_bad"], real=real_m))
        if v and len(acc["viols"]) < 5000:
            allwhys = [x["why"] for x in allby.get(r["run"], [])]
            acc["viols"].append(dict(why=real, cfg=r["cfg"], cmds=r["cmds"], src=r.get("src", "random"),
                                     tokens=r.get("tokens"), allwhys=allwhys))
            # further, different violations of the same run (reported under their own property unless
            # the primary one is a listed known finding: what follows a known defect is not trusted)
            for x in allby.get(r["run"], [])[1:]:
                acc["viols"].append(dict(why=x["why"], cfg=r["cfg"], cmds=r["cmds"], src=r.get("src", "random"),
                                         tokens=r.get("tokens"), primary=real, allwhys=allwhys))
    step = max(1, len(runs) // 2)
    for r in runs[::step][:2]:
        if len(acc["samples"]) < 8:
            acc["samples"].append(dict(src=r.get("src", "random"), role=r["cfg"].get("role"), ver=r["cfg"].get("ver"),
                                       cmds=r["cmds"][:14], verdict=byrun.get(r["run"], {}).get("why", "none")))
    for f in (tp, tp.replace(".trace.", ".runs.")):
        try:
            if tier == "thorough":
                os.remove(f)
        except OSError:
            pass


def run_model_group(g, tier, seed):
    """generic pipeline for a connection-level group, one batch per TLC configuration:
       TLC export -> replay sample/all on the real code -> TLC judge"""
    out = dict(tlc=[], wall={})
    acc = dict(runs=0, events=0, agree=0, disagree=0, dis_samples=[], viols=[], samples=[], distinct=set())
    quota = g.get("quota", 350) if tier == "quick" else g.get("quota_thorough", 12000)
    for cfgt in g["configs"](tier):
        name, cfg_text, module, decode, variants = cfgt[:5]
        cquota = cfgt[5] if len(cfgt) > 5 and cfgt[5] else quota     # a configuration may ask to be replayed in full
        conform_fn = cfgt[6] if len(cfgt) > 6 else None
        r = vlib.tlc(module, cfg_text, f"{g['name']}_{name}", workers=8 if tier == "quick" else 14, timeout=3000)
        if r.get("error"):
            out.setdefault("model_invariant_failures", []).append(dict(cfg=name, error=r["error"]))
        # one cheap pass over the raw output to count, one to select; only selected lines are parsed
        total = nbad_total = 0
        with open(r["out"], errors="replace") as f:
            for line in f:
                if line.startswith('<<"REPLAY"'):
                    total += 1
                    if not line.startswith('<<"REPLAY", "none"'):
                        nbad_total += 1
        frac = min(1.0, cquota / max(total, 1))
        kept = nbad = 0
        runs = []
        chosen = None
        picked = None
        if "select" not in g and total > cquota:
            # stratified sample: transitions are grouped by the multiset of words of their command history (which
            # packet kinds, how many completions, which outcomes, which causes) and the quota is spread over the
            # groups round-robin, so that rare combinations are replayed as surely as common ones
            classes = {}
            seen_lines = set()
            with open(r["out"], errors="replace") as f:
                for ln, line in enumerate(f):
                    if line.startswith('<<"REPLAY", "none"'):
                        hl = hashlib.sha256(line.encode()).digest()[:10]
                        if hl in seen_lines:       # the same command history reached through another scheduling choice
                            continue
                        seen_lines.add(hl)
                        key = tuple(sorted(WORDS.findall(line[18:])))
                        classes.setdefault(key, []).append(ln)
            for key in classes:
                classes[key].sort(key=lambda ln: hashlib.sha256(f"{seed}:{ln}".encode()).digest())
            picked = set()
            order = sorted(classes, key=lambda k: hashlib.sha256(f"{seed}:{k}".encode()).digest())
            i = 0
            while len(picked) < cquota and order:
                nxt = []
                for key in order:
                    if i < len(classes[key]):
                        picked.add(classes[key][i])
                        nxt.append(key)
                        if len(picked) >= cquota:
                            break
                order = nxt
                i += 1
            out.setdefault("strata", {})[name] = len(classes)
        if "select" in g:
            # the group picks the behaviours to replay itself (e.g. de-duplication, priorities)
            chosen = g["select"](name, [h for _, h in vlib.prints(r["out"], "REPLAY")], tier, seed, cquota)
        with open(r["out"], errors="replace") as f:
            for ln, line in enumerate(f):
                if not line.startswith('<<"REPLAY"'):
                    continue
                is_bad = not line.startswith('<<"REPLAY", "none"')
                nbad += is_bad
                if chosen is None and not (is_bad and nbad <= 40):
                    if picked is not None:
                        if ln not in picked:
                            continue
                    elif not pick(line, seed, frac):
                        continue
                m = vlib.PRINT_RE.match(line)
                if not m:
                    continue
                try:
                    bad, hist = json.loads("[" + m.group(2) + "]")
                except json.JSONDecodeError:
                    continue
                if chosen is not None:
                    if hist not in chosen:
                        continue
                    chosen.discard(hist)
                tokens = json.loads(hist)
                for var in variants:
                    cfg, cmds = decode(tokens, var)
                    if cfg is None:
                        continue
                    runs.append(dict(cfg=cfg, cmds=cmds, model_bad=bad, src=name, tokens=tokens, variant=var))
                kept += 1
        out["tlc"].append(dict(cfg=name, generated=r["generated"], distinct=r["distinct"], wall=r["wall"],
                               cached=r["cached"], transitions=total, replayed=kept, model_bad_lines=nbad))
        run_batch(g, tier, name, runs, out, acc, cfg_text, decode, module, conform_fn)
    rnd = random.Random(seed)
    extra = g.get("extra_runs", lambda tier, rnd: [])(tier, rnd)
    for e in extra:
        e.setdefault("src", "generated")
    run_batch(g, tier, "extra", extra, out, acc)
    out["judge"] = dict(runs=acc["runs"], events=acc["events"], distinct_nontrivial=len(acc["distinct"]))
    out["conform"] = acc.get("conform")
    out.update(verdict_agree=acc["agree"], verdict_drift=acc["disagree"], drift_samples=acc["dis_samples"],
               viols=acc["viols"], samples=acc["samples"])
    return out


def main():
    ap = argparse.ArgumentParser()
    ap.add_argument("prop")
    ap.add_argument("--tier", default=os.environ.get("VERIF_TIER", "quick"))
    ap.add_argument("--replay")
    a = ap.parse_args()
    seed = int(os.environ.get("VERIF_SEED", "1"))
    prop = a.prop
    if prop not in groups.GROUP_OF:
        print(f"unknown property {prop}", file=sys.stderr)
        return 2
    g = groups.GROUPS[groups.GROUP_OF[prop]]
    t0 = time.time()
    try:
        vlib.build_harness()
        if a.replay:
            return replay(prop, g, a.replay)
        if g.get("kind", "model") != "model":
            return g["run"](prop, a.tier, seed)
        th = vlib.repo_tree_hash()
        gdir = os.path.join(vlib.WORK, "group")
        os.makedirs(gdir, exist_ok=True)
        sh = vlib.spec_hash(glob.glob(os.path.join(vlib.SPEC, "*.tla")) + glob.glob(os.path.join(vlib.ROOT, "bin", "*.py")))
        gp = os.path.join(gdir, f"{g['name']}_{a.tier}_{seed}_{th}_{sh}.json")
        if os.path.exists(gp) and time.time() - os.path.getmtime(gp) < 1800:
            res = json.load(open(gp))
            res["group_cached"] = True
        else:
            res = run_model_group(g, a.tier, seed)
            res["group_wall"] = round(time.time() - t0, 2)
            json.dump(res, open(gp, "w"))
    except ToolError as e:
        print(f"TOOL-ERROR {e}", file=sys.stderr)
        return 2
    except Exception:
        traceback.print_exc()
        return 2
    return report(prop, g, a.tier, seed, res, time.time() - t0)


def report(prop, g, tier, seed, res, wall):
    known = vlib.load_known()
    # violations the group's monitor files under a property that is decided by another group would
    # otherwise be lost: every property of this group reports them
    own = set(g.get("props", [prop]))
    mine = [v for v in res["viols"] if v["why"].startswith(prop + ":") or v["why"].split(":")[0] not in own]
    new, seen_known = [], {}
    for v in mine:
        if v.get("primary"):
            pv = dict(v, why=v["primary"])
            if vlib.match_known(known, v["primary"].split(":")[0], g["signature"](pv)):
                continue
        # a run in which a listed known defect shows anywhere is not trusted for anything else: its consequences
        # can surface before the defect itself becomes observable (an acknowledgement waiting in the response queue)
        tainted = None
        for w in v.get("allwhys", []):
            if w != v["why"]:
                k2 = vlib.match_known(known, w.split(":")[0], g["signature"](dict(v, why=w)))
                if k2:
                    tainted = k2
                    break
        if tainted and not vlib.match_known(known, v["why"].split(":")[0], g["signature"](v)):
            seen_known[tainted["signature"]] = (tainted, seen_known.get(tainted["signature"], (tainted, 0))[1] + 1)
            continue
        sig = g["signature"](v)
        k = vlib.match_known(known, v["why"].split(":")[0], sig)
        if k:
            seen_known[k["signature"]] = (k, seen_known.get(k["signature"], (k, 0))[1] + 1)
        else:
            v["signature"] = sig
            new.append(v)
    for sig, (k, n) in seen_known.items():
        print(f"KNOWN-FINDING: property={k['property']} {k['what']} ({n} occurrences this run)")
    states = sum(t["distinct"] for t in res["tlc"])
    trans = sum(t["transitions"] for t in res["tlc"])
    cov = dict(
        states=states, transitions=trans,
        traces_validated_against_impl=res["judge"]["runs"],
        evaluations=res["judge"]["runs"], distinct_nontrivial=res["judge"].get("distinct_nontrivial", 0),
        events_judged=res["judge"]["events"],
        samples=res["samples"], tlc=res["tlc"],
        verdict_agreement=dict(agree=res["verdict_agree"], drift=res["verdict_drift"], drift_samples=res["drift_samples"]),
        model_invariant_failures=res.get("model_invariant_failures", []),
        conformance=res.get("conform"), sample_strata=res.get("strata"),
        violations_for_this_property=len(mine), new_violations=len(new),
        known_findings_seen=list(seen_known), exhaustive=False,
        rule=g["rule"], wall=res.get("wall"), group_cached=res.get("group_cached", False),
        group_wall=res.get("group_wall"),
    )
    vlib.write_evidence(prop, tier, seed, g["level"].get(prop, "model_checking"), cov, wall, len(new), g["assumptions"])
    for f in res.get("model_invariant_failures", []):
        # a structural invariant of the MODEL failed (TypeOk, WindowInv, ...): TLC stopped exploring that
        # configuration early, so its coverage is not what the evidence would suggest - a tool error
        print(f"TOOL-ERROR model invariant failed in configuration {f['cfg']}: {f['error']}", file=sys.stderr)
    if res.get("model_invariant_failures"):
        return 2
    if new:
        seen = set()
        for v in new:
            if v["signature"] in seen:
                continue
            seen.add(v["signature"])
            p = vlib.write_replay(prop, hashlib.sha256(v["signature"].encode()).hexdigest()[:10],
                                  dict(property=prop, group=g["name"], seed=seed, tier=tier, signature=v["signature"],
                                       why=v["why"], cfg=v["cfg"], cmds=v["cmds"], src=v["src"]))
            print(f"VIOLATION property={prop} replay={p}")
            print(f"  reason={v['why']} signature={v['signature']}")
        return 1
    print(f"OK property={prop} tier={tier} states={states} transitions={trans} replayed={res['judge']['runs']} "
          f"events={res['judge']['events']} known={len(seen_known)} wall={wall:.1f}s")
    return 0


def replay(prop, g, path):
    r = json.load(open(path))
    if g.get("kind", "model") != "model":
        return g["replay"](prop, r)
    tp, _ = vlib.run_harness("conn", [dict(run=0, cfg=r["cfg"], cmds=r["cmds"])], f"replay_{prop}", jobs=1)
    verdict = vlib.judge(g["judge"], tp, f"replay_{prop}", parallel=1)
    for line in open(tp):
        e = json.loads(line)
        print(" ", e["e"], {k: v for k, v in e.items() if k != "e" and v not in (0, "")})
    bad = [v for v in verdict["viol"] if v["why"].startswith(prop + ":")]
    for v in bad:
        print(f"VIOLATION property={prop} replay={path}")
        print(f"  reason={v['why']} at event {v['at']}")
    if bad:
        return 1
    print("replay: no violation of", prop)
    return 0


if __name__ == "__main__":
    sys.exit(main())
