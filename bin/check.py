#!/usr/bin/env python3
"""Entry point of every registered check:  check.py <Cxx> --tier quick|thorough [--replay file]

exit 0  property held on everything explored (KNOWN-FINDING lines for listed findings)
exit 1  VIOLATION property=<id> replay=<path>
exit 2  tool error
"""
import argparse, json, os, sys, time, random, hashlib, traceback

sys.path.insert(0, os.path.dirname(os.path.abspath(__file__)))
import vlib
from vlib import ToolError

GROUP_OF = {}


def reg(group, props):
    for p in props:
        GROUP_OF[p] = group


# =============================================================================================
# group "sink": C05 C06 C13 C14  (Sink.tla + SinkMon.tla)

reg("sink", ["C05", "C06", "C13", "C14"])

SINK_CFG = """SPECIFICATION ExportSpec
CONSTANTS
  Ver = {ver}
  Cap = {cap}
  Kinds <- {kinds}
  IdMax = {idmax}
  MaxUses = {uses}
  MaxBad = {bad}
  UseWrb = {wrb}
  UseCancel = {cancel}
  CallerIds <- {cids}
  Fixed = {fixed}
VIEW view
INVARIANT TypeOk
INVARIANT NoLostWakeup
CHECK_DEADLOCK FALSE
"""


def sink_configs(tier):
    """(name, params, roles) — roles: endpoints on which the behaviours are replayed"""
    T, F = "TRUE", "FALSE"
    cs = []
    for ver in (3, 5):
        cs += [
            (f"v{ver}_win1", dict(ver=ver, cap=1, kinds="K_q1q1q1", idmax=3, uses=1, bad=0, wrb=F, cancel=T, cids="Ids0"), ["server", "client"]),
            (f"v{ver}_wrb1", dict(ver=ver, cap=1, kinds="K_q1q1q2", idmax=3, uses=1, bad=0, wrb=T, cancel=F, cids="Ids0"), ["server"]),
            (f"v{ver}_q2x2", dict(ver=ver, cap=2, kinds="K_q2q2q1", idmax=3, uses=1, bad=0, wrb=F, cancel=F, cids="Ids0"), ["server", "client"]),
            (f"v{ver}_bad", dict(ver=ver, cap=2, kinds="K_q1q2", idmax=2, uses=1, bad=1, wrb=F, cancel=F, cids="Ids0"), ["server", "client"]),
            (f"v{ver}_subs", dict(ver=ver, cap=1, kinds="K_subs", idmax=3, uses=1, bad=0, wrb=F, cancel=T, cids="Ids0"), ["client"]),
            (f"v{ver}_ids", dict(ver=ver, cap=2, kinds="K_q1q1", idmax=2, uses=2, bad=0, wrb=F, cancel=F, cids="Ids01"), ["server"]),
        ]
        if tier == "thorough":
            cs += [
                (f"v{ver}_win2", dict(ver=ver, cap=2, kinds="K_q1q1q1q2", idmax=4, uses=1, bad=0, wrb=F, cancel=T, cids="Ids0"), ["server", "client"]),
                (f"v{ver}_all3", dict(ver=ver, cap=1, kinds="K_q1q1q2", idmax=3, uses=1, bad=1, wrb=T, cancel=T, cids="Ids0"), ["server"]),
                (f"v{ver}_q2x3", dict(ver=ver, cap=3, kinds="K_q2q2q2", idmax=3, uses=1, bad=0, wrb=F, cancel=F, cids="Ids0"), ["server"]),
                (f"v{ver}_mix4", dict(ver=ver, cap=2, kinds="K_mixed4", idmax=3, uses=1, bad=0, wrb=T, cancel=F, cids="Ids0"), ["client"]),
                (f"v{ver}_badsub", dict(ver=ver, cap=2, kinds="K_subq1", idmax=2, uses=1, bad=1, wrb=F, cancel=F, cids="Ids0"), ["client"]),
            ]
    return cs


def sink_decode(tokens, ver, role, cap):
    """model command tokens -> harness run (cfg, cmds)"""
    cfg = dict(role=role, ver=ver, max_send=cap, gate_pub=1)
    cmds = []
    if role == "server":
        cmds.append({"c": "in", "p": {"t": "connect", "ka": 0}})
    else:
        p = {"t": "connack", "rc": 0}
        if ver == 5:
            p["rm"] = cap
        cmds.append({"c": "in", "p": p})
    for t in tokens:
        c = t[0]
        if c == "s":
            s, kind, cid = t[1:].split(":")
            cmds.append({"c": "send", "s": int(s), "k": kind, "id": int(cid)})
        elif c == "p":
            cmds.append({"c": "poll", "s": int(t[1:])})
        elif c == "d":
            cmds.append({"c": "drop", "s": int(t[1:])})
        elif c == "a":
            cmds.append({"c": "ack", "n": 1})
        elif c == "b":
            a, i = t[1:].split(":")
            cmds.append({"c": "in", "p": {"t": a.lower(), "id": int(i)}})
        elif c == "r":
            cmds.append({"c": "release", "s": int(t[1:]), "t": int(t[1:]) + 20})
        elif c == "x":
            cmds.append({"c": "rdrop", "s": int(t[1:])})
        elif c == "w":
            cmds.append({"c": "wrb", "on": int(t[1:])})
        else:
            raise ToolError(f"unknown model token {t}")
    cmds.append({"c": "settle"})
    return cfg, cmds


def pick(line_key, seed, keep_frac):
    h = hashlib.sha256(f"{seed}:{line_key}".encode()).digest()
    return int.from_bytes(h[:4], "big") / 2**32 < keep_frac


def group_sink(tier, seed, fixed):
    out = dict(tlc=[], runs=[], model_bad={}, wall={})
    runs = []
    per_cfg_quota = 350 if tier == "quick" else 10**9
    for name, params, roles in sink_configs(tier):
        cfg_text = SINK_CFG.format(fixed="TRUE" if fixed else "FALSE", **params)
        r = vlib.tlc("MC_Sink", cfg_text, "sink_" + name, workers=8 if tier == "quick" else 14,
                     timeout=3000)
        if r.get("error"):
            # a model-internal invariant (TypeOk / NoLostWakeup) failed: report as model finding
            out.setdefault("model_invariant_failures", []).append(dict(cfg=name, error=r["error"]))
        # count replay lines first to decide the sampling fraction
        total = 0
        for _ in vlib.prints(r["out"], "REPLAY"):
            total += 1
        frac = min(1.0, per_cfg_quota / max(total, 1))
        kept = 0
        nbad = 0
        for bad, hist in vlib.prints(r["out"], "REPLAY"):
            is_bad = bad != "none"
            if is_bad:
                nbad += 1
            if not (is_bad and nbad <= 40) and not pick(hist, seed, frac):
                continue
            tokens = json.loads(hist)
            for role in roles:
                cfg, cmds = sink_decode(tokens, params["ver"], role, params["cap"])
                runs.append(dict(run=len(runs), cfg=cfg, cmds=cmds, model_bad=bad, src=name, tokens=tokens))
            kept += 1
        out["tlc"].append(dict(cfg=name, generated=r["generated"], distinct=r["distinct"], wall=r["wall"],
                               cached=r["cached"], transitions=total, replayed=kept, model_bad_lines=nbad))
    # random long drivers outside the TLC bounds
    rnd = random.Random(seed)
    nrand = 300 if tier == "quick" else 4000
    for i in range(nrand):
        runs.append(sink_random_run(rnd, len(runs)))
    out["nruns"] = len(runs)
    hruns = [dict(run=r["run"], cfg=r["cfg"], cmds=r["cmds"]) for r in runs]
    tp, hw = vlib.run_harness("conn", hruns, f"sink_{tier}")
    out["wall"]["harness"] = round(hw, 2)
    t0 = time.time()
    verdict = vlib.judge("SinkJudge", tp, f"sink_{tier}")
    out["wall"]["judge"] = round(time.time() - t0, 2)
    out["judge"] = dict(runs=verdict["runs"], events=verdict["events"])
    byrun = {v["run"]: v for v in verdict["viol"]}
    # conformance of verdicts: model prediction vs real code, per replayed behaviour
    agree = disagree = 0
    dis_samples = []
    viols = []
    for r in runs:
        v = byrun.get(r["run"])
        real = v["why"] if v else "none"
        if "model_bad" in r:
            # the model's verdict covers the commands it generated, not the trailing settle
            real_m = real if (v and v.get("cmd") != "settle") else "none"
            if (r["model_bad"] == "none") == (real_m == "none"):
                agree += 1
            else:
                disagree += 1
                if len(dis_samples) < 10:
                    dis_samples.append(dict(tokens=r["tokens"], role=r["cfg"]["role"], ver=r["cfg"]["ver"],
                                            model=r["model_bad"], real=real_m))
        if v:
            viols.append(dict(run=r["run"], why=real, cfg=r["cfg"], cmds=r["cmds"], src=r.get("src", "random"),
                              tokens=r.get("tokens")))
    out["verdict_agree"] = agree
    out["verdict_drift"] = disagree
    out["drift_samples"] = dis_samples
    out["viols"] = viols
    out["samples"] = [dict(src=r.get("src", "random"), role=r["cfg"]["role"], ver=r["cfg"]["ver"],
                           cmds=[c for c in r["cmds"]][:14], verdict=byrun.get(r["run"], {}).get("why", "none"))
                      for r in runs[:: max(1, len(runs) // 6)]][:6]
    return out


def sink_random_run(rnd, idx):
    ver = rnd.choice([3, 5])
    role = rnd.choice(["server", "client"])
    cap = rnd.randint(1, 4)
    kinds = ["q1", "q2", "ready"] + (["sub", "unsub"] if role == "client" else [])
    cfg = dict(role=role, ver=ver, max_send=cap, gate_pub=1)
    cmds = []
    if role == "server":
        cmds.append({"c": "in", "p": {"t": "connect", "ka": 0}})
    else:
        p = {"t": "connack", "rc": 0}
        if ver == 5:
            p["rm"] = cap
        cmds.append({"c": "in", "p": p})
    if rnd.random() < 0.15:
        cmds.append({"c": "next_id", "n": 65533})
    nsend = rnd.randint(2, 16)
    live = []
    hold = []
    nxt = 1
    wrb = False
    for _ in range(rnd.randint(10, 120)):
        x = rnd.random()
        if x < 0.25 and nxt <= nsend:
            k = rnd.choice(kinds)
            cmds.append({"c": "send", "s": nxt, "k": k, "id": 0})
            live.append(nxt)
            if k == "q2":
                hold.append(nxt)
            nxt += 1
        elif x < 0.55 and live:
            cmds.append({"c": "poll", "s": rnd.choice(live)})
        elif x < 0.75:
            cmds.append({"c": "ack", "n": rnd.randint(1, 3)})
        elif x < 0.82 and hold:
            s = hold.pop(rnd.randrange(len(hold)))
            if rnd.random() < 0.7:
                cmds.append({"c": "release", "s": s, "t": s + 20})
                live.append(s + 20)
            else:
                cmds.append({"c": "rdrop", "s": s})
        elif x < 0.88 and live:
            s = live.pop(rnd.randrange(len(live)))
            cmds.append({"c": "drop", "s": s})
        elif x < 0.94:
            wrb = not wrb
            cmds.append({"c": "wrb", "on": int(wrb)})
    if wrb:
        cmds.append({"c": "wrb", "on": 0})
    cmds.append({"c": "settle"})
    return dict(run=idx, cfg=cfg, cmds=cmds)


# =============================================================================================

GROUPS = {"sink": group_sink}

LEVELS = {p: "model_checking" for p in ["C05", "C06", "C13", "C14"]}

ASSUME = {
    "sink": [
        "bounds of the TLC configurations listed under coverage.tlc (senders, window, id space, wrong acks)",
        "sender futures are polled only on command (single-threaded deterministic runtime; ntex runs one connection per thread)",
        "back-pressure notifications are delivered to the sink through the cfg-gated hook, as ControlService does",
        "the harness tokeniser (independent of the crate codec) reports the wire faithfully",
    ],
}

FIXED_FLAGS = {"sink": False}


def signature(v):
    cfg = v["cfg"]
    kinds = sorted({c.get("k") for c in v["cmds"] if c.get("c") == "send"})
    feats = []
    cs = [c.get("c") for c in v["cmds"]]
    for f in ("drop", "wrb", "release", "rdrop"):
        if f in cs:
            feats.append(f)
    if any(c.get("c") == "in" and c.get("p", {}).get("t") in ("puback", "pubrec", "pubcomp", "suback", "unsuback")
           for c in v["cmds"]):
        feats.append("badack")
    return f"{v['why']}|v{cfg['ver']}|{cfg['role']}|{'+'.join(kinds)}|{'+'.join(feats)}"


def main():
    ap = argparse.ArgumentParser()
    ap.add_argument("prop")
    ap.add_argument("--tier", default=os.environ.get("VERIF_TIER", "quick"))
    ap.add_argument("--replay")
    a = ap.parse_args()
    seed = int(os.environ.get("VERIF_SEED", "1"))
    prop = a.prop
    if prop not in GROUP_OF:
        print(f"unknown property {prop}", file=sys.stderr)
        return 2
    group = GROUP_OF[prop]
    t0 = time.time()
    try:
        vlib.build_harness()
        if a.replay:
            return replay(prop, group, a.replay)
        th = vlib.repo_tree_hash()
        gdir = os.path.join(vlib.WORK, "group")
        os.makedirs(gdir, exist_ok=True)
        gp = os.path.join(gdir, f"{group}_{a.tier}_{seed}_{th}_{vlib.spec_hash(__import__('glob').glob(os.path.join(vlib.SPEC, '*.tla')))}.json")
        if os.path.exists(gp) and time.time() - os.path.getmtime(gp) < 1800:
            res = json.load(open(gp))
            res["group_cached"] = True
        else:
            res = GROUPS[group](a.tier, seed, FIXED_FLAGS[group])
            res["group_wall"] = round(time.time() - t0, 2)
            json.dump(res, open(gp, "w"))
    except ToolError as e:
        print(f"TOOL-ERROR {e}", file=sys.stderr)
        return 2
    except Exception:
        traceback.print_exc()
        return 2
    return report(prop, group, a.tier, seed, res, time.time() - t0)


def report(prop, group, tier, seed, res, wall):
    known = vlib.load_known()
    mine = [v for v in res["viols"] if v["why"].startswith(prop + ":")]
    new = []
    seen_known = {}
    for v in mine:
        sig = signature(v)
        k = vlib.match_known(known, prop, sig)
        if k:
            seen_known.setdefault(k["signature"], (k, 0))
            seen_known[k["signature"]] = (k, seen_known[k["signature"]][1] + 1)
        else:
            v["signature"] = sig
            new.append(v)
    for sig, (k, n) in seen_known.items():
        print(f"KNOWN-FINDING: property={prop} {k['what']} (signature {sig}, {n} occurrences this run)")
    states = sum(t["distinct"] for t in res["tlc"])
    trans = sum(t["transitions"] for t in res["tlc"])
    cov = dict(
        states=states, transitions=trans,
        traces_validated_against_impl=res["judge"]["runs"],
        events_judged=res["judge"]["events"],
        samples=res["samples"],
        tlc=res["tlc"],
        verdict_agreement=dict(agree=res["verdict_agree"], drift=res["verdict_drift"], drift_samples=res["drift_samples"]),
        model_invariant_failures=res.get("model_invariant_failures", []),
        violations_for_this_property=len(mine), new_violations=len(new),
        known_findings_seen=[k for k in seen_known],
        exhaustive=False,
        rule="every transition of the bounded TLC state graph is a replay candidate (prefix = shortest path); "
             "quick replays a seeded sample per configuration, thorough replays all; plus random long runs",
        wall=res.get("wall"), group_cached=res.get("group_cached", False),
    )
    vlib.write_evidence(prop, tier, seed, LEVELS[prop], cov, wall, len(new), ASSUME[group])
    if new:
        seen = set()
        for v in new:
            if v["signature"] in seen:
                continue
            seen.add(v["signature"])
            p = vlib.write_replay(prop, hashlib.sha256(v["signature"].encode()).hexdigest()[:10],
                                  dict(property=prop, group=group, seed=seed, tier=tier, signature=v["signature"],
                                       why=v["why"], cfg=v["cfg"], cmds=v["cmds"], src=v["src"]))
            print(f"VIOLATION property={prop} replay={p}")
            print(f"  reason={v['why']} signature={v['signature']}")
        return 1
    print(f"OK property={prop} tier={tier} states={states} transitions={trans} replayed={res['judge']['runs']} "
          f"events={res['judge']['events']} known={len(seen_known)} wall={wall:.1f}s")
    return 0


def replay(prop, group, path):
    r = json.load(open(path))
    tp, _ = vlib.run_harness("conn", [dict(run=0, cfg=r["cfg"], cmds=r["cmds"])], f"replay_{prop}", jobs=1)
    judge_mod = {"sink": "SinkJudge"}[group]
    verdict = vlib.judge(judge_mod, tp, f"replay_{prop}", parallel=1)
    for line in open(tp):
        e = json.loads(line)
        print(" ", e["e"], {k: v for k, v in e.items() if k != "e" and v not in (0, "")})
    if verdict["viol"]:
        for v in verdict["viol"]:
            print(f"VIOLATION property={prop} replay={path}")
            print(f"  reason={v['why']} at event {v['at']}")
        return 1
    print("replay: no violation")
    return 0


if __name__ == "__main__":
    sys.exit(main())
