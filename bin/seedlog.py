#!/usr/bin/env python3
"""record the outcome lines of a bin/seedrun.sh log in seeded/<name>/meta.json:  seedlog.py <log> [commit]"""
import json, os, re, sys, time
ROOT = os.path.dirname(os.path.dirname(os.path.abspath(__file__)))
log = sys.argv[1]; commit = sys.argv[2] if len(sys.argv) > 2 else ""
by = {}
for l in open(log, errors="replace"):
    m = re.match(r"SEED (\S+) (\S+) exit=(\d+) (.*)", l)
    if m:
        by.setdefault(m.group(1), {})[m.group(2)] = dict(exit=int(m.group(3)), lines=[m.group(4)[:400]])
    m = re.match(r"SEED (\S+) patch-does-not-apply", l)
    if m:
        by.setdefault(m.group(1), {})["_apply"] = dict(exit=-1, lines=["patch does not apply to the tree of this run"])
for name, res in by.items():
    mp = os.path.join(ROOT, "seeded", name, "meta.json")
    meta = json.load(open(mp)) if os.path.exists(mp) else dict(name=name, target_property=name[:3], runs=[])
    meta.setdefault("runs", []).append(dict(at=time.strftime("%Y-%m-%d %H:%M"), tier="quick", via=f"seedrun {os.path.basename(os.path.dirname(log))} at {commit}",
                                            results=res, caught_by=[c for c, x in res.items() if x["exit"] == 1]))
    meta["caught"] = any(r["caught_by"] for r in meta["runs"][-1:]) or meta.get("caught", False)
    json.dump(meta, open(mp, "w"), indent=1)
print(len(by), "seeds recorded")
