#!/usr/bin/env python3
"""Build the harness (offline) and parse every TLA+ module. Run once after a fresh restore."""
import os, subprocess, sys, glob
ROOT = os.path.dirname(os.path.dirname(os.path.abspath(__file__)))
def main():
    env = dict(os.environ, CARGO_NET_OFFLINE="true")
    r = subprocess.run(["cargo", "build", "--offline"], cwd=os.path.join(ROOT, "harness"), env=env)
    if r.returncode != 0:
        print("setup: harness build failed", file=sys.stderr)
        return 2
    os.makedirs(os.path.join(ROOT, "work"), exist_ok=True)
    os.makedirs(os.path.join(ROOT, "evidence"), exist_ok=True)
    bad = 0
    for f in sorted(glob.glob(os.path.join(ROOT, "spec", "*.tla"))):
        r = subprocess.run(["tla-sany", os.path.basename(f)], cwd=os.path.join(ROOT, "spec"),
                           stdout=subprocess.PIPE, stderr=subprocess.STDOUT, text=True)
        if r.returncode != 0 or "Semantic errors" in r.stdout or "Fatal errors" in r.stdout or "***Parse Error***" in r.stdout:
            print("setup: SANY failed on", f, file=sys.stderr)
            print(r.stdout[-2000:], file=sys.stderr)
            bad += 1
    return 2 if bad else 0
if __name__ == "__main__":
    sys.exit(main())
