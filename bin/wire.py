"""wire group: C01 (round trip), C02 (hostile bytes), C09 (outbound limit), C10 (fragmentation).

TLC (spec/WireGen.tla) enumerates the vectors, the harness (`mqv codec`) runs the real codecs on
them, TLC (spec/WireJudge.tla over Wire5/Wire3/Bytes) decides every recorded outcome.
"""
import hashlib
import json
import os
import random
import sys
import time

import vlib

GEN_CFG = "SPECIFICATION Spec\nCHECK_DEADLOCK FALSE\nCONSTANTS\n  Part = \"{part}\"\n  Deep = {deep}\n"

CLIENT_ONLY = ("CONNECT", "SUBSCRIBE", "UNSUBSCRIBE", "PINGREQ")
ENC_DEFAULT = dict(ok=0, err="", grew=0, b=[], len=0, pay_ok=1, pre_ok=1, echo={"t": "none"}, rt={"t": "none"},
                   rt_left=0, rt_n=0, rt_eof=0, rt_err="", panic="")
DEC_DEFAULT = dict(items=[], end="MORE", err="", left=0, fed=0, total=0, stable=1, panic="")
SNIFF_DEFAULT = dict(res="MORE", at=0, left=0, fed=0, panic="")


def gen(part, deep):
    r = vlib.tlc("WireGen", GEN_CFG.format(part=part, deep="TRUE" if deep else "FALSE"),
                 f"wiregen_{part}_{int(deep)}", workers=1, timeout=3000,
                 java_opts="-Xss1g -Xmx6g")
    vecs = [json.loads(a[0]) for a in vlib.prints(r["out"], "VEC")]
    if not vecs:
        raise vlib.ToolError(f"WireGen part {part} produced no vectors")
    return vecs, r


def seg_total(segs):
    return sum(len(s["b"]) + s["pay"] for s in segs)


class Builder:
    def __init__(self, prop, seed):
        self.prop = prop
        self.vecs = []
        self.grp = 0
        self.rnd = random.Random(seed)

    def enc(self, ver, p, pay, lim=0, rpi=1, prefill=0, **kw):
        v = dict(i=len(self.vecs), op="enc", ver=ver, p=p, pay=pay, lim=lim, rpi=rpi, prefill=prefill, prop=self.prop, bad=0)
        v.update(kw)
        self.vecs.append(v)

    def dec_group(self, ver, segs, legal, deliveries, max_=0, mincs=(0,)):
        """one group = one byte stream; every (delivery, min chunk) must give the same result"""
        g = self.grp
        self.grp += 1
        for minc in mincs:
            for d in deliveries:
                v = dict(i=len(self.vecs), op="dec", ver=ver, segs=segs, max=max_, minc=minc, legal=legal,
                         grp=g, prop=self.prop, cuts=[], model=[], has_model=0)
                v.update(d)
                self.vecs.append(v)

    def sniff(self, b, deliveries):
        for d in deliveries:
            v = dict(i=len(self.vecs), op="sniff", b=b, cuts=[], prop=self.prop)
            v.update(d)
            self.vecs.append(v)

    def std_deliveries(self, total, deep):
        ds = [dict()]
        if total >= 2 and total <= (4000 if deep else 1500):
            ds.append(dict(step=1))
        if total >= 4:
            ds.append(dict(cuts=[total // 2]))
        if deep and total >= 6:
            ds.append(dict(step=2))
            ds.append(dict(cuts=sorted(self.rnd.sample(range(1, total), min(3, total - 1)))))
        return ds


def build_c01(b, deep):
    stats = {}
    for part, ver in (("pk5", 5), ("pk3", 3)):
        vecs, r = gen(part, deep)
        stats[part] = dict(vectors=len(vecs), wall=r["wall"], cached=r["cached"])
        for v in vecs:
            p, pay = v["p"], v["pay"]
            b.enc(ver, p, pay)
            if p["t"] == "PUBLISH" and 0 < pay <= 70000:
                b.enc(ver, p, pay, first=-1, chunk=7 if pay < 100 else 4096)
                b.enc(ver, p, pay, first=1, chunk=max(1, pay - 1))
            forms = [v["b"]]
            if v.get("br") and v["br"] != v["b"]:
                forms.append(v["br"])
            for f in forms:
                segs = [dict(b=f, pay=pay)]
                b.dec_group(ver, segs, 1, b.std_deliveries(len(f) + pay, deep))
    return stats


def build_c02(b, deep):
    stats = {}
    for part, ver in (("mut5", 5), ("mut3", 3)):
        vecs, r = gen(part, deep)
        stats[part] = dict(vectors=len(vecs), wall=r["wall"], cached=r["cached"])
        for k, v in enumerate(vecs):
            by = v["b"]
            segs = [dict(b=by, pay=0)]
            ds = [dict()]
            if len(by) >= 2:
                ds.append(dict(step=1))
            if len(by) >= 6 and (deep or k % 3 == 0):
                ds.append(dict(cuts=sorted(b.rnd.sample(range(1, len(by)), 2))))
            b.dec_group(ver, segs, 0, ds)
            if k % (4 if deep else 16) == 0:
                # the same bytes under an inbound size limit, and with a minimum chunk size
                b.dec_group(ver, segs, 0, ds[:2], max_=b.rnd.choice([1, 2, 5, 8, 20, 127]))
                b.dec_group(ver, segs, 0, ds[:2], mincs=(b.rnd.choice([1, 2, 4]),))
            if by and by[0] == 16 and (deep or k % 4 == 0):
                b.sniff(by, ds[:2])
    vecs, r = gen("short", deep)
    stats["short"] = dict(vectors=len(vecs), wall=r["wall"], cached=r["cached"])
    for k, v in enumerate(vecs):
        by = v["b"]
        for ver in (5, 3):
            ds = [dict()] + ([dict(step=1)] if len(by) >= 2 else [])
            b.dec_group(ver, [dict(b=by, pay=0)], 0, ds, max_=(0 if k % 5 else 2))
        if k % 7 == 0 or (by and by[0] == 16):
            b.sniff(by, [dict()])
    # the version sniffer on every legal CONNECT and on their truncations
    for part, ver in (("pk5", 5), ("pk3", 3)):
        vecs, r = gen(part, deep)
        n = 0
        for v in vecs:
            if v["p"]["t"] != "CONNECT" or len(v["b"]) > 300:
                continue
            n += 1
            if not deep and n % 3:
                continue
            b.sniff(v["b"], [dict(), dict(step=1)])
            for cut in range(0, min(len(v["b"]), 14)):
                b.sniff(v["b"][:cut], [dict()])
    return stats


def build_c09(b, deep):
    vecs, r = gen("lim", deep)
    stats = dict(lim=dict(vectors=len(vecs), wall=r["wall"], cached=r["cached"]))
    for v in vecs:
        for lim in v["lims"]:
            for rpi in (1, 0):
                # Request Problem Information is what a server learns from CONNECT: only packets a
                # server sends are encoded after it
                if rpi == 0 and v["p"]["t"] in CLIENT_ONLY:
                    continue
                b.enc(5, v["p"], v["pay"], lim=lim, rpi=rpi, prefill=3)
        if v["p"]["t"] not in CLIENT_ONLY:
            b.enc(5, v["p"], v["pay"], lim=0, rpi=0, prefill=1)
    # values the wire format cannot express: a refusal must leave the buffer untouched
    for ver in (5, 3):
        pub = dict(t="PUBLISH", dup=0, retain=0, q=0, topic=[97, 47, 98], id=5, psize=3)
        if ver == 5:
            pub.update(utf8=0, mei=0, ct=[], rt=[], cd=[], sids=[], alias=0, up=[])
        for prefill in (0, 3, 50):
            b.enc(ver, pub, 3, prefill=prefill, bad=1)
            b.enc(ver, pub, 3, prefill=prefill, bad=1, first=-1, chunk=2)
    return stats


def build_c10(b, deep):
    stats = {}
    vecs, r = gen("stream", deep)
    stats["stream"] = dict(vectors=len(vecs), wall=r["wall"], cached=r["cached"])
    mincs = (0, 1, 4, 1024, 32768)
    for v in vecs:
        segs, marks = v["segs"], v["marks"]
        total = seg_total(segs)
        ds = [dict(), dict(cuts=marks)]
        ds += [dict(cuts=[m]) for m in (marks if deep else marks[::2])]
        for step in (2, 7, 1024, 4096, 65536):
            if step < total and total // step <= 6000:
                ds.append(dict(step=step))
        if total <= (6000 if deep else 1200):
            ds.append(dict(step=1))
        for _ in range(4 if deep else 2):
            k = b.rnd.randint(1, min(8, total - 1))
            ds.append(dict(cuts=sorted(b.rnd.sample(range(1, total), k))))
        b.dec_group(v["ver"], segs, 1, ds, mincs=mincs if deep else (0, 4, 1024, 32768))
        # the stream cut short: whatever arrived of the last payload must be intact
        if total > 8:
            cut = b.rnd.choice([m for m in marks if m > 2] or [total - 1])
            tsegs, left = [], cut
            for s in segs:
                if left <= 0:
                    break
                if left >= len(s["b"]) + s["pay"]:
                    tsegs.append(s)
                    left -= len(s["b"]) + s["pay"]
                elif left <= len(s["b"]):
                    tsegs.append(dict(b=s["b"][:left], pay=0))
                    left = 0
                else:
                    tsegs.append(dict(b=s["b"], pay=left - len(s["b"])))
                    left = 0
            b.dec_group(v["ver"], tsegs, 1, [dict(), dict(cuts=[max(1, cut // 2)])], mincs=(0, 4))
    vecs, r = gen("frag", deep)
    stats["frag"] = dict(vectors=len(vecs), wall=r["wall"], cached=r["cached"])
    # group the exhaustive cut sets of one short stream together
    by_stream = {}
    for v in vecs:
        by_stream.setdefault(json.dumps(v["segs"]) + str(v["ver"]), []).append(v)
    for vs in by_stream.values():
        ds = [dict(cuts=v["cuts"]) for v in vs]
        if not deep:
            ds = ds[::3] + [ds[-1]]
        b.dec_group(vs[0]["ver"], vs[0]["segs"], 1, ds, mincs=(0, 1, 2, 4))
    stats["framing"] = framing_part(b, deep, b.rnd.randint(0, 1 << 30))
    return stats


def conn_runs(deep, seed):
    """connection-level half of C10: TLC enumerates (size, write pieces, reader pace, chunk limits); each
    becomes one run of the connection harness"""
    vecs, r = gen("conn", deep)
    rnd = random.Random(seed)
    quota = 6000 if deep else 700
    if len(vecs) > quota:
        vecs = sorted(vecs, key=lambda v: hashlib.sha256((json.dumps(v, sort_keys=True) + str(seed)).encode()).hexdigest())[:quota]
    runs = []
    for k, v in enumerate(vecs):
        size, send, piece = v["size"], min(v["send"], v["size"]), v["piece"]
        cfg = dict(role="server", ver=v["ver"], gate_pub=1 if v["pace"] == "lazy" else 0, gate_proto=0, max_qos=2,
                   min_chunk=v["minc"], max_payload_buffer=v["buf"])
        cmds = [dict(c="in", p=dict(t="connect", ka=0))]
        pub = dict(t="publish", q=v["q"], id=1, topic="t", plen=size, send=send, pat=1)
        second = dict(t="publish", q=v["q"], id=2, topic="t", plen=min(size, 2000), pat=1)
        how = "one" if v["pace"] == "abandon" else v["read"]
        rd = dict(c="complete", j=0, o="ok", read=how)      # opens the gate of the waiting handler
        if v["pace"] != "lazy":
            cmds.append(dict(c="arm", o="ok", read=how))    # outcome of the next publish handler
            if v["pace"] == "abandon":
                cmds.append(dict(c="arm", o="ok", read=v["read"]))
        hdr_cuts = sorted(rnd.sample(range(1, 8), rnd.randint(0, 2))) if k % 3 == 0 else []
        cmds.append(dict(c="in", p=pub, cuts=hdr_cuts))
        off = send
        while off < size:
            n = min(piece, size - off)
            cmds.append(dict(c="in", p=dict(t="payload", n=n, pat=1, off=off)))
            off += n
        if v["pace"] == "lazy":
            cmds.append(rd)
        if v["pace"] == "abandon":
            cmds.append(dict(c="in", p=second))
        cmds.append(dict(c="in", p=dict(t="pingreq")))
        cmds.append(dict(c="drain"))
        runs.append(dict(run=k, cfg=cfg, cmds=cmds, vec=v))
    return runs, dict(vectors=len(vecs), wall=r["wall"], cached=r["cached"])


def run_conn_part(prop, tier, seed):
    """returns (violations, stats)"""
    deep = tier == "thorough"
    runs, gst = conn_runs(deep, seed)
    tp = vlib.run_harness("conn", [{k: r[k] for k in ("run", "cfg", "cmds")} for r in runs], f"wire_conn_{tier}")[0]
    verdict = vlib.judge("PayJudge", tp, f"pay_{tier}")
    if verdict["runs"] != len(runs):
        raise vlib.ToolError(f"PayJudge saw {verdict['runs']} of {len(runs)} runs")
    chunks = reads = 0
    with open(tp) as f:
        for line in f:
            if '"h_chunk"' in line:
                chunks += 1
            elif '"h_read"' in line:
                reads += 1
    viol = [dict(why=x["why"], run=runs[x["run"]]) for x in verdict["viol"]]
    return viol, dict(runs=len(runs), events=verdict["events"], h_chunk=chunks, h_read=reads, generator=gst)


FRAMING_CFG = """SPECIFICATION {spec}
CONSTANTS
  FrameSeqs <- MCFrameSeqs
  MinChunks <- MCMinChunks
  Eager = {eager}
  HP = {hp}
  Deep = {deep}
INVARIANTS TypeOK Order Conserve OneFinal MinChunkInv NoLeak Complete
VIEW view
CHECK_DEADLOCK FALSE
"""


def framing_part(b, deep, seed):
    """Framing.tla: (1) TLC checks the C10 invariants of the decoder model for every stream of the bounded
    universe under every interleaving of reads and decode() calls; (2) every explored complete delivery
    (eager decoding) is replayed on the real codec, which must produce exactly the model's items"""
    stats = []
    for ver, hp in ((3, 3), (5, 4)):
        d = "TRUE" if deep else "FALSE"
        r0 = vlib.tlc("MC_Framing", FRAMING_CFG.format(spec="Spec", eager="FALSE", hp=hp, deep=d), f"framing_mc_v{ver}_{int(deep)}",
                      workers=8, timeout=3000)
        if r0.get("error"):
            raise vlib.ToolError(f"Framing.tla: {r0['error']}")
        r = vlib.tlc("MC_Framing", FRAMING_CFG.format(spec="ExportSpec", eager="TRUE", hp=hp, deep=d), f"framing_ex_v{ver}_{int(deep)}",
                     workers=8, timeout=3000)
        if r.get("error"):
            raise vlib.ToolError(f"Framing.tla export: {r['error']}")
        lines = [json.loads(a[0]) for a in vlib.prints(r["out"], "FRAMING")]
        quota = 40000 if deep else 2500
        if len(lines) > quota:
            lines = sorted(lines, key=lambda v: hashlib.sha256((json.dumps(v, sort_keys=True) + str(seed)).encode()).hexdigest())[:quota]
        for ln in lines:
            segs = []
            for f in ln["frames"]:
                if f["pub"]:
                    hdr = [0, 1, 97] + ([0] if ver == 5 else [])
                    segs.append(dict(b=[48, len(hdr) + f["p"]] + hdr, pay=f["p"]))
                elif f["h"] == 0:
                    segs.append(dict(b=[192, 0], pay=0))
                else:
                    segs.append(dict(b=[64, 2, 0, 1], pay=0))
            total = seg_total(segs)
            model = [[x["kind"], x["n"], 1 if x["eof"] else 0] for x in ln["items"]]
            b.dec_group(ver, segs, 1, [dict(cuts=[c for c in ln["cuts"] if c < total], model=model, has_model=1)], mincs=(ln["minc"],))
        stats.append(dict(ver=ver, model_states=r0["distinct"], model_generated=r0["generated"], model_wall=r0["wall"],
                          deliveries_explored=len(lines), export_states=r["distinct"]))
    return stats


BUILD = dict(C01=build_c01, C02=build_c02, C09=build_c09, C10=build_c10)


def normalise(v, r):
    d = dict(ENC_DEFAULT if v["op"] == "enc" else DEC_DEFAULT if v["op"] == "dec" else SNIFF_DEFAULT)
    d.update({k: x for k, x in r.items() if k not in ("i", "op")})
    if v["op"] == "sniff":
        d["res"] = str(d["res"]) if not str(d["res"]).startswith("ERR") else "ERR"
    return d


def run_wire(prop, tier, seed):
    t0 = time.time()
    deep = tier == "thorough"
    b = Builder(prop, seed)
    gstats = BUILD[prop](b, deep)
    d = os.path.join(vlib.WORK, "runs")
    os.makedirs(d, exist_ok=True)
    vp = os.path.join(d, f"wire_{prop}_{tier}.vec.ndjson")
    rp = os.path.join(d, f"wire_{prop}_{tier}.res.ndjson")
    with open(vp, "w") as f:
        for v in b.vecs:
            f.write(json.dumps(v, separators=(",", ":")) + "\n")
    rr = vlib.sh([vlib.MQV, "codec", vp, rp, str(min(16, vlib.NCPU))])
    if rr.returncode != 0:
        sys.stderr.write(rr.stdout[-3000:])
        raise vlib.ToolError("harness codec failed")
    # join and split on group boundaries
    nparts = max(1, min(vlib.NCPU - 2, 12, len(b.vecs) // 1500 + 1))
    per = (len(b.vecs) + nparts - 1) // nparts
    parts, cur, curf, last_grp, curb = [], 0, None, None, 0
    stats = dict(enc=0, dec=0, sniff=0, panic=0, real_err=0, real_ok=0, items=0)
    with open(rp) as fr:
        for v, line in zip(b.vecs, fr):
            r = json.loads(line)
            if r.get("tool_error"):
                raise vlib.ToolError(f"harness: {r['tool_error']}")
            nr = normalise(v, r)
            stats[v["op"]] += 1
            stats["panic"] += 1 if nr["panic"] else 0
            if v["op"] == "dec":
                stats["items"] += len(nr["items"])
                stats["real_err"] += nr["end"] == "ERR"
            elif v["op"] == "enc":
                stats["real_ok"] += nr["ok"]
                stats["real_err"] += 1 - nr["ok"]
            g = v.get("grp", -1)
            # (a judge process deserialises its whole part: parts are bounded in bytes as well - 16 KiB vectors)
            if curf is None or ((cur >= per or curb >= 120_000_000) and (g != last_grp or g < 0)):
                if curf:
                    curf.close()
                pth = os.path.join(d, f"wire_{prop}_{tier}.joined.part{len(parts)}")
                parts.append(pth)
                curf = open(pth, "w")
                cur, curb = 0, 0
            line_out = json.dumps(dict(v=v, r=nr), separators=(",", ":")) + "\n"
            curf.write(line_out)
            curb += len(line_out)
            cur += 1
            last_grp = g
    if curf:
        curf.close()
    verdict = vlib.judge("WireJudge", vp, f"wire_{prop}_{tier}", parts=parts,
                         extra_env=dict(JAVA_TOOL_OPTIONS="-Xss1g -Xmx4g -Dtlc2.tool.queue.IStateQueue=StateDeque"))
    if verdict["runs"] != len(b.vecs):
        raise vlib.ToolError(f"judge saw {verdict['runs']} of {len(b.vecs)} vectors")
    json.dump([dict(why=x['why'], vector=b.vecs[x['run']]) for x in verdict['viol'][:2000]],
              open(os.path.join(d, f'wire_{prop}_{tier}.viol.json'), 'w'))
    conn_viol, conn_stats = ([], None)
    if prop == "C10":
        conn_viol, conn_stats = run_conn_part(prop, tier, seed)
    known = vlib.load_known()
    new, seen_known, tool, drift = [], {}, [], []
    for x in conn_viol:
        sig = f"{x['why']}|conn|v{x['run']['cfg']['ver']}|{json.dumps(x['run']['vec'], sort_keys=True)}"
        k = vlib.match_known(known, prop, sig)
        if k:
            seen_known[k["signature"]] = k
        else:
            new.append(dict(why=x["why"], signature=sig, vector=dict(op="conn", run=x["run"]), owner=prop))
    for x in verdict["viol"]:
        v = b.vecs[x["run"]]
        why = x["why"]
        if why.startswith("TOOL:"):
            tool.append((why, v))
            continue
        if why.startswith("DRIFT:"):
            # the real decoder satisfies the property but cuts the payload differently from Framing.tla:
            # the model no longer describes the code (reported, not a violation of the property)
            drift.append(v)
            continue
        vprop = why.split(":", 1)[0]
        desc = v["p"]["t"] if v["op"] == "enc" else v["op"]
        sig = f"{why}|v{v.get('ver', 0)}|{v['op']}|{desc}|lim={v.get('lim', 0)}|rpi={v.get('rpi', 1)}"
        k = vlib.match_known(known, vprop, sig) or vlib.match_known(known, prop, sig)
        if k:
            seen_known[k["signature"]] = k
        else:
            new.append(dict(why=why, signature=sig, vector=v, owner=vprop))
    if tool:
        sys.stderr.write(f"harness self-check failed: {tool[0][0]} on {json.dumps(tool[0][1])[:600]}\n")
        raise vlib.ToolError("abstract value echo differs (harness mapping error)")
    for k in seen_known.values():
        print(f"KNOWN-FINDING: property={k['property']} {k['what']}")
    distinct = set()
    for v in b.vecs:
        if v["op"] == "enc" or (v["op"] == "dec" and seg_total(v["segs"]) >= 2) or (v["op"] == "sniff" and len(v["b"]) >= 2):
            distinct.add(hashlib.sha256(json.dumps({k: x for k, x in v.items() if k not in ("i", "grp")}, sort_keys=True).encode()).digest()[:12])
    cov = dict(states=len(b.vecs), transitions=stats["items"] + stats["enc"],
               evaluations=len(b.vecs) + (conn_stats["runs"] if conn_stats else 0), distinct_nontrivial=len(distinct),
               traces_validated_against_impl=verdict["runs"],
               vectors=dict(enc=stats["enc"], dec=stats["dec"], sniff=stats["sniff"]), groups=b.grp,
               real_outcomes=dict(errors=stats["real_err"], encoded_ok=stats["real_ok"], items=stats["items"], panics=stats["panic"]),
               generator=gstats, connection_level=conn_stats,
               framing_model_drift=len(drift), framing_model_drift_sample=[dict(cuts=v["cuts"], minc=v["minc"], model=v["model"]) for v in drift[:3]],
               rule="TLC enumerates the vectors from the reference universe (WireGen over Wire5/Wire3); the harness runs the real "
                    "codec; TLC (WireJudge) recomputes the reference outcome for every vector and decides the recorded one",
               samples=[dict(i=v["i"], op=v["op"], ver=v.get("ver", 0),
                             what=(v["p"]["t"] if v["op"] == "enc" else f"{seg_total(v['segs']) if v['op'] == 'dec' else len(v['b'])} bytes"))
                        for v in b.vecs[:: max(1, len(b.vecs) // 5)]][:5])
    assumptions = ["the universe is bounded (see WireGen.tla); four byte integers are compared as 32 bit two's complement",
                   "outcomes the statement does not pin down (reference class MAY) are only checked for consumption, stability and "
                   "independence of the fragmentation"]
    vlib.write_evidence(prop, tier, seed, "model_checking", cov, time.time() - t0, len(new), assumptions)
    if new:
        seen = set()
        for x in new:
            if x["why"] in seen:
                continue
            seen.add(x["why"])
            if len(seen) > 8:
                break
            p = vlib.write_replay(prop, hashlib.sha256(x["signature"].encode()).hexdigest()[:10],
                                  dict(property=prop, group="wire", **x))
            print(f"VIOLATION property={prop} replay={p}")
            vv = x["vector"]
            print(f"  reason={x['why']} vector={json.dumps(vv)[:400]}")
        print(f"  ({len(new)} violating vectors of {len(b.vecs)})")
        return 1
    if drift:
        print(f"NOTE: {len(drift)} deliveries are cut into pieces differently from what spec/Framing.tla predicts "
              f"(the property holds on them; the model needs an update)")
    print(f"OK property={prop} tier={tier} vectors={len(b.vecs)} (enc {stats['enc']}, dec {stats['dec']}, sniff {stats['sniff']}) "
          f"items={stats['items']} judged={verdict['runs']} wall={time.time()-t0:.1f}s")
    return 0


def replay_wire(prop, r):
    """re-run one recorded vector through the harness and the judge"""
    if r["vector"].get("op") == "conn":
        run = r["vector"]["run"]
        tp = vlib.run_harness("conn", [dict(run=0, cfg=run["cfg"], cmds=run["cmds"])], "wire_conn_replay")[0]
        for line in open(tp):
            if '"h_' in line or '"ctl"' in line or '"panic"' in line:
                print(line.rstrip()[:200])
        verdict = vlib.judge("PayJudge", tp, "pay_replay")
        for x in verdict["viol"]:
            print(f"VIOLATION property={prop} replay={r.get('_path', '')}")
            print("  reason=" + x["why"])
            return 1
        print("replay: run is accepted now")
        return 0
    v = dict(r["vector"], i=0, grp=0)
    d = os.path.join(vlib.WORK, "runs")
    os.makedirs(d, exist_ok=True)
    vp, rp, jp = (os.path.join(d, f"wire_replay.{x}") for x in ("vec.ndjson", "res.ndjson", "joined"))
    open(vp, "w").write(json.dumps(v) + "\n")
    rr = vlib.sh([vlib.MQV, "codec", vp, rp, "1"])
    if rr.returncode != 0:
        raise vlib.ToolError("harness codec failed")
    res = json.loads(open(rp).read())
    print("vector:", json.dumps(v)[:1500])
    print("real  :", json.dumps(res)[:1500])
    open(jp, "w").write(json.dumps(dict(v=v, r=normalise(v, res))) + "\n")
    verdict = vlib.judge("WireJudge", vp, "wire_replay", parts=[jp])
    for x in verdict["viol"]:
        print(f"VIOLATION property={prop} replay={r.get('_path', '')}")
        print("  reason=" + x["why"])
        return 1
    print("replay: vector is accepted now")
    return 0
